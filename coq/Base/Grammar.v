(* Trees, grammars, and what it means for a tree to be a derivation (shared IR,
   DESIGN.md 1.1).  [valid_b] is the verified derivation checker used as oracle
   on implementation outputs. *)
From Coq Require Import List String NArith Bool Arith Lia.
From FV Require Import Base.Re.
Import ListNotations.
Open Scope string_scope.

Inductive payload := PStr (cps : list N) | PBytes (bs : list N).
Inductive leaf := LPay (p : payload) | LBit (b : bool).
Inductive tree := Leaf (l : leaf) | Node (nt : string) (kids : list tree).

Inductive term := TLit (p : payload) | TBit (b : bool) | TRe (id : N).
Inductive atom := ATm (t : term) | ARef (nt : string).

Inductive rhs :=
| Alt (rs : list rhs)
| Cat (rs : list rhs)
| Rep (r : rhs) (mn : nat) (mx : option nat)   (* mx = None: open-ended / computed *)
| Ref (nt : string)
| Tm (t : term).

(* instances of regex terminals accepted by Python's re.fullmatch (oracle table) *)
Record grammar := { rules : list (string * rhs); re_tab : list (N * list payload) }.

Fixpoint list_eqb {X} (e : X -> X -> bool) (a b : list X) : bool :=
  match a, b with
  | [], [] => true
  | x :: a', y :: b' => e x y && list_eqb e a' b'
  | _, _ => false
  end.

Lemma list_eqb_eq {X} (e : X -> X -> bool) (He : forall x y, e x y = true <-> x = y) a b :
  list_eqb e a b = true <-> a = b.
Proof.
  revert b. induction a as [|x a IH]; destruct b as [|y b]; simpl; try (split; congruence).
  rewrite andb_true_iff, He, IH. split; [intros [-> ->]; reflexivity|intros H; injection H; auto].
Qed.

Definition payload_eqb (p q : payload) : bool :=
  match p, q with
  | PStr a, PStr b => list_eqb N.eqb a b
  | PBytes a, PBytes b => list_eqb N.eqb a b
  | _, _ => false
  end.

Lemma payload_eqb_eq p q : payload_eqb p q = true <-> p = q.
Proof.
  destruct p, q; simpl; try (split; congruence);
    rewrite (list_eqb_eq N.eqb N.eqb_eq); split; congruence.
Qed.

Fixpoint assoc {X V} (e : X -> X -> bool) (k : X) (l : list (X * V)) : option V :=
  match l with
  | [] => None
  | (k', v) :: l' => if e k k' then Some v else assoc e k l'
  end.

Definition lookup (G : grammar) (nt : string) : option rhs := assoc String.eqb nt (rules G).

(* str and bytes payloads are identified through Latin-1 (units = code points / byte values):
   a leaf parsed from a bytes input is a bytes object also where the grammar has a str literal *)
Definition units_of (p : payload) : list N := match p with PStr s => s | PBytes b => b end.
Definition units_eqb (p q : payload) : bool := list_eqb N.eqb (units_of p) (units_of q).

Definition re_ok (G : grammar) (id : N) (p : payload) : bool :=
  match assoc N.eqb id (re_tab G) with
  | Some l => existsb (units_eqb p) l
  | None => false
  end.

Definition term_accepts (G : grammar) (t : term) (l : leaf) : bool :=
  match t, l with
  | TLit p, LPay q => units_eqb p q
  | TBit b, LBit c => Bool.eqb b c
  | TRe id, LPay q => re_ok G id q
  | _, _ => false
  end.

Definition acc (G : grammar) (a : atom) (t : tree) : bool :=
  match a, t with
  | ATm tm, Leaf l => term_accepts G tm l
  | ARef nt, Node nt' _ => String.eqb nt nt'
  | _, _ => false
  end.

Fixpoint to_re (r : rhs) : re atom :=
  match r with
  | Alt rs => (fix go (l : list rhs) : re atom :=
                 match l with [] => REmp _ | r' :: l' => RAlt _ (to_re r') (go l') end) rs
  | Cat rs => (fix go (l : list rhs) : re atom :=
                 match l with [] => REps _ | r' :: l' => RCat _ (to_re r') (go l') end) rs
  | Rep r' mn mx => RRep _ (to_re r') mn mx
  | Ref nt => RAtom _ (ARef nt)
  | Tm t => RAtom _ (ATm t)
  end.

(* the children of a node spell out one expansion of the body *)
Definition expands (G : grammar) (body : rhs) (kids : list tree) : Prop :=
  lang tree atom (acc G) (to_re body) kids.

Inductive valid (G : grammar) : tree -> Prop :=
| V_leaf l : valid G (Leaf l)
| V_node nt kids body :
    lookup G nt = Some body -> expands G body kids -> Forall (valid G) kids ->
    valid G (Node nt kids).

Definition root_is (s : string) (t : tree) : Prop := exists kids, t = Node s kids.

(* [t] is a derivation of [G] from start symbol [s] *)
Definition derives (G : grammar) (s : string) (t : tree) : Prop := root_is s t /\ valid G t.

Fixpoint valid_b (G : grammar) (t : tree) : bool :=
  match t with
  | Leaf _ => true
  | Node nt kids =>
      match lookup G nt with
      | Some body => matches tree atom (acc G) (to_re body) kids && forallb (valid_b G) kids
      | None => false
      end
  end.

Definition derives_b (G : grammar) (s : string) (t : tree) : bool :=
  match t with Node nt _ => String.eqb s nt && valid_b G t | Leaf _ => false end.

(* induction principle with access to the children *)
Section TreeInd.
  Variable P : tree -> Prop.
  Hypothesis Hleaf : forall l, P (Leaf l).
  Hypothesis Hnode : forall nt kids, Forall P kids -> P (Node nt kids).
  Fixpoint tree_ind' (t : tree) : P t :=
    match t with
    | Leaf l => Hleaf l
    | Node nt kids =>
        Hnode nt kids ((fix go (l : list tree) : Forall P l :=
                          match l with [] => Forall_nil _ | k :: l' => Forall_cons _ (tree_ind' k) (go l') end) kids)
    end.
End TreeInd.

Theorem valid_b_spec G t : valid_b G t = true <-> valid G t.
Proof.
  induction t as [l|nt kids IH] using tree_ind'.
  - simpl. split; [intros _; constructor|reflexivity].
  - simpl. destruct (lookup G nt) as [body|] eqn:Hl.
    + rewrite andb_true_iff, matches_spec, forallb_forall. split.
      * intros [Hm Hk]. econstructor; [exact Hl|exact Hm|].
        rewrite Forall_forall in *. intros k Hin. apply IH; auto.
      * intros H. inversion H as [|nt' kids' body' Hl' Hm Hk]; subst.
        rewrite Hl in Hl'. injection Hl' as <-. split; [exact Hm|].
        rewrite Forall_forall in *. intros k Hin. apply IH; auto.
    + split; [discriminate|]. intros H. inversion H; congruence.
Qed.

Theorem derives_b_spec G s t : derives_b G s t = true <-> derives G s t.
Proof.
  unfold derives_b, derives, root_is. destruct t as [l|nt kids].
  - split; [discriminate|]. intros [[k Hk] _]. discriminate.
  - rewrite andb_true_iff, valid_b_spec, String.eqb_eq. split.
    + intros [-> Hv]. split; [eexists; reflexivity|exact Hv].
    + intros [[k Hk] Hv]. injection Hk as -> _. auto.
Qed.

(* leaves in order, and sizes *)
Fixpoint leaves (t : tree) : list leaf :=
  match t with
  | Leaf l => [l]
  | Node _ kids => flat_map leaves kids
  end.

Fixpoint tsize (t : tree) : nat :=
  match t with
  | Leaf _ => 1
  | Node _ kids => S (fold_right (fun k n => tsize k + n) 0 kids)
  end.
