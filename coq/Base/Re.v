(* Regular expressions with bounded repetition over an abstract alphabet, their
   language, and a derivative-based matcher proved correct.  Used to say what
   "the children of a node spell out one expansion of the rule" means
   (letters = child trees), and for message-level languages (C19/C20). *)
From Coq Require Import List Arith Bool Lia.
Import ListNotations.

Section Re.
Variable A : Type.   (* letters *)
Variable T : Type.   (* atoms *)
Variable acc : T -> A -> bool.

Inductive re :=
| REmp
| REps
| RAtom (a : T)
| RAlt (r1 r2 : re)
| RCat (r1 r2 : re)
| RRep (r : re) (mn : nat) (mx : option nat).

Definition le_opt (n : nat) (mx : option nat) : bool :=
  match mx with None => true | Some m => n <=? m end.

Inductive pow (L : list A -> Prop) : nat -> list A -> Prop :=
| pow0 : pow L 0 []
| powS n u v : L u -> pow L n v -> pow L (S n) (u ++ v).

Fixpoint lang (r : re) (w : list A) : Prop :=
  match r with
  | REmp => False
  | REps => w = []
  | RAtom a => exists x, w = [x] /\ acc a x = true
  | RAlt r1 r2 => lang r1 w \/ lang r2 w
  | RCat r1 r2 => exists u v, w = u ++ v /\ lang r1 u /\ lang r2 v
  | RRep r mn mx => exists n, mn <= n /\ le_opt n mx = true /\ pow (lang r) n w
  end.

Fixpoint nullable (r : re) : bool :=
  match r with
  | REmp => false
  | REps => true
  | RAtom _ => false
  | RAlt r1 r2 => nullable r1 || nullable r2
  | RCat r1 r2 => nullable r1 && nullable r2
  | RRep r mn mx => (mn =? 0) || (nullable r && le_opt mn mx)
  end.

Definition opred (mx : option nat) : option nat :=
  match mx with None => None | Some m => Some (pred m) end.

Fixpoint deriv (x : A) (r : re) : re :=
  match r with
  | REmp => REmp
  | REps => REmp
  | RAtom a => if acc a x then REps else REmp
  | RAlt r1 r2 => RAlt (deriv x r1) (deriv x r2)
  | RCat r1 r2 => if nullable r1 then RAlt (RCat (deriv x r1) r2) (deriv x r2)
                  else RCat (deriv x r1) r2
  | RRep r mn mx =>
      match mx with
      | Some 0 => REmp
      | _ => RCat (deriv x r) (RRep r (pred mn) (opred mx))
      end
  end.

Definition matches (r : re) (w : list A) : bool := nullable (fold_left (fun r x => deriv x r) w r).

(* ---------------------------------------------------------------- proofs *)

Lemma pow_nil_of_nullable (L : list A -> Prop) n : L [] -> pow L n [].
Proof.
  intros H. induction n as [|n IH]; [constructor|].
  change (@nil A) with (@nil A ++ []). constructor; assumption.
Qed.

Lemma pow_mono (L : list A -> Prop) n m w : L [] -> n <= m -> pow L n w -> pow L m w.
Proof.
  intros HL Hle. revert n w Hle. induction m as [|m IH]; intros n w Hle Hp.
  - assert (n = 0) by lia. subst. exact Hp.
  - destruct n as [|n].
    + inversion Hp; subst. apply pow_nil_of_nullable. exact HL.
    + inversion Hp; subst. constructor; [assumption|]. apply (IH n); [lia|assumption].
Qed.

Lemma pow_nil_inv (L : list A -> Prop) n : pow L n [] -> n = 0 \/ L [].
Proof.
  intros H. destruct n as [|n]; [left; reflexivity|right].
  remember (S n) as m eqn:Hm. remember (@nil A) as w eqn:Hw.
  destruct H as [|n' u v Hu Hv]; [discriminate|].
  apply app_eq_nil in Hw. destruct Hw as [-> ->]. exact Hu.
Qed.

Lemma nullable_spec r : nullable r = true <-> lang r [].
Proof.
  induction r as [| |a|r1 IH1 r2 IH2|r1 IH1 r2 IH2|r IH mn mx]; simpl.
  - split; [discriminate|tauto].
  - split; auto.
  - split; [discriminate|]. intros (x & Hx & _). discriminate.
  - rewrite orb_true_iff, IH1, IH2. tauto.
  - rewrite andb_true_iff, IH1, IH2. split.
    + intros [H1 H2]. exists [], []. auto.
    + intros (u & v & Huv & H1 & H2). symmetry in Huv. apply app_eq_nil in Huv.
      destruct Huv; subst. auto.
  - rewrite orb_true_iff, andb_true_iff, Nat.eqb_eq, IH. split.
    + intros [-> | [Hn Hle]].
      * exists 0. split; [lia|]. split; [destruct mx; reflexivity|constructor].
      * exists mn. repeat split; [lia|exact Hle|apply pow_nil_of_nullable; exact Hn].
    + intros (n & Hmn & Hle & Hp). apply pow_nil_inv in Hp. destruct Hp as [-> | HL].
      * left. lia.
      * destruct (Nat.eq_dec mn 0) as [->|Hne]; [left; reflexivity|right]. split; [exact HL|].
        destruct mx as [m|]; simpl in *; [|reflexivity].
        apply Nat.leb_le in Hle. apply Nat.leb_le. lia.
Qed.

(* first-letter decomposition of a power *)
Lemma pow_cons_inv (L : list A -> Prop) n x w :
  pow L n (x :: w) ->
  exists k u v, k < n /\ w = u ++ v /\ L (x :: u) /\ pow L (n - 1 - k) v /\ (k = 0 \/ L []).
Proof.
  revert w. induction n as [|n IH]; intros w H; [inversion H|].
  remember (S n) as m eqn:Hm. remember (x :: w) as xw eqn:Heq.
  destruct H as [|n' u v Hu Hv]; [discriminate|]. injection Hm as ->.
  destruct u as [|y u].
  - simpl in *. subst v. destruct (IH _ Hv) as (k & u & v & Hk & -> & HLx & Hp & Hnull).
    exists (S k), u, v. repeat split; try assumption; [lia| |right; exact Hu].
    match goal with |- pow _ ?a _ => replace a with (n - 1 - k) by lia end. exact Hp.
  - simpl in *. injection Heq as Hy Hw. subst y w. exists 0, u, v.
    repeat split; try assumption; [lia| |left; reflexivity].
    match goal with |- pow _ ?a _ => replace a with n by lia end. exact Hv.
Qed.

Lemma le_opt_pred n mx : le_opt (S n) mx = true -> le_opt n (opred mx) = true.
Proof. destruct mx as [m|]; unfold le_opt, opred; [|auto]. rewrite !Nat.leb_le. lia. Qed.

Lemma le_opt_succ n mx : mx <> Some 0 -> le_opt n (opred mx) = true -> le_opt (S n) mx = true.
Proof.
  destruct mx as [m|]; unfold le_opt, opred; [|auto]. rewrite !Nat.leb_le. intros Hm. destruct m; [congruence|]. lia.
Qed.

Lemma deriv_spec r : forall x w, lang (deriv x r) w <-> lang r (x :: w).
Proof.
  induction r as [| |a|r1 IH1 r2 IH2|r1 IH1 r2 IH2|r IH mn mx]; intros x w; simpl.
  - tauto.
  - split; [tauto|discriminate].
  - destruct (acc a x) eqn:Ha; simpl.
    + split.
      * intros ->. exists x. auto.
      * intros (y & Hy & _). injection Hy as _ ->. reflexivity.
    + split; [tauto|]. intros (y & Hy & Hacc). injection Hy as -> _. congruence.
  - rewrite IH1, IH2. tauto.
  - assert (Hcat : (exists u v, w = u ++ v /\ lang (deriv x r1) u /\ lang r2 v) <->
                   (exists u v, x :: w = (x :: u) ++ v /\ lang r1 (x :: u) /\ lang r2 v)).
    { split; intros (u & v & Huv & H1 & H2); exists u, v.
      - subst. rewrite IH1 in H1. auto.
      - simpl in Huv. injection Huv as ->. rewrite IH1. auto. }
    destruct (nullable r1) eqn:Hn; simpl.
    + rewrite IH2. split.
      * intros [H | H].
        -- apply Hcat in H. destruct H as (u & v & Huv & H1 & H2). exists (x :: u), v. auto.
        -- exists [], (x :: w). repeat split; [|exact H]. apply nullable_spec. exact Hn.
      * intros (u & v & Huv & H1 & H2). destruct u as [|y u].
        -- simpl in Huv. subst v. right. exact H2.
        -- simpl in Huv. injection Huv as <- ->. left. exists u, v. rewrite IH1. auto.
    + split.
      * intros H. apply Hcat in H. destruct H as (u & v & Huv & H1 & H2). exists (x :: u), v. auto.
      * intros (u & v & Huv & H1 & H2). destruct u as [|y u].
        -- apply nullable_spec in H1. congruence.
        -- simpl in Huv. injection Huv as <- ->. exists u, v. rewrite IH1. auto.
  - assert (Hfwd : forall mx', mx' <> Some 0 ->
              (exists u v, w = u ++ v /\ lang (deriv x r) u /\
                 exists n, pred mn <= n /\ le_opt n (opred mx') = true /\ pow (lang r) n v)
              <-> exists n, mn <= n /\ le_opt n mx' = true /\ pow (lang r) n (x :: w)).
    { intros mx' Hne. split.
      - intros (u & v & -> & Hu & n & Hmn & Hle & Hp). rewrite IH in Hu.
        exists (S n). repeat split; [lia|apply le_opt_succ; assumption|].
        change (x :: u ++ v) with ((x :: u) ++ v). constructor; assumption.
      - intros (n & Hmn & Hle & Hp).
        destruct (pow_cons_inv _ _ _ _ Hp) as (k & u & v & Hk & -> & HLx & Hpv & Hnull).
        exists u, v. repeat split; [rewrite IH; exact HLx|].
        destruct n as [|n]; [lia|].
        exists n. repeat split; [lia|apply le_opt_pred; exact Hle|].
        destruct Hnull as [-> | HL].
        + replace (S n - 1 - 0) with n in Hpv by lia. exact Hpv.
        + apply (pow_mono _ (S n - 1 - k) n); [exact HL|lia|exact Hpv]. }
    destruct mx as [[|m]|].
    + simpl. split; [tauto|]. intros (n & _ & Hle & Hp). apply Nat.leb_le in Hle.
      assert (n = 0) by lia. subst. inversion Hp.
    + apply (Hfwd (Some (S m))). discriminate.
    + apply (Hfwd None). discriminate.
Qed.

Theorem matches_spec w : forall r, matches r w = true <-> lang r w.
Proof.
  unfold matches. induction w as [|x w IH]; intros r; simpl.
  - apply nullable_spec.
  - rewrite IH. apply deriv_spec.
Qed.

End Re.
