(* evaluators used by generated case files for C01 (and by every property that
   judges implementation trees with the verified derivation checker) *)
From Coq Require Import List String NArith Bool Arith.
From FV Require Import Base.Re Base.Grammar Model.FuzzM Model.ReplaceM.
Import ListNotations.

Fixpoint tree_eqb (a b : tree) {struct a} : bool :=
  match a, b with
  | Leaf l, Leaf l' => leaf_eqb l l'
  | Node x ks, Node y ks' =>
      String.eqb x y &&
      (fix go (l l' : list tree) {struct l} : bool :=
         match l, l' with
         | [], [] => true
         | k :: r, k' :: r' => tree_eqb k k' && go r r'
         | _, _ => false
         end) ks ks'
  | _, _ => false
  end.

Definition c01_fuzz_ok (c : grammar * string * nat * list dec * tree) : bool :=
  let '(G, s, fuel, tape, obs) := c in
  match fuzz_start G fuel s tape with
  | Some t => tree_eqb t obs
  | None => false
  end.

Definition c01_replace_ok (c : tree * path * tree * nat * tree) : bool :=
  let '(t, p, v, fuel, obs) := c in
  match replace1 fuel t p v with
  | Some t' => tree_eqb t' obs
  | None => false
  end.

Definition c01_derives_ok (c : grammar * string * tree) : bool :=
  let '(G, s, t) := c in derives_b G s t.

(* DerivationTree.replace_multiple with several (replacee path, replacement) pairs *)
Definition c01_replace_multi_ok (c : tree * list (path * tree) * nat * tree) : bool :=
  let '(t, reps, fuel, obs) := c in
  match replace_m fuel reps [] t with
  | Some t' => tree_eqb t' obs
  | None => false
  end.
