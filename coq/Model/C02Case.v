(* evaluators for generated C02 case files *)
From Coq Require Import List String ZArith Bool Arith.
From FV Require Import Base.Re Base.Grammar Model.ReplaceM Model.SearchM Model.ConstraintM Model.C07Case.
From FV Require Import gen.EvalArith Model.C03Case.
Import ListNotations.

Definition result_of (r : res) : option (Z * Z) :=
  match r with Fit f => Some (Z.of_nat (solved f), Z.of_nat (total f)) | _ => None end.

Definition pair_eqb (a b : option (Z * Z)) : bool :=
  match a, b with
  | Some (s, t), Some (s', t') => (s =? s')%Z && (t =? t')%Z
  | None, None => true
  | _, _ => false
  end.

(* (tree, hard constraints, oracle, impl per-constraint (solved,total)|raise, impl rep results, impl "yielded")
   1 agree, 0 differ, 4 missing *)
Definition c02_corr (c : tree * list constr * oracle * list (option (Z * Z)) * list (option (Z * Z)) * bool) : nat :=
  let '(t0, cs, orc, ires, rep, iacc) := c in
  let rs := map (fun k => fitness_m (code_F t0) (code_Q t0) orc false k [] []) cs in
  if existsb (fun r => match r with Missing => true | _ => false end) rs then 4
  else
    let mres := map result_of rs in
    let macc := snd (evaluate_individual_m (Z.of_nat (List.length cs)) (Z.of_nat (List.length rep)) 0
                       (class_fitness (res_of mres)) (class_fitness (res_of rep)) PrimFloat.zero PrimFloat.one true) in
    if list_eqb pair_eqb mres ires && Bool.eqb macc iacc then 1 else 0.

(* property on an emitted solution: every constraint holds in the documented meaning.
   1 holds, 0 violated, 2 violated only via the known `..` case, 4 missing *)
Definition c02_prop (c : tree * list constr * oracle) : nat :=
  let '(t0, cs, orc) := c in
  let vs := map (verdict_doc t0 orc) cs in
  if existsb is_missing vs then 4
  else if forallb is_true vs then 1
  else if negb (forallb (fun k => all_clean t0 k [] []) cs) then 2 else 0.
