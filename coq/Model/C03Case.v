(* Correspondence evaluator for C03/C02: runs the translated arithmetic on a case
   observed on the real Evaluator. *)
From Coq Require Import ZArith List Bool PrimFloat.
From FV Require Import gen.EvalArith.
Import ListNotations.

Definition res_of (l : list (option (Z * Z))) : list (option float) :=
  map (fun o => match o with Some (s, t) => Some (constraint_fitness s t) | None => None end) l.

(* (hard results, rep results, observed fitness, observed "yielded") *)
Definition c03_case_ok (c : list (option (Z * Z)) * list (option (Z * Z)) * float * bool) : bool :=
  let '(hs, rs, f, acc) := c in
  let '(f', acc') := evaluate_individual_m (Z.of_nat (length hs)) (Z.of_nat (length rs)) 0
                       (class_fitness (res_of hs)) (class_fitness (res_of rs)) zero one true in
  andb (PrimFloat.eqb f f') (Bool.eqb acc acc').
