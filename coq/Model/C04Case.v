(* evaluators for generated C04/C05/C12/C13 case files *)
From Coq Require Import List Arith Bool String NArith.
From FV Require Import Base.Re Base.Grammar Model.ReplaceM Model.C01Case Model.EarleyM.
Import ListNotations.
Open Scope list_scope.

Definition forest_subset (a b : list tree) : bool := forallb (fun t => existsb (tree_eqb t) b) a.
Definition forest_eq_set (a b : list tree) : bool := forest_subset a b && forest_subset b a.

(* correspondence: the chart model and the implementation yield the same set of collapsed trees.
   1 = same; 0 = differ; 5 = the model ran out of fuel (inconclusive) *)
Definition c04_corr (c : crules * string * input * nat * list tree) : nat :=
  let '(g, start, inp, fuel, impl) := c in
  let cols := admitted fuel g start inp in
  if existsb (fun n => Nat.leb fuel n) cols then 5
  else if forest_eq_set (parse_m fuel g start inp) impl then 1 else 0.

(* ---- the property on the implementation's trees *)
Fixpoint no_helper (t : tree) : bool :=
  match t with
  | Leaf _ => true
  | Node n kids => negb (String.prefix "<__" n) && negb (String.prefix "<*" n) && forallb no_helper kids
  end.

Definition has_bits (ls : list leaf) : bool := existsb (fun l => match l with LBit _ => true | _ => false end) ls.
Definition leaf_units (l : leaf) : list N := match l with LPay p => lit_units p | LBit _ => [] end.

Definition unit_bits (u : N) : list bool :=
  [N.testbit u 7; N.testbit u 6; N.testbit u 5; N.testbit u 4; N.testbit u 3; N.testbit u 2; N.testbit u 1; N.testbit u 0].
Definition leaf_bits_u (l : leaf) : list bool :=
  match l with LBit b => [b] | LPay p => flat_map unit_bits (lit_units p) end.

(* the serialisation of the tree equals the input exactly *)
Definition yield_ok (inp : input) (t : tree) : bool :=
  let ls := leaves t in
  if has_bits ls
  then list_eqb Bool.eqb (flat_map leaf_bits_u ls) (flat_map unit_bits (units inp))
  else list_eqb N.eqb (flat_map leaf_units ls) (units inp).

(* 1 = every yielded tree derives from the grammar, spells the input and has no helper symbols *)
Definition c04_prop (c : grammar * string * input * list tree) : nat :=
  let '(G, start, inp, impl) := c in
  if forallb (fun t => derives_b G start t && yield_ok inp t && no_helper t) impl then 1 else 0.

(* the same comparison modulo empty derivations: subtrees that spell nothing are erased on both sides first.
   With empty-deriving nonterminals the implementation and the chart model may enumerate different subsets of the (valid) empty
   derivations; which of them are found is a matter of completeness (C05), not of soundness. *)
Fixpoint spells_nothing (t : tree) : bool :=
  match t with
  | Leaf (LPay p) => match lit_units p with [] => true | _ => false end
  | Leaf (LBit _) => false
  | Node _ kids => forallb spells_nothing kids
  end.
Fixpoint erase_empty (t : tree) : tree :=
  match t with
  | Leaf l => Leaf l
  | Node n kids =>
      Node n ((fix go (ks : list tree) : list tree :=
                 match ks with
                 | [] => []
                 | k :: ks' => if spells_nothing k then go ks' else erase_empty k :: go ks'
                 end) kids)
  end.
Definition c04_corr_modulo_empty (c : crules * string * input * nat * list tree) : nat :=
  let '(g, start, inp, fuel, impl) := c in
  let cols := admitted fuel g start inp in
  if existsb (fun n => Nat.leb fuel n) cols then 5
  else if forest_eq_set (map erase_empty (parse_m fuel g start inp)) (map erase_empty impl) then 1 else 0.
