(* evaluators for generated C05 case files *)
From Coq Require Import List Arith Bool String NArith.
From FV Require Import Base.Re Base.Grammar Model.ReplaceM Model.C01Case Model.EarleyM Model.C04Case.
Import ListNotations.
Open Scope list_scope.

(* nullable nonterminals of a source grammar (Kleene iteration, |rules| rounds) *)
Fixpoint rhs_nullable (nul : list string) (re_empty : N -> bool) (r : rhs) : bool :=
  match r with
  | Alt rs => existsb (rhs_nullable nul re_empty) rs
  | Cat rs => forallb (rhs_nullable nul re_empty) rs
  | Rep r' mn _ => Nat.eqb mn 0 || rhs_nullable nul re_empty r'
  | Ref nt => existsb (String.eqb nt) nul
  | Tm (TLit p) => match units_of p with [] => true | _ => false end
  | Tm (TBit _) => false
  | Tm (TRe id) => re_empty id
  end.

Definition re_has_empty (G : grammar) (id : N) : bool :=
  match assoc N.eqb id (re_tab G) with
  | Some l => existsb (fun p => match units_of p with [] => true | _ => false end) l
  | None => false
  end.

Fixpoint nullable_iter (G : grammar) (n : nat) (nul : list string) : list string :=
  match n with
  | O => nul
  | S n' =>
      nullable_iter G n'
        (map fst (filter (fun nr => rhs_nullable nul (re_has_empty G) (snd nr)) (rules G)))
  end.
Definition nullables (G : grammar) : list string := nullable_iter G (S (List.length (rules G))) [].

Fixpoint has_empty_leaf (t : tree) : bool :=
  match t with
  | Leaf (LPay p) => match units_of p with [] => true | _ => false end
  | Leaf _ => false
  | Node _ kids => existsb has_empty_leaf kids
  end.

Definition has_regex (G : grammar) : bool := match re_tab G with [] => false | _ => true end.

(* (source grammar, compiled rules, start, input, witness derivation of the input, did the implementation accept?)
   1 = accepted; 0 = a certified member is rejected although the faithful chart model accepts it;
   2 = rejected by implementation and model alike, the witness uses an empty regex instance (recorded finding);
   3 = rejected by both, the grammar has empty-deriving nonterminals (recorded finding: nullable re-prediction);
   6 = the witness is not a derivation of the input (harness error); 7 = rejected by both without a recorded signature *)
Definition c05_prop (c : grammar * crules * string * input * tree * bool * nat) : nat :=
  let '(G, cr, start, inp, wit, acc, fuel) := c in
  if negb (derives_b G start wit && yield_ok inp wit) then 6
  else if acc then 1
  else match parse_m fuel cr start inp with
       | _ :: _ => 0
       | [] => if has_empty_leaf wit && has_regex G then 2
               else match nullables G with _ :: _ => 3 | [] => 7 end
       end.
