(* evaluator for generated C06 case files *)
From Coq Require Import List Arith Bool String NArith.
From FV Require Import Base.Re Base.Grammar Model.ReplaceM Model.C01Case Model.EarleyM Model.EarleyFuelM.
Import ListNotations.

(* (compiled rules, start, input, fuel, states admitted by the implementation, did the implementation finish within its budget?)
   1 = both terminate (the implementation within 50 x model work + 10000 admitted states) or both exceed;
   0 = the model run terminates but the implementation exceeded its budget *)
Definition c06_eval (c : crules * string * input * nat * N * bool) : nat :=
  let '(g, start, inp, fuel, impl_states, impl_done) := c in
  let '(w, done) := work fuel g start inp in
  if done then (if impl_done && N.leb impl_states (50 * N.of_nat w + 10000)%N then 1 else 0)
  else (if impl_done then 1 else 2).    (* 2 = neither finished: to be classified by signature *)
