(* evaluators for generated C07/C02 case files *)
From Coq Require Import List String ZArith Bool Arith.
From FV Require Import Base.Re Base.Grammar Model.ReplaceM Model.SearchM Model.ConstraintM.
Import ListNotations.

Definition verdict_eqb (a b : verdict) : bool :=
  match a, b with
  | VTrue, VTrue | VFalse, VFalse | VRaise, VRaise | VMissing, VMissing => true
  | _, _ => false
  end.

Definition is_true (v : verdict) : bool := match v with VTrue => true | _ => false end.
Definition is_missing (v : verdict) : bool := match v with VMissing => true | _ => false end.

(* correspondence: model (code-shaped) vs implementation, eager and lazy.
   1 = agree, 0 = differ, 4 = oracle entry missing *)
Definition c07_corr (c : tree * constr * oracle * verdict * verdict) : nat :=
  let '(t0, k, orc, ie, il) := c in
  let me := check_code t0 orc false k in
  let ml := check_code t0 orc true k in
  if is_missing me || is_missing ml then 4
  else if verdict_eqb me ie && verdict_eqb ml il then 1 else 0.

(* the property judged on the implementation's answers against the documented meaning.
   1 = holds; 0 = violated; 2 = violated only through `..` on a same-symbol base (known);
   3 = lazy answers although the documented verdict is "raises" (known); 4 = missing *)
Definition c07_prop (c : tree * constr * oracle * verdict * verdict) : nat :=
  let '(t0, k, orc, ie, il) := c in
  let d := verdict_doc t0 orc k in
  if is_missing d then 4
  else
    let ok_e := Bool.eqb (is_true ie) (is_true d) in
    let ok_l := Bool.eqb (is_true il) (is_true d) in
    if ok_e && ok_l then 1
    else if negb (all_clean t0 k [] []) then 2
    else if ok_e && (match d with VRaise => true | _ => false end) then 3
    else 0.

Definition cont_list_eqb (a b : list cont) : bool := list_eqb cont_eqb a b.

(* selector correspondence: Some l = containers returned, None = IndexError *)
Definition c07_find (c : tree * search * option (list cont)) : nat :=
  let '(t0, s, impl) := c in
  match find_m t0 [] s false (RPath []), impl with
  | Some a, Some b => if cont_list_eqb a b then 1 else 0
  | None, None => 1
  | _, _ => 0
  end.

(* selector property: implementation vs documented denotation; 2 = known `..` case *)
Definition c07_find_doc (c : tree * search * option (list cont)) : nat :=
  let '(t0, s, impl) := c in
  let ok := match den t0 [] s MTop (RPath []), impl with
            | Some a, Some b => cont_list_eqb a b
            | None, None => true
            | _, _ => false
            end in
  if ok then 1 else if negb (desc_clean t0 [] s MTop (RPath [])) then 2 else 0.

(* every constraint of a list holds on a tree in the documented meaning (used for trees handed out by the public parse API, C04).
   1 holds, 0 violated, 2 violated only via the recorded `..` case, 4 oracle entry missing *)
Definition c07_all_hold (c : tree * list constr * oracle) : nat :=
  let '(t0, cs, orc) := c in
  let vs := map (verdict_doc t0 orc) cs in
  if existsb is_missing vs then 4
  else if forallb is_true vs then 1
  else if negb (forallb (fun k => all_clean t0 k [] []) cs) then 2 else 0.
