(* evaluators for generated C09 case files *)
From Coq Require Import List NArith Bool Arith String.
From FV Require Import Base.Re Base.Grammar Model.TreeValueM.
Import ListNotations.
Open Scope list_scope.

(* observed answer of one request on the implementation *)
Inductive obs :=
| OStr (cps : list N) | OBytes (bs : list N) | OBits (l : list bool) | OInt (n : N)
| OErr          (* FandangoConversionError *)
| OSkip.        (* request not compared (int() of text) *)
Inductive req := RStr | RBytes | RBits | RInt.

Definition nlist_eqb := list_eqb N.eqb.
Definition blist_eqb := list_eqb Bool.eqb.

Definition model_answer (t : tree) (r : req) : obs :=
  match value_m t with
  | Err _ => OErr
  | Ok a =>
      match r with
      | RStr => match to_string a with Ok s => OStr s | Err _ => OErr end
      | RBytes => match to_bytes a with Ok b => OBytes b | Err _ => OErr end
      | RBits => match to_bits a with Ok l => OBits l | Err _ => OErr end
      | RInt => match to_int_bits a with Some n => OInt n | None => OSkip end
      end
  end.

Definition obs_eqb (a b : obs) : bool :=
  match a, b with
  | OStr x, OStr y => nlist_eqb x y
  | OBytes x, OBytes y => nlist_eqb x y
  | OBits x, OBits y => blist_eqb x y
  | OInt x, OInt y => N.eqb x y
  | OErr, OErr => true
  | OSkip, _ | _, OSkip => true
  | _, _ => false
  end.

(* correspondence: every request of the sequence, on one tree object *)
Definition c09_corr (c : tree * list (req * obs)) : nat :=
  let '(t, rs) := c in
  if forallb (fun ro => obs_eqb (model_answer t (fst ro)) (snd ro)) rs then 1 else 0.

(* ---- the property, stated on the leaf sequence only (independent of the model's fold) *)
Definition is_bit (l : leaf) : bool := match l with LBit _ => true | _ => false end.

(* every maximal run of bit leaves that is followed by a text/bytes leaf has length = 0 mod 8 *)
Fixpoint aligned (ls : list leaf) (run : nat) : bool :=
  match ls with
  | [] => true
  | l :: ls' => if is_bit l then aligned ls' (S run) else (Nat.eqb (run mod 8) 0) && aligned ls' 0
  end.

Definition spec_bits (ls : list leaf) : option (list bool) :=
  (fix go (ls : list leaf) : option (list bool) :=
     match ls with
     | [] => Some []
     | l :: ls' => match leaf_bits l, go ls' with Ok x, Some y => Some (x ++ y) | _, _ => None end
     end) ls.

Definition text_only (ls : list leaf) : option (list N) :=
  (fix go (ls : list leaf) : option (list N) :=
     match ls with
     | [] => Some []
     | LPay (PStr s) :: ls' => option_map (app s) (go ls')
     | _ => None
     end) ls.

(* documented answers: bits = concatenation; bytes = bits grouped by 8; text-only tree = the text;
   binary tree = Latin-1 decoding of its bytes.  None = the conversion is not defined (unaligned,
   not a whole number of bytes, text that cannot be encoded) *)
Definition spec_answer (ls : list leaf) (r : req) : option obs :=
  if negb (aligned ls 0) then None else
  match r with
  | RBits => option_map OBits (spec_bits ls)
  | RBytes => match spec_bits ls with Some b => option_map OBytes (bytes_of_bits b) | None => None end
  | RStr => match text_only ls with
            | Some s => Some (OStr s)
            | None => match spec_bits ls with Some b => option_map (fun x => OStr (latin1_decode x)) (bytes_of_bits b) | None => None end
            end
  | RInt => None
  end.

(* pending non-ASCII text directly followed by the trailing bit run (the recorded departure) *)
Fixpoint trailing_text_bits (ls : list leaf) (nonascii : bool) : bool :=
  match ls with
  | LPay (PStr s) :: ls' => trailing_text_bits ls' (nonascii || negb (forallb (fun c => (c <? 128)%N) s))
  | LBit _ :: ls' => nonascii && forallb is_bit ls'      (* text leaves only, then bit leaves only *)
  | _ => false
  end.

(* 1 = every defined documented answer is what the implementation returned; 0 = violated;
   2 = str() differs only in the recorded Latin-1/UTF-8 case *)
Definition c09_prop (c : tree * list (req * obs)) : nat :=
  let '(t, rs) := c in
  let ls := leaves t in
  let bad := filter (fun ro => match spec_answer ls (fst ro) with
                               | Some o => negb (obs_eqb o (snd ro))
                               | None => false
                               end) rs in
  match bad with
  | [] => 1
  | _ => if forallb (fun ro => match fst ro with RStr => true | _ => false end) bad
            && trailing_text_bits ls false then 2 else 0
  end.
