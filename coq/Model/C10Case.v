(* evaluators for generated C10 case files: canonical dumps of object pools *)
From Coq Require Import List NArith Bool Arith ZArith.
From FV Require Import Model.HeapTreeM.
Import ListNotations.
Open Scope list_scope.

(* a dumped object: fields, reported size, parent (canonical index of the parent object;
   External = an object that is not reachable from the pool), whether hash(obj) equals the hash
   of a freshly rebuilt structure, children.  DRef = an object that was already dumped (sharing). *)
Inductive dpar := PNone | PIdx (i : nat) | PExternal.
Inductive dnode :=
| D (sym snd rcp size : nat) (par : dpar) (coherent : bool) (kids : list dnode)
| DRef (idx : nat).

Fixpoint atree_eqb (x y : atree) {struct x} : bool :=
  match x, y with
  | A s a b ks, A s' a' b' ks' =>
      Nat.eqb s s' && Nat.eqb a a' && Nat.eqb b b' &&
      (fix go (l l' : list atree) {struct l} : bool :=
         match l, l' with
         | [], [] => true
         | k :: r, k' :: r' => atree_eqb k k' && go r r'
         | _, _ => false
         end) ks ks'
  end.

Fixpoint ids_of (o : obj) : list nat :=
  match o with O i _ _ _ _ _ _ kids => i :: flat_map ids_of kids end.

Fixpoint index_of (x : nat) (l : list nat) (n : nat) : option nat :=
  match l with [] => None | y :: l' => if Nat.eqb x y then Some n else index_of x l' (S n) end.

Fixpoint dump_obj (all : list nat) (o : obj) : dnode :=
  match o with
  | O i s a b p z h kids =>
      D s a b z
        (match p with None => PNone | Some q => match index_of q all 0 with Some k => PIdx k | None => PExternal end end)
        (match h with Some t => atree_eqb t (abs o) | None => true end)
        (map (dump_obj all) kids)
  end.

Definition dump (st : state) : list dnode :=
  let all := flat_map ids_of (pool st) in map (dump_obj all) (pool st).

Definition dpar_eqb (a b : dpar) : bool :=
  match a, b with PNone, PNone | PExternal, PExternal => true | PIdx i, PIdx j => Nat.eqb i j | _, _ => false end.

Fixpoint dnode_eqb (x y : dnode) {struct x} : bool :=
  match x, y with
  | D s a b z p c ks, D s' a' b' z' p' c' ks' =>
      Nat.eqb s s' && Nat.eqb a a' && Nat.eqb b b' && Nat.eqb z z' && dpar_eqb p p' && Bool.eqb c c' &&
      (fix go (l l' : list dnode) {struct l} : bool :=
         match l, l' with
         | [], [] => true
         | k :: r, k' :: r' => dnode_eqb k k' && go r r'
         | _, _ => false
         end) ks ks'
  | DRef i, DRef j => Nat.eqb i j
  | _, _ => false
  end.

Fixpoint dumps_eqb (l l' : list dnode) : bool :=
  match l, l' with
  | [], [] => true
  | x :: r, y :: r' => dnode_eqb x y && dumps_eqb r r'
  | _, _ => false
  end.

(* correspondence: after every operation the model's pool and the implementation's objects agree *)
Fixpoint corr_run (st : state) (steps : list (op * list dnode)) : bool :=
  match steps with
  | [] => true
  | (o, d) :: rest => let st' := step st o in dumps_eqb (dump st') d && corr_run st' rest
  end.
Definition c10_corr (steps : list (op * list dnode)) : nat := if corr_run init steps then 1 else 0.

(* ---- the property, judged on the implementation's dumps alone *)
Definition dsize (d : dnode) : nat := match d with D _ _ _ z _ _ _ => z | DRef _ => 0 end.

(* returns (ok, next canonical index) *)
Fixpoint dnode_ok (d : dnode) (me : nat) {struct d} : bool * nat :=
  match d with
  | DRef _ => (false, me)                      (* an object listed twice: aliasing *)
  | D _ _ _ z _ c kids =>
      let '(okk, nx, sum) :=
        (fix go (ks : list dnode) (n : nat) (acc : nat) {struct ks} : bool * nat * nat :=
           match ks with
           | [] => (true, n, acc)
           | k :: ks' =>
               let '(ok1, n1) := dnode_ok k n in
               let par_ok := match k with D _ _ _ _ (PIdx q) _ _ => Nat.eqb q me | _ => false end in
               let '(ok2, n2, acc2) := go ks' n1 (acc + dsize k) in
               (ok1 && par_ok && ok2, n2, acc2)
           end) kids (S me) 0 in
      (okk && c && Nat.eqb z (S sum), nx)
  end.

Fixpoint pool_ok (ds : list dnode) (n : nat) : bool :=
  match ds with
  | [] => true
  | d :: ds' => let '(ok, n') := dnode_ok d n in ok && pool_ok ds' n'
  end.

(* fresh operations must leave every earlier pool entry as it was *)
Definition is_fresh (o : op) : bool :=
  match o with OCopy _ _ | OCopyWhole _ | OReplace _ _ _ _ | OPrefix _ _ | OCopyPruned _ _ => true | _ => false end.
Definition inputs_kept (o : op) (before after : list dnode) : bool :=
  if is_fresh o then dumps_eqb (firstn (List.length before) after) before else true.

(* 1 = every dump is consistent and fresh operations kept their inputs; 0 = violated *)
Fixpoint prop_run (prev : list dnode) (steps : list (op * list dnode)) : bool :=
  match steps with
  | [] => true
  | (o, d) :: rest => pool_ok d 0 && inputs_kept o prev d && prop_run d rest
  end.
Definition c10_prop (steps : list (op * list dnode)) : nat := if prop_run [] steps then 1 else 0.
