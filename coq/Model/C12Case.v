(* evaluator for generated C12 case files *)
From Coq Require Import List Arith Bool String NArith.
From FV Require Import Base.Grammar Model.ReplaceM Model.C01Case Model.ParserCacheM.
Import ListNotations.
Open Scope list_scope.

Definition trees_eqb (a b : list tree) : bool := list_eqb tree_eqb a b.

(* forests: what a fresh grammar object yields per key; hist: requests with the implementation's answers *)
Fixpoint run_check (forest : nat -> list tree) (c : cache) (hist : list (request * list tree)) : bool :=
  match hist with
  | [] => true
  | (r, ans) :: rest =>
      let '(m, c') := serve forest c r in
      (match r with Fuzz => true | _ => trees_eqb m ans end) && run_check forest c' rest
  end.

Definition c12_corr (c : list (list tree) * list (request * list tree)) : nat :=
  let '(fs, hist) := c in
  if run_check (fun k => nth k fs []) [] hist then 1 else 0.

(* the property itself, without the cache model: every complete answer equals the fresh forest,
   every partial answer is a prefix of it *)
Definition c12_prop (c : list (list tree) * list (request * list tree)) : nat :=
  let '(fs, hist) := c in
  if forallb (fun ra => match fst ra with
                        | ParseAll k => trees_eqb (snd ra) (nth k fs [])
                        | ParseSome k n => trees_eqb (snd ra) (firstn n (nth k fs []))
                        | Fuzz => true
                        end) hist then 1 else 0.
