(* evaluator for generated C13 case files *)
From Coq Require Import List Arith Bool String NArith.
From FV Require Import Base.Re Base.Grammar Model.ReplaceM Model.C01Case Model.EarleyM Model.C04Case.
Import ListNotations.
Open Scope list_scope.

(* (compiled rules, start, whole input, fuel, per composition: the complete trees available after the last piece, and
   whether can_continue() was false after some proper prefix).
   1 = every composition yields exactly the one-shot forest of the chart model and never gives up on a prefix of a member;
   0 = some composition loses a one-shot parse; 2 = some composition has additional parses only; 3 = the parser gave up on a prefix of a word that is in the language; 5 = model out of fuel *)
Definition c13_eval (c : crules * string * input * nat * list (list tree * bool)) : nat :=
  let '(g, start, inp, fuel, comps) := c in
  if existsb (fun n => Nat.leb fuel n) (admitted fuel g start inp) then 5 else
  let oneshot := parse_m fuel g start inp in
  if negb (forallb (fun cb => forest_subset oneshot (fst cb)) comps) then 0      (* some way of cutting loses a parse *)
  else if negb (forallb (fun cb => forest_subset (fst cb) oneshot) comps) then 2  (* only additional parses *)
  else match oneshot with
       | [] => 1
       | _ => if existsb snd comps then 3 else 1
       end.
