(* C15 case evaluators: the re-read grammar / constraint compared with the original *)
From Coq Require Import List String ZArith NArith Bool Arith.
From FV Require Import Base.Re Base.Grammar Model.ReplaceM Model.SearchM Model.ConstraintM Model.PrinterM.
Import ListNotations.
Open Scope list_scope.

Definition oZ_eqb (a b : option Z) : bool :=
  match a, b with None, None => true | Some x, Some y => Z.eqb x y | _, _ => false end.

Definition index_eqb (a b : index) : bool :=
  match a, b with
  | IAt i, IAt j => Z.eqb i j
  | ISlice l h, ISlice l' h' => oZ_eqb l l' && oZ_eqb h h'
  | _, _ => false
  end.

Fixpoint search_eqb (a b : search) : bool :=
  match a, b with
  | SRule x, SRule y => String.eqb x y
  | SAttr p q, SAttr p' q' | SDesc p q, SDesc p' q' => search_eqb p p' && search_eqb q q'
  | SItem p i, SItem p' i' => search_eqb p p' && index_eqb i i'
  | SStar p, SStar p' | SLen p, SLen p' => search_eqb p p'
  | _, _ => false
  end.

Definition binder_eqb (a b : binder) : bool :=
  match a, b with BNt x, BNt y | BVar x, BVar y => String.eqb x y | _, _ => false end.

Definition ss_eqb (a b : list (string * search)) : bool :=
  list_eqb (fun p q => String.eqb (fst p) (fst q) && search_eqb (snd p) (snd q)) a b.

Fixpoint constr_eqb (a b : constr) {struct a} : bool :=
  match a, b with
  | KExpr i ss, KExpr j ss' | KCmp i ss, KCmp j ss' => Nat.eqb i j && ss_eqb ss ss'
  | KAnd l, KAnd l' | KOr l, KOr l' =>
      (fix go (x y : list constr) {struct x} : bool :=
         match x, y with [], [] => true | p :: x', q :: y' => constr_eqb p q && go x' y' | _, _ => false end) l l'
  | KImp p q, KImp p' q' => constr_eqb p p' && constr_eqb q q'
  | KAll bd s body, KAll bd' s' body' | KAny bd s body, KAny bd' s' body' =>
      binder_eqb bd bd' && search_eqb s s' && constr_eqb body body'
  | _, _ => false
  end.

(* 1 = identical after export (same verdict on every tree: Proofs/C15.v); 0 = different *)
Definition c15_constr (c : list constr * list constr) : nat :=
  if list_eqb constr_eqb (fst c) (snd c) then 1 else 0.
