(* C16 case evaluators *)
From Coq Require Import List String NArith Bool Arith.
From FV Require Import Base.Grammar Model.GenFieldM.
Import ListNotations.
Open Scope list_scope.

Definition text_eqb (a b : text) : bool := list_eqb N.eqb a b.
Definition args_eqb (a b : args) : bool := list_eqb (fun p q => String.eqb (fst p) (fst q) && text_eqb (snd p) (snd q)) a b.
Definition field_eqb (a b : field) : bool :=
  String.eqb (f_nt a) (f_nt b) && args_eqb (f_args a) (f_args b) && text_eqb (f_val a) (f_val b).
Definition entry_eqb (a b : entry) : bool :=
  let '(n, x, v) := a in let '(n', x', v') := b in String.eqb n n' && args_eqb x x' && text_eqb v v'.
Definition out_eqb (a b : out) : bool :=
  match a, b with Done, Done | Refused, Refused | Error, Error => true | _, _ => false end.

(* the generator expressions as a table computed by the harness from the spec's own functions *)
Definition gtable := list (string * args * option text).
Fixpoint g_of (t : gtable) (nt : string) (a : args) : option text :=
  match t with
  | [] => None
  | (n, x, v) :: t' => if String.eqb n nt && args_eqb x a then v else g_of t' nt a
  end.

(* operator-level correspondence: after every real operation, outcome and abstracted population must be the model's.
   An implementation error (exception, state unchanged) is tolerated for crossover / mutation / adoption / edits at a generator node
   (the implementation needs converter generators to re-derive recorded arguments and raises when there are none).
   1 = agrees throughout; 10+n = first disagreement at operation n *)
Fixpoint c16_ops_from (g : gen) (s : st) (n : nat) (l : list (op * out * option (list ind))) : nat :=
  match l with
  | [] => 1
  | (o, ro, rp) :: l' =>
      let '(s', mo) := step g s o in
      let tolerated := match o, ro with
                       | OCopyField _ _ _ _, Error | ORefuzzField _ _ _, Error | OAdopt _ _ _, Error | OAdoptDerived _ _ _ _, Error | OEditInside _ _ _, Error => true
                       | _, _ => false
                       end in
      if tolerated then c16_ops_from g s (S n) l'
      else if out_eqb mo ro && match rp with Some rp' => list_eqb (list_eqb field_eqb) (pop s') rp' | None => true end then c16_ops_from g s' (S n) l'
      else 10 + n
  end.

(* a step whose population is None is one half of a compound real operation: the population is compared after the other half *)
Definition c16_ops (c : gtable * list (op * out * option (list ind))) : nat := c16_ops_from (g_of (fst c)) init 0 (snd c).

(* end-to-end monitor: every field of an observed individual is in the log of actual generator returns.  1 = yes *)
Definition c16_inlog (c : list entry * ind) : nat :=
  if forallb (fun f => existsb (entry_eqb (entry_of f)) (fst c)) (snd c) then 1 else 0.
