(* C19 case evaluator: the real forecaster's answer vs the derivative-based forecast of the message-level language *)
From Coq Require Import List String NArith Bool Arith.
From FV Require Import Base.Re Base.Grammar Model.ForecastM Model.SliceM.
Import ListNotations.
Open Scope list_scope.

Definition subset (a b : list msg) : bool := forallb (fun x => existsb (String.eqb x) b) a.

(* the message-level expression of <start>: of the grammar as it is (keep = None), or of the grammar sliced to the parties in keep
   (computed by the slicing model from the UNSLICED rules).  None = not supported; Some None = <start> itself is sliced away *)
Definition start_re (rules : list (string * rhs)) (keep : option (bool * list string)) : option (option mre) :=
  match keep with
  | None => option_map Some (inline 60 rules (Ref "<start>"%string))
  | Some k => islice 60 (vis_mode k) rules (Ref "<start>"%string)
  end.

(* 1 = the model, too, slices <start> away *)
Definition c19_removed (c : list (string * rhs) * (bool * list string)) : nat :=
  match start_re (fst c) (Some (snd c)) with Some None => 1 | None => 5 | _ => 0 end.

(* (rules of the non-message nonterminals, history, options offered by the implementation, implementation says complete)
   1 = agrees; 0 = the option sets differ (3 = the implementation offers a proper part of them); 2 = the completeness verdict differs; 5 = grammar not supported by the model (recursive / terminal outside a message) *)
Definition c19_eval (c : list (string * rhs) * option (bool * list string) * list msg * list msg * bool) : nat :=
  let '(rules, keep, h, opts, complete) := c in
  match start_re rules keep with
  | None => 5
  | Some None => 6          (* the model slices <start> away, the implementation does not *)
  | Some (Some r) =>
      let '(next, comp) := forecast msg macc r h in
      if negb (subset next opts && subset opts next) then (if subset opts next then 3 else 0)   (* 3: the implementation offers only a part *)
      else if negb (Bool.eqb comp complete) then 2 else 1
  end.

(* the model's own continuation set, used by the harness to enumerate every valid history up to a depth *)
Definition c19_next (c : list (string * rhs) * list msg) : list msg :=
  match inline 60 (fst c) (Ref "<start>"%string) with
  | None => []
  | Some r => nodup String.string_dec (fst (forecast msg macc r (snd c)))
  end.

(* comparison modulo a renaming of messages (used for the recorded finding: the forecaster's result merges one sender's options of one message
   type over different recipients): the model's continuation set and the offered set are both renamed through [tab] before they are compared *)
Definition rename (tab : list (msg * msg)) (a : msg) : msg :=
  match assoc String.eqb a tab with Some b => b | None => a end.

Fixpoint rename_re (tab : list (msg * msg)) (r : mre) : mre :=
  match r with
  | REmp _ => REmp _
  | REps _ => REps _
  | RAtom _ a => RAtom _ (rename tab a)
  | RAlt _ a b => RAlt _ (rename_re tab a) (rename_re tab b)
  | RCat _ a b => RCat _ (rename_re tab a) (rename_re tab b)
  | RRep _ a mn mx => RRep _ (rename_re tab a) mn mx
  end.

(* the history is taken as labelled in the tree; the model's continuation set and the offered set are compared modulo [tab] *)
Definition c19_eval_proj (c : list (string * rhs) * option (bool * list string) * list msg * list msg * bool * list (msg * msg)) : nat :=
  let '(rules, keep, h, opts, complete, tab) := c in
  match start_re rules keep with
  | None => 5
  | Some None => 6
  | Some (Some r) =>
      let '(next, comp) := forecast msg macc r h in
      let next' := map (rename tab) next in
      let opts' := map (rename tab) opts in
      if negb (subset next' opts' && subset opts' next') then 0
      else if negb (Bool.eqb comp complete) then 2 else 1
  end.
