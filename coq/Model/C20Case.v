(* C20 case evaluators *)
From Coq Require Import List String NArith Bool Arith.
From FV Require Import Base.Re Base.Grammar Model.ForecastM Model.ProtocolM.
Import ListNotations.
Open Scope list_scope.

Definition entry_eqb (a b : entry) : bool :=
  let '(s, r, u) := a in let '(s', r', u') := b in String.eqb s s' && String.eqb r r' && N.eqb u u'.

(* buffer correspondence: after every real add_receive / clear_by_party the real buffer must be the model's.  1 = agrees; 10+n = first difference *)
Fixpoint c20_buffer_from (b : buffer) (n : nat) (l : list (bop * buffer)) : nat :=
  match l with
  | [] => 1
  | (o, rb) :: l' => let b' := bstep b o in if list_eqb entry_eqb b' rb then c20_buffer_from b' (S n) l' else 10 + n
  end.
Definition c20_buffer (l : list (bop * buffer)) : nat := c20_buffer_from [] 0 l.

(* recorded run: (rules, message sequence of the yielded tree, run claims completeness, what each peer sent, what was accepted from each peer)
   1 = valid; 0 = the message sequence is no prefix of an interaction / not complete as claimed; 2 = delivery: accepted data is not an initial part
   of what the peer sent; 5 = grammar outside the model *)
Definition c20_run (c : list (string * rhs) * list msg * bool * list (string * list unit_) * list (string * list unit_)) : nat :=
  let '(rules, h, complete, sent, accepted) := c in
  match inline 60 rules (Ref "<start>"%string) with
  | None => 5
  | Some r => if negb (run_valid r h complete) then 0 else if negb (delivery_ok sent accepted) then 2 else 1
  end.

(* the race of parse_next_remote_packet: (complete table, alive table, number of units of the sender, forecast types in the order the code
   iterates over them, what the implementation accepted: type and number of the sender's units removed from the buffer).
   1 = agrees with the model; 0 = differs *)
Definition c20_choose (c : table * table * nat * list string * option (string * nat)) : nat :=
  let '(complete, alive, n, cands, real) := c in
  match choose complete alive n cands, real with
  | None, None => 1
  | Some (nt, k), Some (nt', k') => if Nat.eqb k k' && (String.eqb nt nt' || negb (Nat.eqb (List.length (filter (fun p => Nat.eqb (snd p) k) (race complete alive n 1 cands []))) 1)) then 1 else 0
  | _, _ => 0
  end.
