(* C11 model: memoisation in front of an evaluation function, as done by Constraint.cache (keyed by
   (root, tree, scope items, local-variable items)) and Evaluator._fitness_cache (keyed by (root, tree)). *)
From Coq Require Import List Arith Bool String.
From FV Require Import Base.Grammar Model.ReplaceM Model.C01Case Model.SearchM Model.ConstraintM.
Import ListNotations.
Open Scope list_scope.

Section Memo.
Variables (K V : Type) (keq : K -> K -> bool) (f : K -> V).

Definition cache := list (K * V).
Fixpoint mlookup (c : cache) (k : K) : option V :=
  match c with [] => None | (k', v) :: c' => if keq k k' then Some v else mlookup c' k end.

(* fitness(): return the cached value if the key is present, otherwise evaluate and store *)
Definition ask (c : cache) (k : K) : V * cache :=
  match mlookup c k with Some v => (v, c) | None => (f k, (k, f k) :: c) end.

Definition run (hist : list K) : cache := fold_left (fun c k => snd (ask c k)) hist [].
End Memo.

(* the key of a constraint evaluation in the model: the tree under evaluation, the scope and the local variables *)
Definition ckey := (tree * scope * env)%type.

Definition scope_eqb (a b : scope) : bool :=
  list_eqb (fun x y => String.eqb (fst x) (fst y) && ref_eqb (snd x) (snd y)) a b.
Definition ckey_eqb (a b : ckey) : bool :=
  let '(t, sc, e) := a in let '(t', sc', e') := b in
  tree_eqb t t' && scope_eqb sc sc' && list_eqb binding_eqb e e'.

(* a deliberately incomplete key (the local variables are left out), for the sensitivity example *)
Definition ckey_eqb_no_locals (a b : ckey) : bool :=
  let '(t, sc, _) := a in let '(t', sc', _) := b in tree_eqb t t' && scope_eqb sc sc'.

Definition eval_key (orc : oracle) (lazy : bool) (c : constr) (k : ckey) : res :=
  let '(t, sc, e) := k in fitness_m (code_F t) (code_Q t) orc lazy c sc e.
