(* C07/C02/C11 model of constraint evaluation (constraints/*.py): fitness with
   solved/total/success, lazy and eager evaluation, exceptions; Python expressions
   are oracle tables.  [verdict_ref] is the documented meaning. *)
From Coq Require Import List String ZArith Bool Arith.
From FV Require Import Base.Re Base.Grammar Model.ReplaceM Model.SearchM.
Import ListNotations.
Open Scope list_scope.

Inductive outcome :=
| OTrue | OFalse
| ORaise        (* evaluating the expression (or one side of a comparison) raised *)
| OCmpRaise     (* the comparison operator itself raised: not caught by the constraint *)
| OMissing.     (* harness did not supply the entry: inconclusive *)

Definition combo := list (string * cont).
Definition env := list (string * cont).

Definition ref_eqb (a b : ref) : bool :=
  match a, b with
  | RPath p, RPath q => path_eqb p q
  | RSlice ps, RSlice qs => list_eqb path_eqb ps qs
  | _, _ => false
  end.
Definition cont_eqb (a b : cont) : bool :=
  match a, b with
  | CTree r, CTree s => ref_eqb r s
  | CList rs, CList ss => list_eqb ref_eqb rs ss
  | CLen rs, CLen ss => list_eqb ref_eqb rs ss
  | _, _ => false
  end.
Definition binding_eqb (a b : string * cont) : bool := String.eqb (fst a) (fst b) && cont_eqb (snd a) (snd b).

Definition oracle := list (nat * combo * env * outcome).

Fixpoint ask (o : oracle) (id : nat) (cb : combo) (e : env) : outcome :=
  match o with
  | [] => OMissing
  | (id', cb', e', r) :: o' =>
      if Nat.eqb id id' && list_eqb binding_eqb cb cb' && list_eqb binding_eqb e e' then r else ask o' id cb e
  end.

Inductive binder := BNt (nt : string) | BVar (x : string).

Inductive constr :=
| KExpr (id : nat) (ss : list (string * search))
| KCmp (id : nat) (ss : list (string * search))
| KAnd (cs : list constr)
| KOr (cs : list constr)
| KImp (a b : constr)
| KAll (b : binder) (s : search) (body : constr)
| KAny (b : binder) (s : search) (body : constr).

Record fit := { solved : nat; total : nat; success : bool }.

(* itertools.product over the per-placeholder match lists, first placeholder slowest *)
Fixpoint product (ls : list (string * list cont)) : list combo :=
  match ls with
  | [] => [[]]
  | (name, cs) :: ls' => flat_map (fun c => map (fun rest => (name, c) :: rest) (product ls')) cs
  end.

(* a finder resolves a selector on the whole tree under a scope (find / quantify) *)
Definition finder := scope -> search -> option (list cont).

Definition combos (F : finder) (sc : scope) (ss : list (string * search)) : option (list combo) :=
  option_map product
    (mapM (fun ns => option_map (fun cs => (fst ns, cs)) (F sc (snd ns))) ss).

Definition upd {V} (k : string) (v : V) (l : list (string * V)) : list (string * V) :=
  (k, v) :: filter (fun kv => negb (String.eqb (fst kv) k)) l.

Definition bind_var (b : binder) (c : cont) (sc : scope) (e : env) : scope * env :=
  match b with
  | BNt nt => (match c with CTree r => upd nt r sc | _ => sc end, e)
  | BVar x => (sc, upd x c e)
  end.

Definition sum_solved (l : list fit) := fold_right (fun f n => solved f + n) 0 l.
Definition sum_total (l : list fit) := fold_right (fun f n => total f + n) 0 l.

Inductive res := Raised | Missing | Fit (f : fit).

(* evaluate the operands in order; an exception aborts; [stop f] ends the loop after f
   (lazy short-circuit).  None: raised; Some None: oracle entry missing *)
Section RunSeq.
Context {X : Type}.
Variable stop : fit -> bool.
Variable ev : X -> res.
Fixpoint run_seq (l : list X) : option (option (list fit)) :=
  match l with
  | [] => Some (Some [])
  | x :: l' =>
      match ev x with
      | Raised => None
      | Missing => Some None
      | Fit f =>
          if stop f then Some (Some [f])
          else match run_seq l' with
               | Some (Some r) => Some (Some (f :: r))
               | y => y
               end
      end
  end.
End RunSeq.

Section Eval.
Variable F Q : finder.
Variable orc : oracle.
Variable lazy : bool.


Fixpoint count_expr (id : nat) (e : env) (cbs : list combo) (s t : nat) : option (nat * nat) :=
  match cbs with
  | [] => Some (s, t)
  | cb :: cbs' =>
      match ask orc id cb e with
      | OTrue => count_expr id e cbs' (S s) (S t)
      | OFalse | ORaise | OCmpRaise => count_expr id e cbs' s (S t)
      | OMissing => None
      end
  end.

(* comparison: Some (inl ..) *)
Fixpoint count_cmp (id : nat) (e : env) (cbs : list combo) (s t : nat) : res :=
  match cbs with
  | [] => Fit {| solved := s; total := t; success := Nat.eqb s t |}
  | cb :: cbs' =>
      match ask orc id cb e with
      | OTrue => count_cmp id e cbs' (S s) (S t)
      | OFalse | ORaise => count_cmp id e cbs' s (S t)
      | OCmpRaise => Raised
      | OMissing => Missing
      end
  end.

Fixpoint fitness_m (c : constr) (sc : scope) (e : env) {struct c} : res :=
  match c with
  | KExpr id ss =>
      match combos F sc ss with
      | None => Raised
      | Some [] => Fit {| solved := 1; total := 1; success := true |}
      | Some cbs =>
          match count_expr id e cbs 0 0 with
          | Some (s, t) => Fit {| solved := s; total := t; success := Nat.eqb s t |}
          | None => Missing
          end
      end
  | KCmp id ss =>
      match combos F sc ss with
      | None => Raised
      | Some [] => Fit {| solved := 1; total := 1; success := true |}
      | Some cbs => count_cmp id e cbs 0 0
      end
  | KAnd cs =>
      match run_seq (fun f => lazy && negb (success f)) (fun c' => fitness_m c' sc e) cs with
      | None => Raised
      | Some None => Missing
      | Some (Some fs) =>
          let ov := forallb success fs in
          let s := sum_solved fs in
          let t := sum_total fs in
          if Nat.ltb 1 (List.length cs)
          then Fit {| solved := if ov then S s else s; total := S t; success := ov |}
          else Fit {| solved := s; total := t; success := ov |}
      end
  | KOr cs =>
      match run_seq (fun f => lazy && success f) (fun c' => fitness_m c' sc e) cs with
      | None => Raised
      | Some None => Missing
      | Some (Some fs) =>
          let ov := existsb success fs in
          let s := sum_solved fs in
          let t := sum_total fs in
          if Nat.ltb 1 (List.length cs)
          then Fit {| solved := if ov then S t else s; total := S t; success := ov |}
          else Fit {| solved := s; total := t; success := ov |}
      end
  | KImp a b =>
      match fitness_m a sc e with
      | Raised => Raised
      | Missing => Missing
      | Fit fa =>
          if success fa then
            match fitness_m b sc e with
            | Fit fb => Fit {| solved := if success fb then S (solved fb) else solved fb;
                               total := S (total fb); success := success fb |}
            | x => x
            end
          else Fit {| solved := 1; total := 1; success := true |}
      end
  | KAll b s body =>
      match Q sc s with
      | None => Raised
      | Some conts =>
          match run_seq (fun f => lazy && negb (success f)) (fun ct => let '(sc', e') := bind_var b ct sc e in fitness_m body sc' e') conts with
          | None => Raised
          | Some None => Missing
          | Some (Some fs) =>
              let ov := forallb success fs in
              let t := sum_total fs in
              Fit {| solved := if ov then S t else sum_solved fs; total := S t; success := ov |}
          end
      end
  | KAny b s body =>
      match Q sc s with
      | None => Raised
      | Some conts =>
          match run_seq (fun f => lazy && success f) (fun ct => let '(sc', e') := bind_var b ct sc e in fitness_m body sc' e') conts with
          | None => Raised
          | Some None => Missing
          | Some (Some fs) =>
              let ov := existsb success fs in
              let t := sum_total fs in
              Fit {| solved := if ov then S t else sum_solved fs; total := S t; success := ov |}
          end
      end
  end.

(* GeneticBase.check / the evaluator's view: true, false, or an exception *)
Inductive verdict := VTrue | VFalse | VRaise | VMissing.
Definition check_m (c : constr) : verdict :=
  match fitness_m c [] [] with
  | Fit f => if success f then VTrue else VFalse
  | Raised => VRaise
  | Missing => VMissing
  end.
End Eval.

(* ------------------------------------------------------------ documented meaning
   (strict: an exception anywhere makes the whole constraint fail; no match = nothing
   to violate; every combination must evaluate to a truthy value) *)
Section Ref.
Variable F Q : finder.
Variable orc : oracle.

Inductive rv := RT | RF | RX | RM.   (* true / false / raised / oracle entry missing *)

Definition rv_and (a b : rv) : rv :=
  match a, b with
  | RX, _ | _, RX => RX
  | RM, _ | _, RM => RM
  | RT, RT => RT
  | _, _ => RF
  end.
Definition rv_or (a b : rv) : rv :=
  match a, b with
  | RX, _ | _, RX => RX
  | RM, _ | _, RM => RM
  | RF, RF => RF
  | _, _ => RT
  end.

Definition atom_ref (id : nat) (e : env) (cbs : list combo) : rv :=
  fold_right (fun cb acc =>
                rv_and (match ask orc id cb e with
                        | OTrue => RT | OFalse | ORaise => RF | OCmpRaise => RX | OMissing => RM end) acc) RT cbs.

Definition atom_ref_expr (id : nat) (e : env) (cbs : list combo) : rv :=
  fold_right (fun cb acc =>
                rv_and (match ask orc id cb e with
                        | OTrue => RT | OFalse | ORaise | OCmpRaise => RF | OMissing => RM end) acc) RT cbs.

Fixpoint ref_m (c : constr) (sc : scope) (e : env) {struct c} : rv :=
  match c with
  | KExpr id ss => match combos F sc ss with None => RX | Some cbs => atom_ref_expr id e cbs end
  | KCmp id ss => match combos F sc ss with None => RX | Some cbs => atom_ref id e cbs end
  | KAnd cs => fold_right (fun c' acc => rv_and (ref_m c' sc e) acc) RT cs
  | KOr cs => fold_right (fun c' acc => rv_or (ref_m c' sc e) acc) RF cs
  | KImp a b =>
      match ref_m a sc e with
      | RT => ref_m b sc e
      | RF => RT
      | x => x
      end
  | KAll b s body =>
      match Q sc s with
      | None => RX
      | Some conts =>
          fold_right (fun ct acc => let '(sc', e') := bind_var b ct sc e in rv_and (ref_m body sc' e') acc) RT conts
      end
  | KAny b s body =>
      match Q sc s with
      | None => RX
      | Some conts =>
          fold_right (fun ct acc => let '(sc', e') := bind_var b ct sc e in rv_or (ref_m body sc' e') acc) RF conts
      end
  end.

Definition verdict_ref (c : constr) : verdict :=
  match ref_m c [] [] with RT => VTrue | RF => VFalse | RX => VRaise | RM => VMissing end.
End Ref.

(* the two instantiations: the code's search classes, and the documented meaning *)
Definition code_F (t0 : tree) : finder := fun sc s => find_m t0 sc s false (RPath []).
Definition code_Q (t0 : tree) : finder := fun sc s => quantify_m t0 sc s (RPath []).
Definition doc_F (t0 : tree) : finder := fun sc s => den t0 sc s MTop (RPath []).
Definition doc_Q (t0 : tree) : finder := fun sc s =>
  match s with
  | SStar b => bind (den t0 sc b MTop (RPath [])) (fun bases => Some (map CTree (flat_map trees bases)))
  | _ => den t0 sc s MTop (RPath [])
  end.

Definition check_code (t0 : tree) (orc : oracle) (lazy : bool) (c : constr) : verdict :=
  check_m (code_F t0) (code_Q t0) orc lazy c.
Definition verdict_doc (t0 : tree) (orc : oracle) (c : constr) : verdict :=
  verdict_ref (doc_F t0) (doc_Q t0) orc c.

(* every selector evaluation reached by the documented semantics is free of the
   `..`-on-same-symbol case *)
Definition clean_s (t0 : tree) (sc : scope) (s : search) : bool := desc_clean t0 sc s MTop (RPath []).
Definition clean_q (t0 : tree) (sc : scope) (s : search) : bool :=
  match s with SStar b => clean_s t0 sc b | _ => clean_s t0 sc s end.

Fixpoint all_clean (t0 : tree) (c : constr) (sc : scope) (e : env) {struct c} : bool :=
  match c with
  | KExpr _ ss | KCmp _ ss => forallb (fun ns => clean_s t0 sc (snd ns)) ss
  | KAnd cs | KOr cs => forallb (fun c' => all_clean t0 c' sc e) cs
  | KImp a b => all_clean t0 a sc e && all_clean t0 b sc e
  | KAll b s body | KAny b s body =>
      clean_q t0 sc s &&
      match doc_Q t0 sc s with
      | Some conts => forallb (fun ct => let '(sc', e') := bind_var b ct sc e in all_clean t0 body sc' e') conts
      | None => true
      end
  end.
