(* C06: the chart model instrumented with an "out of fuel" flag.  A run that ends with the flag down
   has emptied all its work lists: it terminated, and more fuel changes nothing. *)
From Coq Require Import List Arith Bool String NArith.
From FV Require Import Base.Re Base.Grammar Model.ReplaceM Model.C01Case Model.EarleyM.
Import ListNotations.
Open Scope list_scope.

Fixpoint complete_loop_x (fuel : nat) (g : crules) (t : table) (k : nat) (s : st) (j : nat) : table * bool :=
  let waiting := filter (fun x => match next_sym x with Some (SN a) => String.eqb a (snt s) | _ => false end)
                        (col t (sorg s)) in
  match nth_error waiting j with
  | None => (t, false)
  | Some x =>
      match fuel with
      | O => (t, true)
      | S f =>
          let named := match rlookup g (snt s) with Some (b, _) => b | None => false end in
          let extra := if named then [Node (snt s) (skids s)] else skids s in
          complete_loop_x f g (add t k (adv x extra)) k s (S j)
      end
  end.

Definition step_x (cfuel : nat) (g : crules) (inp : input) (t : table) (k : nat) (s : st) : table * bool :=
  match next_sym s with
  | None => complete_loop_x cfuel g t k s 0
  | _ => (step cfuel g inp t k s, false)
  end.

Fixpoint process_col_x (fuel cfuel : nat) (g : crules) (inp : input) (t : table) (k i : nat) : table * bool :=
  match nth_error (col t k) i with
  | None => (t, false)
  | Some s =>
      match fuel with
      | O => (t, true)
      | S f =>
          let '(t', x) := step_x cfuel g inp t k s in
          if x then (t', true) else process_col_x f cfuel g inp t' k (S i)
      end
  end.

Fixpoint run_cols_x (fuel : nat) (g : crules) (inp : input) (t : table) (k n : nat) : table * bool :=
  match n with
  | O => (t, false)
  | S n' => let '(t', x) := process_col_x fuel fuel g inp t k 0 in
            if x then (t', true) else run_cols_x fuel g inp t' (S k) n'
  end.

Definition chart_x (fuel : nat) (g : crules) (start : string) (inp : input) : table * bool :=
  let n := 8 * List.length (units inp) in
  let t0 := add (repeat [] (S n)) 0 (mk startnt 0 [SN start] 0 []) in
  run_cols_x fuel g inp t0 0 (S n).

(* total number of admitted states, and whether the run ended by itself *)
Definition work (fuel : nat) (g : crules) (start : string) (inp : input) : nat * bool :=
  let '(t, x) := chart_x fuel g start inp in (fold_right (fun c n => List.length c + n) 0 t, negb x).
