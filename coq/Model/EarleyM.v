(* C04/C05/C06/C12/C13 model of the Earley chart of
   language/grammar/parser/iterative_parser.py (COMPLETE mode, one consume):
   one column per input bit, work-list columns that grow while they are processed,
   completion that re-reads the waiting list of the origin column while it runs,
   Column.add identity = (nonterminal, origin, rule, dot, children).
   The compiled crules (_rules / _implicit_rules) are inputs, in the implementation's order. *)
From Coq Require Import List Arith Bool String NArith.
From FV Require Import Base.Re Base.Grammar Model.ReplaceM Model.C01Case.
Import ListNotations.
Open Scope list_scope.

Inductive sy := ST (t : term) | SN (n : string).

(* name -> (named rule?, alternatives).  named = in _rules (a tree node is built on completion);
   not named = in _implicit_rules (children are spliced into the waiting state) *)
Definition crules := list (string * (bool * list (list sy))).

Definition term_eqb (a b : term) : bool :=
  match a, b with
  | TLit p, TLit q => payload_eqb p q
  | TBit x, TBit y => Bool.eqb x y
  | TRe i, TRe j => N.eqb i j
  | _, _ => false
  end.
Definition sy_eqb (a b : sy) : bool :=
  match a, b with ST x, ST y => term_eqb x y | SN x, SN y => String.eqb x y | _, _ => false end.

Record st := mk { snt : string; sorg : nat; srl : list sy; sdot : nat; skids : list tree }.
Definition st_eqb (a b : st) : bool :=
  String.eqb (snt a) (snt b) && Nat.eqb (sorg a) (sorg b) && list_eqb sy_eqb (srl a) (srl b)
  && Nat.eqb (sdot a) (sdot b) && list_eqb tree_eqb (skids a) (skids b).

Definition rlookup (g : crules) (a : string) : option (bool * list (list sy)) := assoc String.eqb a g.

Definition table := list (list st).
Fixpoint upd {A} (l : list A) (i : nat) (f : A -> A) : list A :=
  match l, i with [], _ => [] | x :: l', O => f x :: l' | x :: l', S i' => x :: upd l' i' f end.
Definition col (t : table) (k : nat) : list st := nth k t [].
(* Column.add: a state is admitted unless an identical one is present *)
Definition add (t : table) (k : nat) (s : st) : table :=
  if existsb (st_eqb s) (col t k) then t else upd t k (fun c => c ++ [s]).

Definition next_sym (s : st) : option sy := nth_error (srl s) (sdot s).
Definition adv (s : st) (extra : list tree) : st :=
  mk (snt s) (sorg s) (srl s) (S (sdot s)) (skids s ++ extra).

(* the input: units (characters or bytes), and whether it is a bytes object *)
Record input := { units : list N; is_bytes : bool; re_at : list (N * nat * nat) }.
   (* re_at: (regex id, unit position, length of re.match(...).group(0)) for the positions asked *)

Fixpoint is_prefix (p w : list N) : bool :=
  match p, w with [] , _ => true | a :: p', b :: w' => N.eqb a b && is_prefix p' w' | _, _ => false end.

Definition lit_units (p : payload) : list N := match p with PStr s => s | PBytes b => b end.
(* the leaf built from the matched slice has the type of the input (check_word[:n]) *)
Definition slice_leaf (inp : input) (p : payload) (us : list N) : leaf :=
  if is_bytes inp then LPay (PBytes us) else LPay (PStr us).

Fixpoint re_len (tab : list (N * nat * nat)) (id : N) (w : nat) : option nat :=
  match tab with
  | [] => None
  | (i, p, l) :: tab' => if N.eqb i id && Nat.eqb p w then Some l else re_len tab' id w
  end.

(* complete(): every state of the origin column that waits for the finished nonterminal is advanced;
   the waiting list is re-read after every admission (the origin column may be the current one) *)
Fixpoint complete_loop (fuel : nat) (g : crules) (t : table) (k : nat) (s : st) (j : nat) : table :=
  match fuel with
  | O => t
  | S f =>
      let waiting := filter (fun x => match next_sym x with Some (SN a) => String.eqb a (snt s) | _ => false end)
                            (col t (sorg s)) in
      match nth_error waiting j with
      | None => t
      | Some x =>
          let named := match rlookup g (snt s) with Some (b, _) => b | None => false end in
          let extra := if named then [Node (snt s) (skids s)] else skids s in
          complete_loop f g (add t k (adv x extra)) k s (S j)
      end
  end.

Definition step (cfuel : nat) (g : crules) (inp : input) (t : table) (k : nat) (s : st) : table :=
  let w := k / 8 in
  match next_sym s with
  | None => complete_loop cfuel g t k s 0
  | Some (SN a) =>
      match rlookup g a with
      | Some (_, alts) => fold_left (fun t' r => add t' k (mk a k r 0 [])) alts t
      | None => t
      end
  | Some (ST (TLit p)) =>
      let l := lit_units p in
      if Nat.eqb (k mod 8) 0 && is_prefix l (skipn w (units inp))     (* byte terminals start at byte boundaries *)
      then add t (k + 8 * List.length l) (adv s [Leaf (slice_leaf inp p l)])
      else t
  | Some (ST (TBit b)) =>
      match nth_error (units inp) w with
      | Some u => if Bool.eqb (N.testbit u (N.of_nat (7 - k mod 8))) b
                  then add t (S k) (adv s [Leaf (LBit b)]) else t
      | None => t
      end
  | Some (ST (TRe id)) =>
      match (if Nat.eqb (k mod 8) 0 then re_len (re_at inp) id w else None) with
      | Some (S l) =>         (* a zero-length match is treated as no match by scan_regex *)
          let us := firstn (S l) (skipn w (units inp)) in
          add t (k + 8 * S l) (adv s [Leaf (LPay (if is_bytes inp then PBytes us else PStr us))])
      | _ => t
      end
  end.

Fixpoint process_col (fuel cfuel : nat) (g : crules) (inp : input) (t : table) (k i : nat) : table :=
  match fuel with
  | O => t
  | S f =>
      match nth_error (col t k) i with
      | None => t
      | Some s => process_col f cfuel g inp (step cfuel g inp t k s) k (S i)
      end
  end.

Fixpoint run_cols (fuel : nat) (g : crules) (inp : input) (t : table) (k n : nat) : table :=
  match n with O => t | S n' => run_cols fuel g inp (process_col fuel fuel g inp t k 0) (S k) n' end.

Definition startnt : string := "<*start*>".

Definition chart (fuel : nat) (g : crules) (start : string) (inp : input) : table :=
  let n := 8 * List.length (units inp) in
  let t0 := add (repeat [] (S n)) 0 (mk startnt 0 [SN start] 0 []) in
  run_cols fuel g inp t0 0 (S n).

(* trees yielded: children of finished <*start*> states in the last column *)
Definition parse_raw (fuel : nat) (g : crules) (start : string) (inp : input) : list tree :=
  let n := 8 * List.length (units inp) in
  flat_map (fun s => if String.eqb (snt s) startnt && Nat.eqb (sdot s) 1 then skids s else [])
           (col (chart fuel g start inp) n).

(* did the work-lists run dry within the fuel?  (false = out of fuel somewhere) *)
Definition admitted (fuel : nat) (g : crules) (start : string) (inp : input) : list nat :=
  map (@List.length st) (chart fuel g start inp).

(* IterativeParser.collapse: helper nodes <__...> are replaced by their children *)
Definition is_helper (n : string) : bool := String.prefix "<__" n.
Fixpoint collapse (p : tree) : list tree :=
  match p with
  | Leaf l => [Leaf l]
  | Node n k =>
      let k' := (fix go (l : list tree) : list tree := match l with [] => [] | x :: l' => collapse x ++ go l' end) k in
      if is_helper n then k' else [Node n k']
  end.

Definition parse_m (fuel : nat) (g : crules) (start : string) (inp : input) : list tree :=
  flat_map collapse (parse_raw fuel g start inp).
