(* C19: the message-level language of a protocol grammar and its continuations.
   Messages (nonterminals annotated with sender / recipient) are the letters; every other nonterminal is inlined. *)
From Coq Require Import List String NArith Bool Arith.
From FV Require Import Base.Re Base.Grammar.
Import ListNotations.
Open Scope list_scope.

Definition msg := string.                       (* "sender:recipient:<nt>" *)
Definition mre := re msg.
Definition macc (a x : msg) : bool := String.eqb a x.

(* message-level regular expression of a body; [rules] holds the rules of the nonterminals that are NOT messages;
   None = out of fuel (recursive protocol grammar) or a terminal outside a message *)
Fixpoint inline (fuel : nat) (rules : list (string * rhs)) (r : rhs) {struct fuel} : option mre :=
  match fuel with
  | 0 => None
  | S f =>
      match r with
      | Alt rs =>
          (fix go (l : list rhs) : option mre :=
             match l with
             | [] => Some (REmp _)
             | x :: l' => match inline f rules x, go l' with Some a, Some b => Some (RAlt _ a b) | _, _ => None end
             end) rs
      | Cat rs =>
          (fix go (l : list rhs) : option mre :=
             match l with
             | [] => Some (REps _)
             | x :: l' => match inline f rules x, go l' with Some a, Some b => Some (RCat _ a b) | _, _ => None end
             end) rs
      | Rep r' mn mx => match inline f rules r' with Some a => Some (RRep _ a mn mx) | None => None end
      | Ref nt =>
          match assoc String.eqb nt rules with
          | Some body => inline f rules body
          | None => Some (RAtom _ nt)
          end
      | Tm _ => None
      end
  end.

Section Firsts.
Variable A : Type.
Variable eqb : A -> A -> bool.

(* does the expression denote any word at all *)
Fixpoint nonempty (r : re A) : bool :=
  match r with
  | REmp _ => false
  | REps _ => true
  | RAtom _ _ => true
  | RAlt _ a b => nonempty a || nonempty b
  | RCat _ a b => nonempty a && nonempty b
  | RRep _ a mn mx => le_opt mn mx && (Nat.eqb mn 0 || nonempty a)
  end.

Fixpoint atoms (r : re A) : list A :=
  match r with
  | REmp _ | REps _ => []
  | RAtom _ a => [a]
  | RAlt _ a b | RCat _ a b => atoms a ++ atoms b
  | RRep _ a _ _ => atoms a
  end.

Definition derivs (h : list A) (r : re A) : re A := fold_left (fun r x => deriv A A eqb x r) h r.

(* the letters that can come next *)
Definition firsts (r : re A) : list A := filter (fun a => nonempty (deriv A A eqb a r)) (atoms r).

(* what the forecaster must answer after history h: the possible next messages, and whether h is a complete interaction *)
Definition forecast (r : re A) (h : list A) : list A * bool := (firsts (derivs h r), nullable A (derivs h r)).
End Firsts.
