(* C01 model: grammar fuzzing as a function of a decision tape.  Every random or
   budget-driven choice of Grammar.fuzz / Node.fuzz is a tape entry; the model
   rejects a tape whose entry is outside what the grammar declares. *)
From Coq Require Import List String NArith Bool Arith.
From FV Require Import Base.Re Base.Grammar.
Import ListNotations.
Open Scope list_scope.

Inductive dec :=
| DAlt (i : nat)          (* Alternative.fuzz: index of the chosen alternative *)
| DRep (n : nat)          (* Repetition.fuzz: iterations actually performed *)
| DRe (p : payload).      (* TerminalNode.fuzz on a regex: the instance produced *)

Definition res := option (list tree * list dec).

Section Body.
Variable G : grammar.
Variable ref : string -> list dec -> res.   (* expansion of a nonterminal reference *)

Fixpoint body_m (r : rhs) (tp : list dec) {struct r} : res :=
    match r with
    | Alt rs =>
        match tp with
        | DAlt i :: tp' =>
            (fix pick (l : list rhs) (i : nat) {struct l} : res :=
               match l, i with
               | r' :: _, O => body_m r' tp'
               | _ :: l', S i' => pick l' i'
               | [], _ => None
               end) rs i
        | _ => None
        end
    | Cat rs =>
        (fix seq (l : list rhs) (tp : list dec) {struct l} : res :=
           match l with
           | [] => Some ([], tp)
           | r' :: l' =>
               match body_m r' tp with
               | Some (k1, tp1) =>
                   match seq l' tp1 with
                   | Some (k2, tp2) => Some (k1 ++ k2, tp2)
                   | None => None
                   end
               | None => None
               end
           end) rs tp
    | Rep r' mn mx =>
        match tp with
        | DRep n :: tp' =>
            if (Nat.leb mn n && le_opt n mx)%bool then
              (fix iter (k : nat) (tp : list dec) {struct k} : res :=
                 match k with
                 | O => Some ([], tp)
                 | S k' =>
                     match body_m r' tp with
                     | Some (k1, tp1) =>
                         match iter k' tp1 with
                         | Some (k2, tp2) => Some (k1 ++ k2, tp2)
                         | None => None
                         end
                     | None => None
                     end
                 end) n tp'
            else None
        | _ => None
        end
    | Ref nt => ref nt tp
    | Tm (TLit p) => Some ([Leaf (LPay p)], tp)
    | Tm (TBit b) => Some ([Leaf (LBit b)], tp)
    | Tm (TRe id) =>
        match tp with
        | DRe p :: tp' => if re_ok G id p then Some ([Leaf (LPay p)], tp') else None
        | _ => None
        end
    end.
End Body.

(* NonTerminalNode.fuzz: a new node whose children are the expansion of its rule *)
Fixpoint ref_m (G : grammar) (fuel : nat) (nt : string) (tp : list dec) {struct fuel} : res :=
  match fuel with
  | O => None
  | S f =>
      match lookup G nt with
      | Some body =>
          match body_m G (ref_m G f) body tp with
          | Some (kids, tp') => Some ([Node nt kids], tp')
          | None => None
          end
      | None => None
      end
  end.

Definition fuzz_m (G : grammar) (fuel : nat) (r : rhs) (tp : list dec) : res :=
  body_m G (ref_m G fuel) r tp.

(* Grammar.fuzz(start): one tree, tape fully consumed *)
Definition fuzz_start (G : grammar) (fuel : nat) (s : string) (tp : list dec) : option tree :=
  match fuzz_m G fuel (Ref s) tp with
  | Some ([t], []) => Some t
  | _ => None
  end.
