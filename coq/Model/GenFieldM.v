(* C16: generator-defined fields under search operators (abstract state machine).
   A tree is abstracted to the list of its generator-owned fields; the log is the monotone history of what the
   generator expressions actually returned.  Anchors: NonTerminalNode.fuzz, Grammar.generate, DerivationTree.replace_multiple. *)
From Coq Require Import List String NArith Bool Arith.
From FV Require Import Base.Grammar.
Import ListNotations.
Open Scope list_scope.

Definition text := list N.
Definition args := list (string * text).          (* argument symbol -> its text, as recorded with the tree (sources) *)
Record field := { f_nt : string; f_args : args; f_val : text }.
Definition entry := (string * args * text)%type.   (* one actual generator return *)
Definition ind := list field.                       (* the generator-owned fields of one individual, in tree order *)
Record st := { pop : list ind; log : list entry }.

Definition init : st := {| pop := []; log := [] |}.

(* what the generator expression of [nt] returns for these argument texts; None = the value does not fit the rule / the generator raises *)
Definition gen := string -> args -> option text.

Inductive op :=
| OFuzz (fs : list (string * args))                   (* a new individual is fuzzed: its fields are generated in order *)
| ORefuzzField (i k : nat) (a : args)                  (* mutation at a generator node: a fresh node is fuzzed (new arguments, generator re-run) *)
| OReplaceArg (i k : nat) (a : args)                   (* an argument recorded with the field was replaced: the generator is re-run *)
| OReplaceOutside (i : nat)                            (* a replacement that touches no generator-owned field *)
| OEditInside (i k : nat) (v : text)                   (* attempt to overwrite (part of) the generated text: refused *)
| OAdopt (i k : nat) (v : text)                        (* attempt to put a text no generator returned in place of the field: refused *)
| OAdoptDerived (i k : nat) (a : args) (v : text)      (* a same-symbol subtree with text v is put in place of the field and arguments a are derived
                                                          from it (converter generators): accepted only if the generator yields v for a *)
| OCopyField (i k i' k' : nat)                         (* crossover: the field is replaced by the same-symbol field k' of individual i' *)
| ODrop (i : nat).                                     (* an individual leaves the population *)

Inductive out := Done | Refused | Error.

Fixpoint upd {X} (n : nat) (f : X -> X) (l : list X) : list X :=
  match l, n with
  | [], _ => []
  | x :: l', 0 => f x :: l'
  | x :: l', S n' => x :: upd n' f l'
  end.

Fixpoint remove_nth {X} (n : nat) (l : list X) : list X :=
  match l, n with
  | [], _ => []
  | _ :: l', 0 => l'
  | x :: l', S n' => x :: remove_nth n' l'
  end.

(* generate a list of fields, logging every return; the first misfit aborts *)
Fixpoint gen_all (g : gen) (fs : list (string * args)) : option (list field * list entry) :=
  match fs with
  | [] => Some ([], [])
  | (nt, a) :: fs' =>
      match g nt a with
      | None => None
      | Some v =>
          match gen_all g fs' with
          | None => None
          | Some (fl, el) => Some ({| f_nt := nt; f_args := a; f_val := v |} :: fl, (nt, a, v) :: el)
          end
      end
  end.

Definition get_field (s : st) (i k : nat) : option field :=
  match nth_error (pop s) i with Some d => nth_error d k | None => None end.

Definition set_field (s : st) (i k : nat) (f : field) (es : list entry) : st :=
  {| pop := upd i (upd k (fun _ => f)) (pop s); log := log s ++ es |}.

Definition step (g : gen) (s : st) (o : op) : st * out :=
  match o with
  | OFuzz fs =>
      match gen_all g fs with
      | Some (fl, el) => ({| pop := pop s ++ [fl]; log := log s ++ el |}, Done)
      | None => (s, Error)
      end
  | ORefuzzField i k a | OReplaceArg i k a =>
      match get_field s i k with
      | Some f =>
          match g (f_nt f) a with
          | Some v => (set_field s i k {| f_nt := f_nt f; f_args := a; f_val := v |} [(f_nt f, a, v)], Done)
          | None => (s, Error)
          end
      | None => (s, Refused)
      end
  | OReplaceOutside _ => (s, Done)
  | OEditInside _ _ _ => (s, Refused)
  | OAdopt _ _ _ => (s, Refused)
  | OAdoptDerived i k a v =>
      match get_field s i k with
      | Some f =>
          match g (f_nt f) a with
          | Some v' => if list_eqb N.eqb v' v
                       then (set_field s i k {| f_nt := f_nt f; f_args := a; f_val := v' |} [(f_nt f, a, v')], Done)
                       else (s, Refused)
          | None => (s, Refused)
          end
      | None => (s, Refused)
      end
  | OCopyField i k i' k' =>
      match get_field s i k, get_field s i' k' with
      | Some f, Some f' =>
          if String.eqb (f_nt f) (f_nt f') then (set_field s i k f' [], Done) else (s, Refused)
      | _, _ => (s, Refused)
      end
  | ODrop i => ({| pop := remove_nth i (pop s); log := log s |}, Done)
  end.

Definition run (g : gen) (os : list op) : st := fold_left (fun s o => fst (step g s o)) os init.

(* every field of every individual carries a value its generator actually returned for the arguments recorded with it *)
Definition entry_of (f : field) : entry := (f_nt f, f_args f, f_val f).
Definition Inv (s : st) : Prop := forall d f, In d (pop s) -> In f d -> In (entry_of f) (log s).
(* and the log only holds real returns of the generator expressions *)
Definition LogOK (g : gen) (s : st) : Prop := forall nt a v, In (nt, a, v) (log s) -> g nt a = Some v.
