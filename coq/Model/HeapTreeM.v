(* C10 model: DerivationTree objects with their bookkeeping fields (parent link, cached
   size, cached hash) as a pool of owned object trees.  Every object has an identity;
   operations are the public ones of language/tree.py.  Caches are invalidated along the
   path to the root, which is what invalidate_hash() reaches when the parent links are
   right (the links themselves are part of the state and of the invariant). *)
From Coq Require Import List NArith Bool Arith ZArith Lia.
Import ListNotations.
Open Scope list_scope.

Inductive atree := A (sym snd rcp : nat) (kids : list atree).

Inductive obj := O (id sym snd rcp : nat) (par : option nat) (sz : nat) (hc : option atree) (kids : list obj).

Definition oid (o : obj) := match o with O i _ _ _ _ _ _ _ => i end.
Definition osz (o : obj) := match o with O _ _ _ _ _ s _ _ => s end.
Definition opar (o : obj) := match o with O _ _ _ _ p _ _ _ => p end.
Definition okids (o : obj) := match o with O _ _ _ _ _ _ _ k => k end.
Definition osym (o : obj) := match o with O _ s _ _ _ _ _ _ => s end.
Definition ohc (o : obj) := match o with O _ _ _ _ _ _ h _ => h end.

Fixpoint abs (o : obj) : atree :=
  match o with O _ s a b _ _ _ kids => A s a b (map abs kids) end.

Definition sum_sz (kids : list obj) : nat := fold_right (fun k n => osz k + n) 0 kids.

Definition set_par (p : option nat) (o : obj) : obj :=
  match o with O i s a b _ z h k => O i s a b p z h k end.

(* what set_children + invalidate_hash leave behind at the node itself *)
Definition rebuild (i s a b : nat) (p : option nat) (kids : list obj) : obj :=
  O i s a b p (S (sum_sz kids)) None (map (set_par (Some i)) kids).

(* drop the caches of a node whose subtree changed: invalidate_hash() at an ancestor *)
Definition refresh (o : obj) (kids : list obj) : obj :=
  match o with O i s a b p _ _ _ => O i s a b p (S (sum_sz kids)) None kids end.

Fixpoint map_nth {X} (i : nat) (g : X -> X) (l : list X) {struct l} : list X :=
  match l, i with
  | [], _ => []
  | x :: l', 0%nat => g x :: l'
  | x :: l', S i' => x :: map_nth i' g l'
  end.

(* apply [f] to the node at [p]; every node on the way gets its caches refreshed *)
Fixpoint modify_at (p : list nat) (f : obj -> obj) (o : obj) {struct p} : obj :=
  match p with
  | [] => f o
  | i :: p' => refresh o (map_nth i (modify_at p' f) (okids o))
  end.

(* apply [f] at [p] without touching the nodes on the way (cache fills) *)
Fixpoint touch_at (p : list nat) (f : obj -> obj) (o : obj) {struct p} : obj :=
  match p with
  | [] => f o
  | i :: p' => match o with O j s a b q z h ks => O j s a b q z h (map_nth i (touch_at p' f) ks) end
  end.

Fixpoint obj_at (o : obj) (p : list nat) : option obj :=
  match p with
  | [] => Some o
  | i :: p' => match nth_error (okids o) i with Some k => obj_at k p' | None => None end
  end.

(* fresh copy with new identities (deepcopy / the rebuilding done by replace_multiple);
   returns the copy and the next free identity *)
Fixpoint copy_obj (next : nat) (par : option nat) (o : obj) {struct o} : obj * nat :=
  match o with
  | O _ s a b _ _ _ kids =>
      let me := next in
      let '(kids', next') :=
        (fix go (n : nat) (ks : list obj) {struct ks} : list obj * nat :=
           match ks with
           | [] => ([], n)
           | k :: ks' => let '(k', n1) := copy_obj n (Some me) k in
                         let '(r, n2) := go n1 ks' in (k' :: r, n2)
           end) (S next) kids in
      (O me s a b par (S (sum_sz kids')) None kids', next')
  end.

(* __hash__: fill the caches bottom-up; a cached value is returned as it is *)
Fixpoint hash_fill (o : obj) : obj * atree :=
  match o with
  | O i s a b p z (Some h) kids => (o, h)
  | O i s a b p z None kids =>
      let rs := map hash_fill kids in
      let h := A s a b (map snd rs) in
      (O i s a b p z (Some h) (map fst rs), h)
  end.

Record state := { pool : list obj; next : nat }.

Definition set_nth {X} (n : nat) (x : X) (l : list X) : list X :=
  firstn n l ++ x :: skipn (S n) l.
Definition drop_nth {X} (n : nat) (l : list X) : list X := firstn n l ++ skipn (S n) l.

(* take the roots with the given (distinct, valid) indices out of the pool *)
Fixpoint take_roots (idx : list nat) (pl : list obj) : option (list obj) :=
  match idx with
  | [] => Some []
  | i :: idx' => match nth_error pl i, take_roots idx' pl with
                 | Some o, Some r => Some (o :: r)
                 | _, _ => None
                 end
  end.
Definition remove_roots (idx : list nat) (pl : list obj) : list obj :=
  map snd (filter (fun ip => negb (existsb (Nat.eqb (fst ip)) idx)) (combine (seq 0 (List.length pl)) pl)).

Inductive op :=
| ONew (s a b : nat) (kids : list nat)              (* DerivationTree(sym, [roots]) *)
| OAddChild (r : nat) (p : list nat) (c : nat)      (* node.add_child(root c) *)
| OSetKids (r : nat) (p : list nat) (kids : list nat) (* node.set_children([roots]); old children are dropped *)
| OSetSym (r : nat) (p : list nat) (s : nat)
| OSetSnd (r : nat) (p : list nat) (a : nat)
| OSetRcp (r : nat) (p : list nat) (b : nat)
| OHash (r : nat) (p : list nat)
| OCopy (r : nat) (p : list nat)                    (* deepcopy(copy_parent=False) *)
| OCopyWhole (r : nat)                              (* copy.deepcopy of a node: the whole tree is copied *)
| OReplace (r : nat) (p : list nat) (r2 : nat) (p2 : list nat)   (* root.replace(node, other) *)
| OPrefix (r : nat) (p : list nat)                  (* node.prefix(copy_tree=True) *)
| OCopyPruned (r : nat) (p : list nat).             (* node.deepcopy(copy_children=False): the whole tree is copied, the node itself without its children *)

Definition nodup_b (l : list nat) : bool :=
  (fix go (l : list nat) : bool := match l with [] => true | x :: l' => negb (existsb (Nat.eqb x) l') && go l' end) l.

Definition fields (o : obj) : nat * nat * nat := match o with O _ s a b _ _ _ _ => (s, a, b) end.

(* keep the children up to and including index i / strictly before i *)
Fixpoint prefix_at (p : list nat) (o : obj) {struct p} : obj :=
  match p with
  | [] => o
  | [i] => refresh o (firstn i (okids o))
  | i :: p' =>
      refresh o (firstn i (okids o) ++ match nth_error (okids o) i with Some k => [prefix_at p' k] | None => [] end)
  end.

Definition step (st : state) (o : op) : state :=
  let pl := pool st in
  match o with
  | ONew s a b kids =>
      if nodup_b kids then
        match take_roots kids pl with
        | Some ks => {| pool := remove_roots kids pl ++ [rebuild (next st) s a b None ks]; next := S (next st) |}
        | None => st
        end
      else st
  | OAddChild r p c =>
      if Nat.eqb r c then st else
      match nth_error pl r, nth_error pl c with
      | Some ro, Some co =>
          match obj_at ro p with
          | Some _ =>
              let ro' := modify_at p (fun n => refresh n (okids n ++ [set_par (Some (oid n)) co])) ro in
              {| pool := remove_roots [c] (set_nth r ro' pl); next := next st |}
          | None => st
          end
      | _, _ => st
      end
  | OSetKids r p kids =>
      if nodup_b kids && negb (existsb (Nat.eqb r) kids) then
        match nth_error pl r, take_roots kids pl with
        | Some ro, Some ks =>
            match obj_at ro p with
            | Some n =>
                let ro' := modify_at p (fun n => refresh n (map (set_par (Some (oid n))) ks)) ro in
                (* the released children keep a stale parent link in the code; the driver drops them *)
                {| pool := remove_roots kids (set_nth r ro' pl); next := next st |}
            | None => st
            end
        | _, _ => st
        end
      else st
  | OSetSym r p s =>
      match nth_error pl r with
      | Some ro => match obj_at ro p with
                   | Some _ => {| pool := set_nth r (modify_at p (fun n => match n with O i _ a b q _ _ k => refresh (O i s a b q 0 None k) k end) ro) pl; next := next st |}
                   | None => st end
      | None => st
      end
  | OSetSnd r p a =>
      match nth_error pl r with
      | Some ro => match obj_at ro p with
                   | Some _ => {| pool := set_nth r (modify_at p (fun n => match n with O i s _ b q _ _ k => refresh (O i s a b q 0 None k) k end) ro) pl; next := next st |}
                   | None => st end
      | None => st
      end
  | OSetRcp r p b =>
      match nth_error pl r with
      | Some ro => match obj_at ro p with
                   | Some _ => {| pool := set_nth r (modify_at p (fun n => match n with O i s a _ q _ _ k => refresh (O i s a b q 0 None k) k end) ro) pl; next := next st |}
                   | None => st end
      | None => st
      end
  | OHash r p =>
      match nth_error pl r with
      | Some ro =>
          match obj_at ro p with
          | Some _ =>
              (* caches of the subtree are filled; nothing else changes (no refresh on the way) *)
              let fill := fun p o => touch_at p (fun n => fst (hash_fill n)) o in
              {| pool := set_nth r (fill p ro) pl; next := next st |}
          | None => st
          end
      | None => st
      end
  | OCopy r p =>
      match nth_error pl r with
      | Some ro => match obj_at ro p with
                   | Some n => let '(c, nx) := copy_obj (next st) None n in {| pool := pl ++ [c]; next := nx |}
                   | None => st end
      | None => st
      end
  | OCopyWhole r =>
      match nth_error pl r with
      | Some ro => let '(c, nx) := copy_obj (next st) None ro in {| pool := pl ++ [c]; next := nx |}
      | None => st
      end
  | OReplace r p r2 p2 =>
      match nth_error pl r, nth_error pl r2 with
      | Some ro, Some ro2 =>
          match obj_at ro p, obj_at ro2 p2 with
          | Some n, Some v =>
              let '(c, nx) := copy_obj (next st) None ro in
              if Nat.eqb (osym n) (osym v) then
                (* the replacement is copied too; the walk continues in the copy *)
                let '(v', nx') := copy_obj nx None v in
                let c' := match p with
                          | [] => v'
                          | _ => modify_at p (fun old => set_par (opar old) v') c
                          end in
                {| pool := pl ++ [c']; next := nx' |}
              else {| pool := pl ++ [c]; next := nx |}
          | _, _ => st
          end
      | _, _ => st
      end
  | OPrefix r p =>
      match nth_error pl r with
      | Some ro =>
          match p, obj_at ro p with
          | _ :: _, Some _ => let '(c, nx) := copy_obj (next st) None ro in
                              {| pool := pl ++ [prefix_at p c]; next := nx |}
          | _, _ => st
          end
      | None => st
      end
  | OCopyPruned r p =>
      match nth_error pl r with
      | Some ro =>
          match obj_at ro p with
          | Some _ => let '(c, nx) := copy_obj (next st) None ro in
                      {| pool := pl ++ [modify_at p (fun o => refresh o []) c]; next := nx |}
          | None => st
          end
      | None => st
      end
  end.

Definition init : state := {| pool := []; next := 0 |}.
Definition run (ops : list op) : state := fold_left step ops init.
