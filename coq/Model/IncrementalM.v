(* C13 model (the part that is logic): how a literal terminal is matched when the input arrives in pieces --
   scan_bytes with incomplete states: the text matched so far is carried along and prepended to the next piece. *)
From Coq Require Import List Arith Bool NArith.
From FV Require Import Model.EarleyM.
Import ListNotations.
Open Scope list_scope.

Inductive scan := Complete (used : nat)   (* the terminal is matched; [used] units of the current piece were consumed *)
                | Incomplete (m : list N) (* the whole piece was consumed, [m] is matched so far (a proper prefix of the terminal) *)
                | Fail.

(* Terminal.check(word) and Terminal.check(word, incomplete=True) for a literal *)
Definition feed (l matched frag : list N) : scan :=
  let cw := matched ++ frag in
  if is_prefix l cw then Complete (List.length l - List.length matched)
  else if is_prefix cw l then Incomplete cw
  else Fail.

(* pieces are fed until the terminal is complete or fails; true = matched *)
Fixpoint feed_all (l matched : list N) (frags : list (list N)) : bool :=
  match frags with
  | [] => false
  | f :: rest =>
      match feed l matched f with
      | Complete _ => true
      | Incomplete m => feed_all l m rest
      | Fail => false
      end
  end.
