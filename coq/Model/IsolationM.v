(* C18: several spec instances in one process.  A process has one shared (module-level) state and one local state per instance;
   every operation (create / fuzz / parse ...) runs on one instance, may read and write the shared state, and yields an output. *)
From Coq Require Import List Arith Bool.
Import ListNotations.

Section Process.
Variables G L Op Out : Type.
Variable step : G -> L -> Op -> G * L * Out.
Variable linit : nat -> L.            (* the local state an instance starts with *)

Definition locals := nat -> L.
Definition set_local (ls : locals) (i : nat) (l : L) : locals := fun j => if Nat.eqb j i then l else ls j.

(* run a schedule of (instance, operation) pairs; collect the outputs of instance [b] *)
Fixpoint run (g : G) (ls : locals) (b : nat) (sch : list (nat * Op)) : list Out :=
  match sch with
  | [] => []
  | (i, o) :: sch' =>
      let '(g', l', out) := step g (ls i) o in
      (if Nat.eqb i b then [out] else []) ++ run g' (set_local ls i l') b sch'
  end.

Definition only (b : nat) (sch : list (nat * Op)) : list (nat * Op) := filter (fun p => Nat.eqb (fst p) b) sch.

(* (a) operations never change the shared state *)
Definition shared_inert : Prop := forall g l o, fst (fst (step g l o)) = g.
(* (b) what an operation does to its instance and what it yields never depends on the shared state *)
Definition shared_unread : Prop := forall g g' l o, (snd (fst (step g l o)), snd (step g l o)) = (snd (fst (step g' l o)), snd (step g' l o)).
End Process.

(* ---- the cap logic of the code: nodes.MAX_REPETITIONS is process-global, raised by the adaptive tuner, read by open-ended repetitions ---- *)
Inductive cop := CFuzz (generations : nat) (demand : nat) | CParse (len : nat).
(* shared = cap; a fuzz run of n stagnating generations raises the cap (AdaptiveTuner: + max(1, rate*cap) per stagnating generation, here +cap/2+1)
   and emits a repetition of min(demand, cap) items; a parse accepts a repetition of len items iff len <= cap *)
Fixpoint raise (n cap : nat) : nat := match n with 0 => cap | S n' => raise n' (cap + cap / 2 + 1) end.
Definition cstep (cap : nat) (l : unit) (o : cop) : nat * unit * nat :=
  match o with
  | CFuzz n demand => (raise n cap, tt, Nat.min demand (raise n cap))
  | CParse len => (cap, tt, if len <=? cap then 1 else 0)
  end.
