(* C12 model of Parser.parse_forest / parse / parse_multiple (grammar/parser/parser.py): a cache in front of a
   stateless forest computation.  Keys stand for (word, start symbol, mode, hookin parent). *)
From Coq Require Import List Arith Bool.
From FV Require Import Base.Grammar.
Import ListNotations.
Open Scope list_scope.

Section Cache.
Variable forest : nat -> list tree.     (* what a fresh parser yields for a key, in order *)

Definition cache := list (nat * list tree).
Fixpoint clookup (c : cache) (k : nat) : option (list tree) :=
  match c with [] => None | (k', f) :: c' => if Nat.eqb k k' then Some f else clookup c' k end.

Inductive request :=
| ParseAll (k : nat)            (* parse_forest / parse_multiple consumed to the end *)
| ParseSome (k : nat) (n : nat) (* the generator is abandoned after n trees (parse() = ParseSome k 1) *)
| Fuzz.                         (* anything that does not touch this key space *)

(* the answer handed out, and the cache afterwards.  A forest is stored only when the
   generator ran to completion; a cached forest is handed out as copies *)
Definition serve (c : cache) (r : request) : list tree * cache :=
  match r with
  | ParseAll k =>
      match clookup c k with
      | Some f => (f, c)
      | None => (forest k, (k, forest k) :: c)
      end
  | ParseSome k n =>
      match clookup c k with
      | Some f => (firstn n f, c)
      | None =>
          (* pulling the n-th tree does not reach the end of the generator, unless the forest is shorter than n *)
          if Nat.ltb (List.length (forest k)) n then (forest k, (k, forest k) :: c)
          else (firstn n (forest k), c)
      end
  | Fuzz => ([], c)
  end.

Definition run (hist : list request) : cache := fold_left (fun c r => snd (serve c r)) hist [].

Definition cache_ok (c : cache) : Prop := forall k f, clookup c k = Some f -> f = forest k.
End Cache.
