(* C15: normal form of grammar bodies under which the printed-and-re-read body is compared with the original.
   Singleton alternatives / concatenations are unwrapped (the reader does that) and nested concatenations are
   spliced (the printer does not group a concatenation inside a concatenation). *)
From Coq Require Import List String NArith Bool Arith.
From FV Require Import Base.Re Base.Grammar Model.ReplaceM.
Import ListNotations.
Open Scope list_scope.

Definition splice (r : rhs) : list rhs := match r with Cat l => l | x => [x] end.

Definition un_alt (l : list rhs) : rhs := match l with [x] => x | _ => Alt l end.
Definition un_cat (l : list rhs) : rhs := match l with [x] => x | _ => Cat l end.

Fixpoint norm (r : rhs) : rhs :=
  match r with
  | Alt rs =>
      un_alt ((fix go (l : list rhs) : list rhs := match l with [] => [] | x :: l' => norm x :: go l' end) rs)
  | Cat rs =>
      un_cat ((fix go (l : list rhs) : list rhs := match l with [] => [] | x :: l' => splice (norm x) ++ go l' end) rs)
  | Rep r' mn mx => Rep (norm r') mn mx
  | Ref nt => Ref nt
  | Tm t => Tm t
  end.

Definition term_eqb' (a b : term) : bool :=
  match a, b with
  | TLit p, TLit q => payload_eqb p q
  | TBit x, TBit y => Bool.eqb x y
  | TRe i, TRe j => N.eqb i j
  | _, _ => false
  end.

Fixpoint rhs_eqb (a b : rhs) {struct a} : bool :=
  match a, b with
  | Alt l, Alt l' | Cat l, Cat l' =>
      (fix go (x y : list rhs) {struct x} : bool :=
         match x, y with [], [] => true | p :: x', q :: y' => rhs_eqb p q && go x' y' | _, _ => false end) l l'
  | Rep r mn mx, Rep r' mn' mx' =>
      rhs_eqb r r' && Nat.eqb mn mn' && match mx, mx' with None, None => true | Some p, Some q => Nat.eqb p q | _, _ => false end
  | Ref x, Ref y => String.eqb x y
  | Tm s, Tm t => term_eqb' s t
  | _, _ => false
  end.

(* same rules, in the same order, with equal normal forms *)
Fixpoint rules_equiv (a b : list (string * rhs)) : bool :=
  match a, b with
  | [], [] => true
  | (n, r) :: a', (n', r') :: b' => String.eqb n n' && rhs_eqb (norm r) (norm r') && rules_equiv a' b'
  | _, _ => false
  end.

(* 1 = the re-read grammar is the original up to normalisation (hence same language, see Proofs/C15.v);
   0 = it differs *)
Definition c15_grammar (c : list (string * rhs) * list (string * rhs)) : nat :=
  let '(a, b) := c in if rules_equiv a b then 1 else 0.
