(* C20: the receive buffer of protocol mode (FandangoIO.receive: add_receive / clear_by_party) and the monitor for recorded runs *)
From Coq Require Import List String NArith Bool Arith.
From FV Require Import Base.Re Base.Grammar Model.ForecastM.
Import ListNotations.
Open Scope list_scope.

Definition unit_ := N.                                   (* one character / one byte *)
Definition entry := (string * string * unit_)%type.     (* sender, receiver, one unit: add_receive splits every message into units *)
Definition buffer := list entry.

Inductive bop :=
| BAdd (sender receiver : string) (data : list unit_)    (* FandangoIO.add_receive *)
| BClear (party : string) (to_idx : nat).                (* FandangoIO.clear_by_party: drop the entries of [party] at positions <= to_idx *)

Definition add (b : buffer) (s r : string) (d : list unit_) : buffer := b ++ map (fun u => (s, r, u)) d.

Fixpoint clear_from (i : nat) (b : buffer) (p : string) (to_idx : nat) : buffer :=
  match b with
  | [] => []
  | (s, r, u) :: b' =>
      if String.eqb s p && Nat.leb i to_idx then clear_from (S i) b' p to_idx
      else (s, r, u) :: clear_from (S i) b' p to_idx
  end.

Definition bstep (b : buffer) (o : bop) : buffer :=
  match o with
  | BAdd s r d => add b s r d
  | BClear p k => clear_from 0 b p k
  end.

(* the units of one sender, in buffer order *)
Definition stream (p : string) (b : buffer) : list unit_ :=
  map (fun e => snd e) (filter (fun e => String.eqb (fst (fst e)) p) b).

(* what a clear removes for the party: the units of the party at positions <= to_idx *)
Definition removed (b : buffer) (p : string) (to_idx : nat) : list unit_ := stream p (firstn (S to_idx) b).

(* bookkeeping over a history of buffer operations: everything ever added per sender, everything ever removed per sender *)
Fixpoint added_of (p : string) (os : list bop) : list unit_ :=
  match os with
  | [] => []
  | BAdd s _ d :: os' => (if String.eqb s p then d else []) ++ added_of p os'
  | BClear _ _ :: os' => added_of p os'
  end.

Fixpoint consumed_of (p : string) (b : buffer) (os : list bop) : list unit_ :=
  match os with
  | [] => []
  | o :: os' =>
      (match o with BClear q k => if String.eqb q p then removed b q k else [] | _ => [] end) ++ consumed_of p (bstep b o) os'
  end.

(* ---- monitor for a recorded run ---- *)
Fixpoint is_prefix (a b : list unit_) : bool :=
  match a, b with
  | [], _ => true
  | x :: a', y :: b' => N.eqb x y && is_prefix a' b'
  | _, _ => false
  end.

(* the recorded message sequence is a prefix of an interaction (and a full interaction if the run claims to be complete) *)
Definition run_valid (r : mre) (h : list msg) (claims_complete : bool) : bool :=
  nonempty msg (derivs msg macc h r) && (negb claims_complete || nullable msg (derivs msg macc h r)).

(* per external sender: what was accepted from it is, in order, an initial part of what it sent *)
Definition delivery_ok (sent_by_peer accepted : list (string * list unit_)) : bool :=
  forallb (fun p => match assoc String.eqb (fst p) sent_by_peer with
                    | Some all => is_prefix (snd p) all
                    | None => match snd p with [] => true | _ => false end
                    end) accepted.

(* ---- choosing the next remote message (io/packetparser.py parse_next_remote_packet) ----
   The units of the selected sender are fed one by one to one parser per forecast message type.  [complete nt k] / [alive nt k]:
   after k units the parser of nt has a complete parse / can still continue (oracle tables filled by running the real incremental parser).
   A type leaves the race when it cannot continue; the race ends when no type is left or the sender's data is exhausted.
   Among the types that completed, the one whose LAST completion consumed most units wins (the first such one in order of first completion);
   the buffer is then cleared for the sender up to that unit. *)
Definition table := list (string * list bool).
Definition look (t : table) (nt : string) (k : nat) : bool :=
  match assoc String.eqb nt t with Some l => nth (k - 1) l false | None => false end.

(* one round with k units consumed: update the completion record, drop the types that cannot continue *)
Definition upd_best (best : list (string * nat)) (nt : string) (k : nat) : list (string * nat) :=
  if existsb (fun p => String.eqb (fst p) nt) best
  then map (fun p => if String.eqb (fst p) nt then (nt, k) else p) best
  else best ++ [(nt, k)].

Fixpoint race (complete alive : table) (n : nat) (k : nat) (avail : list string) (best : list (string * nat)) {struct n} : list (string * nat) :=
  match n with
  | 0 => best
  | S n' =>
      match avail with
      | [] => best
      | _ =>
          let best' := fold_left (fun b nt => if look complete nt k then upd_best b nt k else b) avail best in
          let avail' := filter (fun nt => look alive nt k) avail in
          race complete alive n' (S k) avail' best'
      end
  end.

Fixpoint pick (best : list (string * nat)) (cur : option (string * nat)) : option (string * nat) :=
  match best with
  | [] => cur
  | (nt, k) :: b' =>
      match cur with
      | None => pick b' (Some (nt, k))
      | Some (_, kc) => if Nat.ltb kc k then pick b' (Some (nt, k)) else pick b' cur
      end
  end.

(* n = number of units of the sender in the buffer; result: the accepted message type and how many of the sender's units it takes *)
Definition choose (complete alive : table) (n : nat) (cands : list string) : option (string * nat) :=
  pick (race complete alive n 1 cands []) None.
