(* C20: the receive buffer of protocol mode (FandangoIO.receive: add_receive / clear_by_party) and the monitor for recorded runs *)
From Coq Require Import List String NArith Bool Arith.
From FV Require Import Base.Re Base.Grammar Model.ForecastM.
Import ListNotations.
Open Scope list_scope.

Definition unit_ := N.                                   (* one character / one byte *)
Definition entry := (string * string * unit_)%type.     (* sender, receiver, one unit: add_receive splits every message into units *)
Definition buffer := list entry.

Inductive bop :=
| BAdd (sender receiver : string) (data : list unit_)    (* FandangoIO.add_receive *)
| BClear (party : string) (to_idx : nat).                (* FandangoIO.clear_by_party: drop the entries of [party] at positions <= to_idx *)

Definition add (b : buffer) (s r : string) (d : list unit_) : buffer := b ++ map (fun u => (s, r, u)) d.

Fixpoint clear_from (i : nat) (b : buffer) (p : string) (to_idx : nat) : buffer :=
  match b with
  | [] => []
  | (s, r, u) :: b' =>
      if String.eqb s p && Nat.leb i to_idx then clear_from (S i) b' p to_idx
      else (s, r, u) :: clear_from (S i) b' p to_idx
  end.

Definition bstep (b : buffer) (o : bop) : buffer :=
  match o with
  | BAdd s r d => add b s r d
  | BClear p k => clear_from 0 b p k
  end.

(* the units of one sender, in buffer order *)
Definition stream (p : string) (b : buffer) : list unit_ :=
  map (fun e => snd e) (filter (fun e => String.eqb (fst (fst e)) p) b).

(* what a clear removes for the party: the units of the party at positions <= to_idx *)
Definition removed (b : buffer) (p : string) (to_idx : nat) : list unit_ := stream p (firstn (S to_idx) b).

(* bookkeeping over a history of buffer operations: everything ever added per sender, everything ever removed per sender *)
Fixpoint added_of (p : string) (os : list bop) : list unit_ :=
  match os with
  | [] => []
  | BAdd s _ d :: os' => (if String.eqb s p then d else []) ++ added_of p os'
  | BClear _ _ :: os' => added_of p os'
  end.

Fixpoint consumed_of (p : string) (b : buffer) (os : list bop) : list unit_ :=
  match os with
  | [] => []
  | o :: os' =>
      (match o with BClear q k => if String.eqb q p then removed b q k else [] | _ => [] end) ++ consumed_of p (bstep b o) os'
  end.

(* ---- monitor for a recorded run ---- *)
Fixpoint is_prefix (a b : list unit_) : bool :=
  match a, b with
  | [], _ => true
  | x :: a', y :: b' => N.eqb x y && is_prefix a' b'
  | _, _ => false
  end.

(* the recorded message sequence is a prefix of an interaction (and a full interaction if the run claims to be complete) *)
Definition run_valid (r : mre) (h : list msg) (claims_complete : bool) : bool :=
  nonempty msg (derivs msg macc h r) && (negb claims_complete || nullable msg (derivs msg macc h r)).

(* per external sender: what was accepted from it is, in order, an initial part of what it sent *)
Definition delivery_ok (sent_by_peer accepted : list (string * list unit_)) : bool :=
  forallb (fun p => match assoc String.eqb (fst p) sent_by_peer with
                    | Some all => is_prefix (snd p) all
                    | None => match snd p with [] => true | _ => false end
                    end) accepted.
