(* C02: model of RepetitionBoundsConstraint.fitness (constraints/repetition_bounds.py), without the repair suggestions.
   Nodes carry the origin_repetitions tags of ONE repetition id as (iteration, round) pairs; the count fields the bound expressions read
   are given as candidate lists (path of the match in search order, value of the bound expression for it) filled by the harness. *)
From Coq Require Import List Arith Bool ZArith.
Import ListNotations.
Open Scope list_scope.

Inductive tt := TT (is_nt : bool) (tags : list (nat * nat)) (kids : list tt).
Definition path := list nat.

(* DerivationTree.find_by_origin: tagged nodes, children (nonterminal ones only) before the node itself *)
Fixpoint tagged (t : tt) (p : path) {struct t} : list (path * list (nat * nat)) :=
  match t with
  | TT _ tags kids =>
      (fix go (ks : list tt) (i : nat) {struct ks} : list (path * list (nat * nat)) :=
         match ks with
         | [] => []
         | (TT nt tg ks') as k :: rest => (if nt then tagged k (p ++ [i]) else []) ++ go rest (S i)
         end) kids 0
      ++ (match tags with [] => [] | _ => [(p, tags)] end)
  end.

(* group_by_repetition_id: iteration -> (round, path) entries in order of discovery; iterations in order of first appearance *)
Definition groups := list (nat * list (nat * path)).
Fixpoint add_entry (g : groups) (it rd : nat) (p : path) : groups :=
  match g with
  | [] => [(it, [(rd, p)])]
  | (it', l) :: g' => if Nat.eqb it it' then (it', l ++ [(rd, p)]) :: g' else (it', l) :: add_entry g' it rd p
  end.
Definition group_all (l : list (path * list (nat * nat))) : groups :=
  fold_left (fun g e => fold_left (fun g' tg => add_entry g' (fst tg) (snd tg) (fst e)) (snd e) g) l [].

Definition rounds (l : list (nat * path)) : list nat := nodup Nat.eq_dec (map fst l).
Definition min_round (l : list (nat * path)) : nat := fold_right Nat.min (hd 0 (map fst l)) (map fst l).
(* first element of the smallest round *)
Definition first_of (l : list (nat * path)) : option path :=
  match filter (fun e => Nat.eqb (fst e) (min_round l)) l with e :: _ => Some (snd e) | [] => None end.

(* the node just before the repetition: climb while the node is a first child, then take the previous sibling; None = the assertion fails *)
Fixpoint climb (fuel : nat) (p : path) : option path :=
  match fuel with
  | 0 => None
  | S f =>
      match rev p with
      | [] => None
      | 0 :: r => climb f (rev r)
      | S i :: r => Some (rev r ++ [i])
      end
  end.

(* the in-bounds test of _compute_rep_bound: walk both paths; out of bounds iff at the first difference the candidate's step is larger *)
Fixpoint in_bounds (m p : path) : bool :=
  match m, p with
  | [], _ => true
  | _, [] => true
  | a :: m', b :: p' => if Nat.ltb b a then true else if Nat.ltb a b then false else in_bounds m' p'
  end.

(* a bound: a constant, or the value at the LAST candidate in bounds (None = no candidate: FandangoValueError) *)
Inductive bound := BConst (v : Z) | BSearch (cands : list (path * Z)).
Definition bound_value (b : bound) (m : path) : option Z :=
  match b with
  | BConst v => Some v
  | BSearch cands => match rev (filter (fun c => in_bounds m (fst c)) cands) with c :: _ => Some (snd c) | [] => None end
  end.

(* fitness: (solved, total); None = the implementation raises *)
Definition group_ok (bmin bmax : bound) (l : list (nat * path)) : option bool :=
  match first_of l with
  | None => None
  | Some fp =>
      match climb (S (List.length fp)) fp with
      | None => None
      | Some m =>
          match bound_value bmin m, bound_value bmax m with
          | Some lo, Some hi => let n := Z.of_nat (List.length (rounds l)) in Some (Z.leb lo n && Z.leb n hi)
          | _, _ => None
          end
      end
  end.

Fixpoint count_ok (bmin bmax : bound) (g : groups) : option nat :=
  match g with
  | [] => Some 0
  | (_, l) :: g' =>
      match group_ok bmin bmax l, count_ok bmin bmax g' with
      | Some b, Some n => Some ((if b then 1 else 0) + n)
      | _, _ => None
      end
  end.

Definition rb_fitness (t : tt) (bmin bmax : bound) : option (nat * nat) :=
  match tagged t [] with
  | [] => Some (1, 1)
  | l => let g := group_all l in
         match count_ok bmin bmax g with Some s => Some (s, List.length g) | None => None end
  end.

(* case evaluator: 1 = the implementation's (solved, total) (None = it raised) is the model's *)
Definition opt_pair_eqb (a b : option (nat * nat)) : bool :=
  match a, b with
  | None, None => true
  | Some (x, y), Some (x', y') => Nat.eqb x x' && Nat.eqb y y'
  | _, _ => false
  end.
Definition c02_rb (c : tt * bound * bound * option (nat * nat)) : nat :=
  let '(t, bmin, bmax, real) := c in if opt_pair_eqb (rb_fitness t bmin bmax) real then 1 else 0.
