(* C01/C10 model of DerivationTree.replace_multiple (generator-free part): paths
   are child-index lists from the root; a replacement is applied when the path
   matches and the symbols agree, and the walk continues inside the replacement. *)
From Coq Require Import List String NArith Bool Arith.
From FV Require Import Base.Re Base.Grammar.
Import ListNotations.
Open Scope list_scope.

Definition leaf_eqb (a b : leaf) : bool :=
  match a, b with
  | LPay p, LPay q => payload_eqb p q
  | LBit x, LBit y => Bool.eqb x y
  | _, _ => false
  end.

Definition same_root (a b : tree) : bool :=
  match a, b with
  | Leaf l, Leaf l' => leaf_eqb l l'
  | Node x _, Node y _ => String.eqb x y
  | _, _ => false
  end.

Definition path := list nat.
Definition path_eqb (p q : path) : bool := list_eqb Nat.eqb p q.

Fixpoint replace_m (fuel : nat) (reps : list (path * tree)) (p : path) (t : tree) {struct fuel} : option tree :=
  match fuel with
  | O => None
  | S f =>
      let base := match assoc path_eqb p reps with
                  | Some v => if same_root t v then v else t
                  | None => t
                  end in
      match base with
      | Leaf l => Some (Leaf l)
      | Node nt kids =>
          match (fix go (i : nat) (l : list tree) {struct l} : option (list tree) :=
                   match l with
                   | [] => Some []
                   | k :: l' =>
                       match replace_m f reps (p ++ [i]) k, go (S i) l' with
                       | Some k', Some r => Some (k' :: r)
                       | _, _ => None
                       end
                   end) 0 kids with
          | Some kids' => Some (Node nt kids')
          | None => None
          end
      end
  end.

Fixpoint subtree_at (t : tree) (p : path) : option tree :=
  match p with
  | [] => Some t
  | i :: p' => match t with Node _ kids => match nth_error kids i with Some k => subtree_at k p' | None => None end
                          | Leaf _ => None end
  end.

(* DerivationTree.replace(tree_to_replace at path p, new_subtree) *)
Definition replace1 (fuel : nat) (t : tree) (p : path) (v : tree) : option tree :=
  replace_m fuel [(p, v)] [] t.
