(* C07 model of language/search.py on path-addressed trees.
   [find_m] follows the code (find / find_direct / quantify);
   [den] is the documented meaning of selectors (docs/Paths.md). *)
From Coq Require Import List String ZArith Bool Arith.
From FV Require Import Base.Re Base.Grammar Model.ReplaceM.
Import ListNotations.
Open Scope list_scope.

(* a matched node: a node of the tree under evaluation, or a slice of siblings *)
Inductive ref := RPath (p : path) | RSlice (ps : list path).
Inductive cont := CTree (r : ref) | CList (rs : list ref) | CLen (rs : list ref).
Inductive index := IAt (i : Z) | ISlice (lo hi : option Z).
Inductive search :=
| SRule (nt : string)
| SAttr (b a : search)      (* b.a  *)
| SDesc (b a : search)      (* b..a *)
| SItem (b : search) (ix : index)
| SStar (b : search)
| SLen (b : search).

Definition trees (c : cont) : list ref :=
  match c with CTree r => [r] | CList rs => rs | CLen rs => rs end.

Definition label_at (t0 : tree) (p : path) : option string :=
  match subtree_at t0 p with Some (Node nt _) => Some nt | _ => None end.

Definition kid_paths (t0 : tree) (p : path) : list path :=
  match subtree_at t0 p with
  | Some (Node _ kids) => map (fun i => p ++ [i]) (seq 0 (List.length kids))
  | _ => []
  end.

Definition ref_kids (t0 : tree) (r : ref) : list path :=
  match r with RPath p => kid_paths t0 p | RSlice ps => ps end.

Definition is_label (t0 : tree) (nt : string) (p : path) : bool :=
  match label_at t0 p with Some l => String.eqb l nt | None => false end.

(* DerivationTree.find_all_trees: children first (non-terminal children only), then self *)
Fixpoint find_all_tree (t : tree) (p : path) (nt : string) : list path :=
  match t with
  | Leaf _ => []
  | Node l kids =>
      (fix go (i : nat) (ks : list tree) : list path :=
         match ks with
         | [] => []
         | k :: ks' => find_all_tree k (p ++ [i]) nt ++ go (S i) ks'
         end) 0 kids
      ++ (if String.eqb l nt then [p] else [])
  end.

Definition find_all_at (t0 : tree) (p : path) (nt : string) : list path :=
  match subtree_at t0 p with Some t => find_all_tree t p nt | None => [] end.

Definition find_all_ref (t0 : tree) (r : ref) (nt : string) : list path :=
  match r with
  | RPath p => find_all_at t0 p nt
  | RSlice ps => flat_map (fun q => find_all_at t0 q nt) ps   (* the slice node itself never matches *)
  end.

Definition find_direct_ref (t0 : tree) (r : ref) (nt : string) : list path :=
  filter (is_label t0 nt) (ref_kids t0 r).

(* Python indexing / slicing of a list of length n *)
Definition py_index (n : nat) (i : Z) : option nat :=
  let n' := Z.of_nat n in
  let j := if (i <? 0)%Z then (i + n')%Z else i in
  if ((0 <=? j) && (j <? n'))%Z then Some (Z.to_nat j) else None.

Definition clamp (n : nat) (i : Z) : nat :=
  let n' := Z.of_nat n in
  let j := if (i <? 0)%Z then Z.max 0 (i + n')%Z else Z.min i n' in
  Z.to_nat j.

Definition py_slice {X} (l : list X) (lo hi : option Z) : list X :=
  let n := List.length l in
  let a := match lo with Some i => clamp n i | None => 0 end in
  let b := match hi with Some i => clamp n i | None => n end in
  firstn (b - a) (skipn a l).

(* DerivationTree.__getitem__ : None = IndexError *)
Definition getitem (t0 : tree) (r : ref) (ix : index) : option ref :=
  let ks := ref_kids t0 r in
  match ix with
  | IAt i => match py_index (List.length ks) i with
             | Some j => option_map RPath (nth_error ks j)
             | None => None
             end
  | ISlice lo hi => Some (RSlice (py_slice ks lo hi))
  end.

Definition scope := list (string * ref).

Fixpoint mapM {X Y} (f : X -> option Y) (l : list X) : option (list Y) :=
  match l with
  | [] => Some []
  | x :: l' => match f x, mapM f l' with Some y, Some r => Some (y :: r) | _, _ => None end
  end.

Definition bind {X Y} (o : option X) (f : X -> option Y) : option Y :=
  match o with Some x => f x | None => None end.

Definition concat_map_opt {X Y} (f : X -> option (list Y)) (l : list X) : option (list Y) :=
  option_map (@List.concat Y) (mapM f l).

(* find (direct=false) / find_direct (direct=true) on the tree rooted at [cur] *)
Fixpoint find_m (t0 : tree) (sc : scope) (s : search) (direct : bool) (cur : ref) {struct s}
  : option (list cont) :=
  match s with
  | SRule nt =>
      match assoc String.eqb nt sc with
      | Some r => Some [CTree r]
      | None => Some (map (fun p => CTree (RPath p))
                        (if direct then find_direct_ref t0 cur nt else find_all_ref t0 cur nt))
      end
  | SAttr b a =>
      bind (find_m t0 sc b direct cur) (fun bases =>
        concat_map_opt (fun t => find_m t0 sc a true t) (flat_map trees bases))
  | SDesc b a =>
      bind (find_m t0 sc b direct cur) (fun bases =>
        concat_map_opt (fun t => find_m t0 sc a false t) (flat_map trees bases))
  | SItem b ix =>
      bind (find_m t0 sc b direct cur) (fun bases =>
        option_map (map CTree) (mapM (fun t => getitem t0 t ix) (flat_map trees bases)))
  | SStar b =>
      bind (find_m t0 sc b direct cur) (fun bases => Some [CList (flat_map trees bases)])
  | SLen b =>
      bind (find_m t0 sc b direct cur) (fun bases => Some [CLen (flat_map trees bases)])
  end.

(* NonTerminalSearch.quantify: StarSearch lists its elements one by one *)
Definition quantify_m (t0 : tree) (sc : scope) (s : search) (cur : ref) : option (list cont) :=
  match s with
  | SStar b => bind (find_m t0 sc b false cur) (fun bases => Some (map CTree (flat_map trees bases)))
  | _ => find_m t0 sc s false cur
  end.

(* ------------------------------------------------------------ documented meaning *)

(* all paths of inner nodes below (and including) [p], children before parents, left to right *)
Fixpoint node_paths (t : tree) (p : path) : list path :=
  match t with
  | Leaf _ => []
  | Node _ kids =>
      (fix go (i : nat) (ks : list tree) : list path :=
         match ks with
         | [] => []
         | k :: ks' => node_paths k (p ++ [i]) ++ go (S i) ks'
         end) 0 kids ++ [p]
  end.

Definition node_paths_at (t0 : tree) (p : path) : list path :=
  match subtree_at t0 p with Some t => node_paths t p | None => [] end.

(* occurrences of nt within r, including r itself ("all <A>") *)
Definition occ_incl (t0 : tree) (r : ref) (nt : string) : list path :=
  match r with
  | RPath p => filter (is_label t0 nt) (node_paths_at t0 p)
  | RSlice ps => flat_map (fun q => filter (is_label t0 nt) (node_paths_at t0 q)) ps
  end.

(* proper descendants of r named nt ("a child ... or a child has it as a descendant") *)
Definition occ_proper (t0 : tree) (r : ref) (nt : string) : list path :=
  flat_map (fun q => filter (is_label t0 nt) (node_paths_at t0 q)) (ref_kids t0 r).

Inductive mode := MTop | MDirect | MUnder.

Fixpoint den (t0 : tree) (sc : scope) (s : search) (m : mode) (cur : ref) {struct s} : option (list cont) :=
  match s with
  | SRule nt =>
      match assoc String.eqb nt sc with
      | Some r => Some [CTree r]
      | None => Some (map (fun p => CTree (RPath p))
                        match m with
                        | MTop => occ_incl t0 cur nt
                        | MDirect => find_direct_ref t0 cur nt
                        | MUnder => occ_proper t0 cur nt
                        end)
      end
  | SAttr b a =>
      bind (den t0 sc b m cur) (fun bases => concat_map_opt (fun t => den t0 sc a MDirect t) (flat_map trees bases))
  | SDesc b a =>
      bind (den t0 sc b m cur) (fun bases => concat_map_opt (fun t => den t0 sc a MUnder t) (flat_map trees bases))
  | SItem b ix =>
      bind (den t0 sc b m cur) (fun bases =>
        option_map (map CTree) (mapM (fun t => getitem t0 t ix) (flat_map trees bases)))
  | SStar b => bind (den t0 sc b m cur) (fun bases => Some [CList (flat_map trees bases)])
  | SLen b => bind (den t0 sc b m cur) (fun bases => Some [CLen (flat_map trees bases)])
  end.

Definition mode_of (direct : bool) : mode := if direct then MDirect else MTop.

(* the only place where the code departs from the documentation: `..` applied to a
   base node that itself carries the searched symbol *)
Fixpoint desc_clean (t0 : tree) (sc : scope) (s : search) (m : mode) (cur : ref) {struct s} : bool :=
  match s with
  | SRule nt =>
      match assoc String.eqb nt sc with
      | Some _ => true
      | None => match m, cur with
                | MUnder, RPath p => negb (is_label t0 nt p)
                | _, _ => true
                end
      end
  | SAttr b a =>
      desc_clean t0 sc b m cur &&
      match den t0 sc b m cur with
      | Some bases => forallb (fun t => desc_clean t0 sc a MDirect t) (flat_map trees bases)
      | None => true
      end
  | SDesc b a =>
      desc_clean t0 sc b m cur &&
      match den t0 sc b m cur with
      | Some bases => forallb (fun t => desc_clean t0 sc a MUnder t) (flat_map trees bases)
      | None => true
      end
  | SItem b _ => desc_clean t0 sc b m cur
  | SStar b => desc_clean t0 sc b m cur
  | SLen b => desc_clean t0 sc b m cur
  end.
