(* C19: slicing a protocol grammar to a subset of parties (slice_parties / PacketTruncator with ignore_receivers=True), composed with the
   inlining of the control nonterminals: the message-level expression of the SLICED grammar, computed from the UNSLICED rules.
   A message is named "sender:recipient:<nt>"; it is removed when its sender is not kept.  A sequence / choice all of whose members are
   removed is removed itself, a repetition of a removed body is removed, and a control nonterminal whose whole body is removed is removed
   wherever it is referenced (the implementation deletes the rule and removes the references in a further round). *)
From Coq Require Import List String NArith Bool Arith Ascii.
From FV Require Import Base.Re Base.Grammar Model.ForecastM.
Import ListNotations.
Open Scope list_scope.

(* the text before the first ':' ; None when there is no ':' (no party annotation) *)
Fixpoint sender_of (s : string) : option string :=
  match s with
  | EmptyString => None
  | String c s' =>
      if Ascii.eqb c ":"%char then Some EmptyString
      else match sender_of s' with Some p => Some (String c p) | None => None end
  end.

Definition visible (keep : list string) (m : msg) : bool :=
  match sender_of m with
  | None => true
  | Some s => existsb (String.eqb s) keep
  end.

(* slice_parties(ignore_receivers=False), as truncate_invisible_packets (language/parse/io.py) calls it before a protocol run: a message
   "sender:recipient:<nt>" is removed when it has a recipient and NEITHER its sender NOR its recipient is kept; a message without recipient
   (exported with the recipient text "None") always stays *)
Fixpoint after_colon (s : string) : option string :=
  match s with
  | EmptyString => None
  | String c s' => if Ascii.eqb c ":"%char then Some s' else after_colon s'
  end.

Definition recipient_of (m : msg) : option string :=
  match after_colon m with Some r => sender_of r | None => None end.

Definition visible_io (keep : list string) (m : msg) : bool :=
  match sender_of m, recipient_of m with
  | Some s, Some r =>
      if String.eqb r "None" then true
      else existsb (String.eqb s) keep || existsb (String.eqb r) keep
  | _, _ => true
  end.

(* the two modes of slice_parties: (true, keep) = ignore_receivers=True, (false, keep) = ignore_receivers=False *)
Definition vis_mode (k : bool * list string) : msg -> bool :=
  if fst k then visible (snd k) else visible_io (snd k).

Definition alts (k : list mre) : mre := fold_right (RAlt _) (REmp _) k.
Definition cats (k : list mre) : mre := fold_right (RCat _) (REps _) k.

Definition keep_list (rec : rhs -> option (option mre)) : list rhs -> option (list mre) :=
  fix go (l : list rhs) : option (list mre) :=
    match l with
    | [] => Some []
    | x :: l' =>
        match rec x, go l' with
        | Some (Some a), Some k => Some (a :: k)
        | Some None, Some k => Some k
        | _, _ => None
        end
    end.

(* None = out of fuel / terminal outside a message; Some None = removed by slicing; Some (Some m) = what is left *)
Fixpoint islice (fuel : nat) (vis : msg -> bool) (rules : list (string * rhs)) (r : rhs) {struct fuel} : option (option mre) :=
  match fuel with
  | 0 => None
  | S f =>
      match r with
      | Alt rs => match keep_list (islice f vis rules) rs with None => None | Some [] => Some None | Some k => Some (Some (alts k)) end
      | Cat rs => match keep_list (islice f vis rules) rs with None => None | Some [] => Some None | Some k => Some (Some (cats k)) end
      | Rep r' mn mx =>
          match islice f vis rules r' with
          | None => None
          | Some None => Some None
          | Some (Some a) => Some (Some (RRep _ a mn mx))
          end
      | Ref nt =>
          match assoc String.eqb nt rules with
          | Some body => islice f vis rules body
          | None => Some (if vis nt then Some (RAtom _ nt) else None)
          end
      | Tm _ => None
      end
  end.

(* every member of a sequence denotes some word, hereditarily: the side condition under which removing a member of a sequence is the
   same as not seeing it (an infeasible member, e.g. a repetition {3,2}, makes the whole sequence infeasible in the unsliced protocol) *)
Fixpoint hp (r : mre) : bool :=
  match r with
  | REmp _ | REps _ | RAtom _ _ => true
  | RAlt _ a b => hp a && hp b
  | RCat _ a b => hp a && hp b && nonempty msg a && nonempty msg b
  | RRep _ a _ _ => hp a
  end.
