(* C09 model of language/tree_value.py (TreeValue) and DerivationTree.value():
   values are immutable records; the receiver mutation of _reduce_trailing_bits is
   the returned value. *)
From Coq Require Import List NArith Bool Arith String.
From FV Require Import Base.Re Base.Grammar.
Import ListNotations.
Open Scope list_scope.

Inductive val := VNone | VStr (cps : list N) | VBytes (bs : list N).
Record tv := { tval : val; tbits : list bool }.
Inductive err := EConv.   (* FandangoConversionError *)
Inductive result (X : Type) := Ok (x : X) | Err (e : err).
Arguments Ok {X}. Arguments Err {X}.

Definition rbind {X Y} (r : result X) (f : X -> result Y) : result Y :=
  match r with Ok x => f x | Err e => Err e end.

Definition empty_tv : tv := {| tval := VNone; tbits := [] |}.
Definition is_empty (a : tv) : bool :=
  match tval a, tbits a with VNone, [] => true | _, _ => false end.

(* ---- encodings on code points / bytes *)
Definition utf8_cp (c : N) : option (list N) :=
  if (c <? 128)%N then Some [c]
  else if (c <? 2048)%N then Some [(192 + c / 64)%N; (128 + c mod 64)%N]
  else if (c <? 65536)%N then
    if ((55296 <=? c) && (c <=? 57343))%N then None    (* lone surrogates cannot be encoded *)
    else Some [(224 + c / 4096)%N; (128 + (c / 64) mod 64)%N; (128 + c mod 64)%N]
  else if (c <? 1114112)%N then
    Some [(240 + c / 262144)%N; (128 + (c / 4096) mod 64)%N; (128 + (c / 64) mod 64)%N; (128 + c mod 64)%N]
  else None.

Fixpoint utf8 (s : list N) : option (list N) :=
  match s with
  | [] => Some []
  | c :: s' => match utf8_cp c, utf8 s' with Some a, Some b => Some (a ++ b) | _, _ => None end
  end.

Fixpoint latin1 (s : list N) : option (list N) :=
  match s with
  | [] => Some []
  | c :: s' => if (c <? 256)%N then option_map (cons c) (latin1 s') else None
  end.

Definition latin1_decode (bs : list N) : list N := bs.

Inductive encoding := Utf8 | Latin1.
Definition encode (e : encoding) (s : list N) : option (list N) :=
  match e with Utf8 => utf8 s | Latin1 => latin1 s end.

(* ---- bits and bytes, most significant bit first *)
Definition byte_bits (n : N) : list bool :=
  [N.testbit n 7; N.testbit n 6; N.testbit n 5; N.testbit n 4; N.testbit n 3; N.testbit n 2; N.testbit n 1; N.testbit n 0].
Definition bits_of_bytes (bs : list N) : list bool := flat_map byte_bits bs.

Definition b2n (b : bool) : N := if b then 1%N else 0%N.
Definition byte_of (b7 b6 b5 b4 b3 b2 b1 b0 : bool) : N :=
  (128 * b2n b7 + 64 * b2n b6 + 32 * b2n b5 + 16 * b2n b4 + 8 * b2n b3 + 4 * b2n b2 + 2 * b2n b1 + b2n b0)%N.

(* None when the length is not a multiple of 8 *)
Fixpoint bytes_of_bits (l : list bool) : option (list N) :=
  match l with
  | [] => Some []
  | b7 :: b6 :: b5 :: b4 :: b3 :: b2 :: b1 :: b0 :: l' =>
      option_map (cons (byte_of b7 b6 b5 b4 b3 b2 b1 b0)) (bytes_of_bits l')
  | _ => None
  end.

Fixpoint bits_to_N (l : list bool) (acc : N) : N :=
  match l with [] => acc | b :: l' => bits_to_N l' (2 * acc + b2n b)%N end.

(* ---- TreeValue._reduce_trailing_bits *)
Definition reduce (e : encoding) (a : tv) : result tv :=
  match tbits a with
  | [] => Ok a
  | _ =>
      match bytes_of_bits (tbits a) with
      | None => Err EConv
      | Some bs =>
          match tval a with
          | VStr s => match encode e s with Some sb => Ok {| tval := VBytes (sb ++ bs); tbits := [] |} | None => Err EConv end
          | VBytes b => Ok {| tval := VBytes (b ++ bs); tbits := [] |}
          | VNone => Ok {| tval := VBytes bs; tbits := [] |}
          end
      end
  end.

(* ---- TreeValue.append (str_to_bytes_encoding = utf-8) *)
Definition append (a b : tv) : result tv :=
  if is_empty a then Ok b
  else match tval b with
       | VNone => Ok {| tval := tval a; tbits := tbits a ++ tbits b |}
       | _ =>
           rbind (reduce Utf8 a) (fun a' =>
             match tval a', tval b with
             | VStr s, VStr s' => Ok {| tval := VStr (s ++ s'); tbits := tbits b |}
             | VStr s, VBytes b' => match utf8 s with Some sb => Ok {| tval := VBytes (sb ++ b'); tbits := tbits b |} | None => Err EConv end
             | VBytes x, VStr s' => match utf8 s' with Some sb => Ok {| tval := VBytes (x ++ sb); tbits := tbits b |} | None => Err EConv end
             | VBytes x, VBytes b' => Ok {| tval := VBytes (x ++ b'); tbits := tbits b |}
             | _, _ => Err EConv     (* unreachable: after reduce a non-empty receiver has a value *)
             end)
       end.

(* ---- conversions *)
Definition to_string (a : tv) : result (list N) :=
  if is_empty a then Ok []
  else rbind (reduce Latin1 a) (fun a' =>
         match tval a' with
         | VStr s => Ok s
         | VBytes b => Ok (latin1_decode b)
         | VNone => Err EConv
         end).

Definition to_bytes (a : tv) : result (list N) :=
  if is_empty a then Ok []
  else rbind (reduce Utf8 a) (fun a' =>
         match tval a' with
         | VBytes b => Ok b
         | VStr s => match utf8 s with Some sb => Ok sb | None => Err EConv end
         | VNone => Err EConv
         end).

Definition val_bits (v : val) : result (list bool) :=
  match v with
  | VNone => Ok []
  | VBytes b => Ok (bits_of_bytes b)
  | VStr s => match utf8 s with Some sb => Ok (bits_of_bytes sb) | None => Err EConv end
  end.

Definition to_bits (a : tv) : result (list bool) :=
  rbind (val_bits (tval a)) (fun vb => Ok (vb ++ tbits a)).

(* to_int of a bits-only value *)
Definition to_int_bits (a : tv) : option N :=
  match tval a with VNone => Some (bits_to_N (tbits a) 0) | _ => None end.

(* ---- leaves and DerivationTree.value() *)
Definition leaf_tv (l : leaf) : tv :=
  match l with
  | LPay (PStr s) => {| tval := VStr s; tbits := [] |}
  | LPay (PBytes b) => {| tval := VBytes b; tbits := [] |}
  | LBit b => {| tval := VNone; tbits := [b] |}
  end.

(* DerivationTree._append_value_to: thread the aggregate through the tree *)
Fixpoint thread (t : tree) (acc : result tv) {struct t} : result tv :=
  match t with
  | Leaf l => rbind acc (fun a => append a (leaf_tv l))
  | Node _ kids => fold_left (fun r k => thread k r) kids acc
  end.

Definition value_m (t : tree) : result tv :=
  match t with
  | Leaf l => Ok (leaf_tv l)
  | Node _ _ => thread t (Ok empty_tv)
  end.

(* the specification side: concatenation over the leaf sequence *)
Definition value_spec (ls : list leaf) : result tv :=
  fold_left (fun r l => rbind r (fun a => append a (leaf_tv l))) ls (Ok empty_tv).

Definition leaf_bits (l : leaf) : result (list bool) :=
  match l with
  | LBit b => Ok [b]
  | LPay (PBytes b) => Ok (bits_of_bytes b)
  | LPay (PStr s) => match utf8 s with Some sb => Ok (bits_of_bytes sb) | None => Err EConv end
  end.
