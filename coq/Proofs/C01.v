(* C01: every tree produced by the fuzz model derives from the grammar, for every
   grammar, fuel and decision tape. *)
From Coq Require Import List String NArith Bool Arith Lia.
From FV Require Import Base.Re Base.Grammar Model.FuzzM.
Import ListNotations.
Open Scope list_scope.

Section RhsInd.
  Variable P : rhs -> Prop.
  Hypothesis HAlt : forall rs, Forall P rs -> P (Alt rs).
  Hypothesis HCat : forall rs, Forall P rs -> P (Cat rs).
  Hypothesis HRep : forall r mn mx, P r -> P (Rep r mn mx).
  Hypothesis HRef : forall nt, P (Ref nt).
  Hypothesis HTm : forall t, P (Tm t).
  Fixpoint rhs_ind' (r : rhs) : P r :=
    let fix go (l : list rhs) : Forall P l :=
      match l with [] => Forall_nil _ | r' :: l' => Forall_cons _ (rhs_ind' r') (go l') end in
    match r with
    | Alt rs => HAlt rs (go rs)
    | Cat rs => HCat rs (go rs)
    | Rep r' mn mx => HRep r' mn mx (rhs_ind' r')
    | Ref nt => HRef nt
    | Tm t => HTm t
    end.
End RhsInd.

Definition good (G : grammar) (r : rhs) (kids : list tree) : Prop :=
  expands G r kids /\ Forall (valid G) kids.

Section Sound.
Variable G : grammar.
Variable ref : string -> list dec -> res.
Hypothesis ref_good : forall nt tp kids tp', ref nt tp = Some (kids, tp') -> good G (Ref nt) kids.

Lemma body_sound : forall r tp kids tp', body_m G ref r tp = Some (kids, tp') -> good G r kids.
Proof.
  induction r as [rs IH|rs IH|r mn mx IH|nt|t] using rhs_ind'; intros tp kids tp' H.
  - (* Alt *)
    simpl in H. destruct tp as [|[i|n|p] tp0]; try discriminate.
    revert i H. induction IH as [|r' rs' Hr' _ IHl]; intros i H; [destruct i; discriminate|].
    destruct i as [|i].
    + destruct (Hr' _ _ _ H) as [He Hv]. split; [|exact Hv]. unfold expands in *. simpl. left. exact He.
    + destruct (IHl _ H) as [He Hv]. split; [|exact Hv]. unfold expands in *. simpl. right. exact He.
  - (* Cat *)
    simpl in H. revert tp kids tp' H.
    induction IH as [|r' rs' Hr' _ IHl]; intros tp kids tp' H.
    + injection H as <- <-. split; [reflexivity|constructor].
    + destruct (body_m G ref r' tp) as [[k1 tp1]|] eqn:E1; [|discriminate].
      match type of H with context [?f rs' tp1] => destruct (f rs' tp1) as [[k2 tp2]|] eqn:E2 end; [|discriminate].
      injection H as <- <-.
      destruct (Hr' _ _ _ E1) as [He1 Hv1]. destruct (IHl _ _ _ E2) as [He2 Hv2].
      split; [|apply Forall_app; auto]. unfold expands in *. simpl. exists k1, k2. auto.
  - (* Rep *)
    simpl in H. destruct tp as [|[i|n|p] tp0]; try discriminate.
    destruct (Nat.leb mn n && le_opt n mx)%bool eqn:Hb; [|discriminate].
    apply andb_true_iff in Hb. destruct Hb as [Hmn Hmx]. apply Nat.leb_le in Hmn.
    assert (Hp : pow tree (lang tree atom (acc G) (to_re r)) n kids /\ Forall (valid G) kids).
    { clear Hmn Hmx. revert tp0 kids tp' H. induction n as [|n IHn]; intros tp0 kids tp' H.
      - injection H as <- <-. split; constructor.
      - destruct (body_m G ref r tp0) as [[k1 tp1]|] eqn:E1; [|discriminate].
        match type of H with context [?f n tp1] => destruct (f n tp1) as [[k2 tp2]|] eqn:E2 end; [|discriminate].
        injection H as <- <-.
        destruct (IH _ _ _ E1) as [He1 Hv1]. destruct (IHn _ _ _ E2) as [He2 Hv2].
        split; [constructor; assumption|apply Forall_app; auto]. }
    destruct Hp as [Hp Hv]. split; [|exact Hv]. unfold expands. simpl. exists n. auto.
  - (* Ref *) simpl in H. eapply ref_good; eauto.
  - (* Tm *)
    destruct t as [p|b|id]; simpl in H.
    + injection H as <- <-. split; [|repeat constructor]. unfold expands. simpl.
      eexists. split; [reflexivity|]. simpl. unfold units_eqb. apply (list_eqb_eq N.eqb N.eqb_eq). reflexivity.
    + injection H as <- <-. split; [|repeat constructor]. unfold expands. simpl.
      eexists. split; [reflexivity|]. simpl. apply Bool.eqb_reflx.
    + destruct tp as [|[i|n|p] tp0]; try discriminate.
      destruct (re_ok G id p) eqn:Hre; [|discriminate]. injection H as <- <-.
      split; [|repeat constructor]. unfold expands. simpl. eexists. split; [reflexivity|]. exact Hre.
Qed.
End Sound.

Lemma ref_sound G : forall fuel nt tp kids tp', ref_m G fuel nt tp = Some (kids, tp') -> good G (Ref nt) kids.
Proof.
  induction fuel as [|f IH]; intros nt tp kids tp' H; [discriminate|].
  simpl in H. destruct (lookup G nt) as [body|] eqn:Hl; [|discriminate].
  destruct (body_m G (ref_m G f) body tp) as [[k tp1]|] eqn:E; [|discriminate].
  injection H as <- <-.
  destruct (body_sound G (ref_m G f) IH _ _ _ _ E) as [He Hv].
  split.
  - unfold expands. simpl. eexists. split; [reflexivity|]. simpl. apply String.eqb_refl.
  - constructor; [|constructor]. econstructor; eauto.
Qed.

Lemma fuzz_sound G fuel r tp kids tp' : fuzz_m G fuel r tp = Some (kids, tp') -> good G r kids.
Proof. apply body_sound. apply ref_sound. Qed.

Theorem fuzz_derives G fuel s tp t : fuzz_start G fuel s tp = Some t -> derives G s t.
Proof.
  unfold fuzz_start. destruct (fuzz_m G fuel (Ref s) tp) as [[kids tp']|] eqn:E; [|discriminate].
  destruct kids as [|t0 [|? ?]]; try discriminate. destruct tp'; [|discriminate].
  intros H. injection H as <-.
  destruct (fuzz_sound _ _ _ _ _ _ E) as [He Hv].
  split; [|inversion Hv; assumption].
  unfold expands in He. simpl in He. destruct He as (x & Hx & Hacc). injection Hx as <-.
  destruct t0 as [l|nt kids]; simpl in Hacc; [discriminate|].
  apply String.eqb_eq in Hacc. subst. eexists; reflexivity.
Qed.

(* every word emitted is the leaf sequence of a derivation *)
Corollary fuzz_word_in_language G fuel s tp t :
  fuzz_start G fuel s tp = Some t -> exists t', derives G s t' /\ leaves t' = leaves t.
Proof. intros H. exists t. split; [eapply fuzz_derives; eauto|reflexivity]. Qed.
