From Coq Require Import List String NArith Bool Arith Lia.
From FV Require Import Base.Re Base.Grammar Model.FuzzM Model.ReplaceM Proofs.C01.
Import ListNotations.
Open Scope list_scope.

Section Sim.
Variable G : grammar.
Definition sim (x y : tree) : Prop := forall a, acc G a x = acc G a y.

Lemma same_root_sim x y : same_root x y = true -> sim x y.
Proof.
  intros H a. destruct x as [l|nt k], y as [l'|nt' k']; simpl in H; try discriminate.
  - destruct l, l'; simpl in H; try discriminate.
    + apply payload_eqb_eq in H. subst. reflexivity.
    + apply Bool.eqb_prop in H. subst. reflexivity.
  - apply String.eqb_eq in H. subst. reflexivity.
Qed.

Lemma sim_refl x : sim x x. Proof. intros a. reflexivity. Qed.
Lemma sim_trans x y z : sim x y -> sim y z -> sim x z.
Proof. intros H1 H2 a. rewrite H1. apply H2. Qed.

Lemma deriv_sim x y : sim x y -> forall r, deriv tree atom (acc G) x r = deriv tree atom (acc G) y r.
Proof.
  intros Hs r. induction r as [| |a|r1 IH1 r2 IH2|r1 IH1 r2 IH2|r IH mn mx]; simpl; try reflexivity.
  - rewrite (Hs a). reflexivity.
  - rewrite IH1, IH2. reflexivity.
  - rewrite IH1, IH2. reflexivity.
  - rewrite IH. reflexivity.
Qed.

Lemma matches_sim w w' : Forall2 sim w w' -> forall r,
  matches tree atom (acc G) r w = matches tree atom (acc G) r w'.
Proof.
  unfold matches. induction 1 as [|x y w w' Hxy _ IH]; intros r; simpl; [reflexivity|].
  rewrite (deriv_sim _ _ Hxy). apply IH.
Qed.

Lemma expands_sim body w w' : Forall2 sim w w' -> expands G body w -> expands G body w'.
Proof.
  unfold expands. intros Hs H. apply matches_spec. rewrite <- (matches_sim _ _ Hs). apply matches_spec. exact H.
Qed.

Lemma sim_node nt k k' : sim (Node nt k) (Node nt k').
Proof. intros a. destruct a; reflexivity. Qed.

(* replace_multiple preserves validity and the root symbol *)
Lemma replace_valid : forall fuel reps p t t',
  Forall (fun pv => valid G (snd pv)) reps ->
  valid G t -> replace_m fuel reps p t = Some t' -> valid G t' /\ sim t t'.
Proof.
  induction fuel as [|f IH]; intros reps p t t' Hreps Hv H; [discriminate|].
  simpl in H.
  set (base := match assoc path_eqb p reps with
               | Some v => if same_root t v then v else t | None => t end) in *.
  assert (Hb : valid G base /\ sim t base).
  { unfold base. destruct (assoc path_eqb p reps) as [v|] eqn:Ha; [|split; [exact Hv|apply sim_refl]].
    destruct (same_root t v) eqn:Hs; [|split; [exact Hv|apply sim_refl]].
    split; [|apply same_root_sim; exact Hs].
    clear - Ha Hreps. induction reps as [|[q u] reps IHr]; [discriminate|].
    simpl in Ha. inversion Hreps; subst. destruct (path_eqb p q); [injection Ha as <-; assumption|auto]. }
  destruct Hb as [Hvb Hsb]. clearbody base.
  destruct base as [l|nt kids]; [injection H as <-; auto|].
  match type of H with context [?g 0 kids] => destruct (g 0 kids) as [kids'|] eqn:Eg end; [|discriminate].
  injection H as <-.
  inversion Hvb as [|nt0 kids0 body Hl He Hk]; subst.
  assert (Hkids : Forall (valid G) kids' /\ Forall2 sim kids kids').
  { clear He Hl Hsb Hvb. revert kids' Eg. generalize 0 as i.
    induction Hk as [|k kids Hk1 _ IHk]; intros i kids' Eg.
    - injection Eg as <-. split; constructor.
    - destruct (replace_m f reps (p ++ [i]) k) as [k'|] eqn:E1; [|discriminate].
      match type of Eg with context [?g (S i) kids] => destruct (g (S i) kids) as [r|] eqn:E2 end; [|discriminate].
      injection Eg as <-. destruct (IH _ _ _ _ Hreps Hk1 E1) as [Hv1 Hs1].
      destruct (IHk _ _ E2) as [Hv2 Hs2]. split; constructor; assumption. }
  destruct Hkids as [Hvk Hsk]. split.
  - econstructor; [exact Hl|eapply expands_sim; eauto|exact Hvk].
  - eapply sim_trans; [exact Hsb|apply sim_node].
Qed.

Lemma sim_root s t t' : sim t t' -> root_is s t -> root_is s t'.
Proof.
  intros Hs [k ->]. specialize (Hs (ARef s)). simpl in Hs. rewrite String.eqb_refl in Hs.
  destruct t' as [l|nt k']; simpl in Hs; [discriminate|]. symmetry in Hs. apply String.eqb_eq in Hs. subst. eexists; reflexivity.
Qed.

Theorem replace_derives fuel s t p v t' :
  derives G s t -> valid G v -> replace1 fuel t p v = Some t' -> derives G s t'.
Proof.
  intros [Hr Hv] Hvv H. unfold replace1 in H.
  destruct (replace_valid fuel [(p, v)] [] t t') as [Hv' Hs]; auto.
  split; [eapply sim_root; eauto|exact Hv'].
Qed.

Lemma subtree_valid : forall p t u, valid G t -> subtree_at t p = Some u -> valid G u.
Proof.
  induction p as [|i p IH]; intros t u Hv H; simpl in H; [injection H as <-; exact Hv|].
  destruct t as [l|nt kids]; [discriminate|]. destruct (nth_error kids i) as [k|] eqn:Hn; [|discriminate].
  inversion Hv as [|? ? ? _ _ Hk]; subst. rewrite Forall_forall in Hk.
  apply (IH k u); [apply Hk; eapply nth_error_In; eauto|exact H].
Qed.
End Sim.

(* ---------------------------------------------------------------- search operators
   The operators of the evolutionary loop that build new trees, as functions on a
   population (DESIGN.md C01):  crossover = replace a node of one member by a node of
   another member; mutation = replace a node by a freshly fuzzed tree of any symbol
   (replace refuses when the symbols differ); in both cases the result joins the
   population. *)
Inductive op :=
| OCross (i j : nat) (p q : path) (fuel : nat)
| OMutate (i : nat) (p : path) (nt : string) (tape : list dec) (ffuel fuel : nat)
| OFresh (tape : list dec) (ffuel : nat)
| ODrop (i : nat).

Definition step (G : grammar) (s : string) (pop : list tree) (o : op) : list tree :=
  match o with
  | OCross i j p q fuel =>
      match nth_error pop i, nth_error pop j with
      | Some a, Some b =>
          match subtree_at b q with
          | Some v => match replace1 fuel a p v with Some c => c :: pop | None => pop end
          | None => pop
          end
      | _, _ => pop
      end
  | OMutate i p nt tape ffuel fuel =>
      match nth_error pop i with
      | Some a =>
          match fuzz_start G ffuel nt tape with
          | Some v => match replace1 fuel a p v with Some c => c :: pop | None => pop end
          | None => pop
          end
      | None => pop
      end
  | OFresh tape ffuel =>
      match fuzz_start G ffuel s tape with Some t => t :: pop | None => pop end
  | ODrop i => firstn i pop ++ skipn (S i) pop
  end.

Lemma in_firstn' {X} (x : X) : forall n l, In x (firstn n l) -> In x l.
Proof. induction n as [|n IH]; intros [|y l] H; simpl in *; try tauto. destruct H; auto. Qed.
Lemma in_skipn' {X} (x : X) : forall n l, In x (skipn n l) -> In x l.
Proof. induction n as [|n IH]; intros [|y l] H; simpl in *; try tauto. right. auto. Qed.

Lemma step_derives G s pop o : Forall (derives G s) pop -> Forall (derives G s) (step G s pop o).
Proof.
  intros Hp. assert (Hnth : forall i a, nth_error pop i = Some a -> derives G s a).
  { intros i a Hi. rewrite Forall_forall in Hp. apply Hp. eapply nth_error_In; eauto. }
  destruct o as [i j p q fuel|i p nt tape ffuel fuel|tape ffuel|i]; simpl.
  - destruct (nth_error pop i) as [a|] eqn:Ha; [|exact Hp].
    destruct (nth_error pop j) as [b|] eqn:Hb; [|exact Hp].
    destruct (subtree_at b q) as [v|] eqn:Hv; [|exact Hp].
    destruct (replace1 fuel a p v) as [c|] eqn:Hc; [|exact Hp].
    constructor; [|exact Hp]. eapply replace_derives; [apply (Hnth _ _ Ha)| |exact Hc].
    eapply subtree_valid; [apply (Hnth _ _ Hb)|exact Hv].
  - destruct (nth_error pop i) as [a|] eqn:Ha; [|exact Hp].
    destruct (fuzz_start G ffuel nt tape) as [v|] eqn:Hv; [|exact Hp].
    destruct (replace1 fuel a p v) as [c|] eqn:Hc; [|exact Hp].
    constructor; [|exact Hp]. eapply replace_derives; [apply (Hnth _ _ Ha)| |exact Hc].
    apply (fuzz_derives _ _ _ _ _ Hv).
  - destruct (fuzz_start G ffuel s tape) as [t|] eqn:Ht; [|exact Hp].
    constructor; [eapply fuzz_derives; eauto|exact Hp].
  - rewrite Forall_forall in *. intros x Hx. apply Hp. apply in_app_or in Hx. destruct Hx as [Hx|Hx].
    + eapply in_firstn'; eauto.
    + destruct pop as [|y pop']; [destruct i; simpl in Hx; contradiction|].
      change (skipn (S i) (y :: pop')) with (skipn i pop') in Hx. right. eapply in_skipn'; eauto.
Qed.

Theorem search_derives G s ops : forall pop,
  Forall (derives G s) pop -> Forall (derives G s) (fold_left (step G s) ops pop).
Proof.
  induction ops as [|o ops IH]; intros pop Hp; simpl; [exact Hp|].
  apply IH. apply step_derives. exact Hp.
Qed.
