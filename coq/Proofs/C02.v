(* C02: a tree the evaluator accepts satisfies every hard constraint.
   Glue between the arithmetic half (Proofs/C02Arith.v) and the constraint model. *)
From Coq Require Import List String ZArith Bool Arith Lia.
From FV Require Import Base.Re Base.Grammar Model.ReplaceM Model.SearchM Model.ConstraintM Proofs.C07.
From FV Require Import gen.EvalArith Model.C03Case Proofs.C02Arith.
Import ListNotations.
Open Scope list_scope.

Section Inv.
Variable F Q : finder.
Variable orc : oracle.
Variable lazy : bool.

Definition inv (f : fit) : Prop :=
  solved f <= total f /\ (solved f = total f -> 0 < total f -> success f = true).

Lemma count_expr_inv id e : forall cbs s t s' t', s <= t -> count_expr orc id e cbs s t = Some (s', t') -> s' <= t'.
Proof.
  induction cbs as [|cb cbs IH]; intros s t s' t' Hst H; simpl in H.
  - injection H as <- <-. exact Hst.
  - destruct (ask orc id cb e); try discriminate; eapply IH; try exact H; lia.
Qed.

Lemma count_cmp_inv id e : forall cbs s t f, s <= t -> count_cmp orc id e cbs s t = Fit f -> inv f.
Proof.
  induction cbs as [|cb cbs IH]; intros s t f Hst H; simpl in H.
  - injection H as <-. split; simpl; [exact Hst|]. intros -> _. apply Nat.eqb_refl.
  - destruct (ask orc id cb e); try discriminate; eapply IH; try exact H; lia.
Qed.

Lemma run_seq_inv {X} stop (ev : X -> res) (l : list X) :
  Forall (fun x => forall f, ev x = Fit f -> inv f) l ->
  forall fs, run_seq stop ev l = Some (Some fs) -> Forall inv fs.
Proof.
  induction 1 as [|x l Hx _ IH]; intros fs H; simpl in H.
  - injection H as <-. constructor.
  - destruct (ev x) as [| |f] eqn:E; try discriminate. destruct (stop f).
    + injection H as <-. constructor; [apply Hx; reflexivity|constructor].
    + destruct (run_seq stop ev l) as [[r|]|]; try discriminate. injection H as <-.
      constructor; [apply Hx; reflexivity|apply IH; reflexivity].
Qed.

Lemma sums_le fs : Forall inv fs -> sum_solved fs <= sum_total fs.
Proof. induction 1 as [|f fs [Hf _] _ IH]; simpl; lia. Qed.

Lemma sums_eq_all fs : Forall inv fs -> sum_solved fs = sum_total fs -> Forall (fun f => solved f = total f) fs.
Proof.
  induction 1 as [|f fs [Hf Hs] Hfs IH]; intros H; simpl in H; [constructor|].
  pose proof (sums_le fs Hfs). constructor; [lia|apply IH; lia].
Qed.

Lemma run_seq_short {X} stop (ev : X -> res) (l : list X) fs :
  run_seq stop ev l = Some (Some fs) -> List.length fs <= List.length l.
Proof.
  revert fs. induction l as [|x l IH]; intros fs H; simpl in H.
  - injection H as <-. simpl. lia.
  - destruct (ev x) as [| |f]; try discriminate. destruct (stop f).
    + injection H as <-. simpl. lia.
    + destruct (run_seq stop ev l) as [[r|]|]; try discriminate. injection H as <-. simpl. specialize (IH r eq_refl). lia.
Qed.

Lemma single_case fs (P : bool) : Forall inv fs -> List.length fs <= 1 ->
  sum_solved fs = sum_total fs -> 0 < sum_total fs -> forallb success fs = true /\ existsb success fs = true.
Proof.
  intros Hi Hl Hs Ht. destruct fs as [|f [|g fs]]; simpl in *; try lia.
  inversion Hi as [|? ? [Hf Hsucc] _]; subst. rewrite Hsucc; [auto|lia|lia].
Qed.

Theorem fitness_inv : forall c sc e f, fitness_m F Q orc lazy c sc e = Fit f -> inv f.
Proof.
  induction c as [id ss|id ss|cs IH|cs IH|a b IHa IHb|b s body IH|b s body IH] using constr_ind';
    intros sc e f Hf; cbn [fitness_m] in Hf.
  - destruct (combos F sc ss) as [[|cb cbs]|]; try discriminate.
    + injection Hf as <-. split; simpl; auto.
    + destruct (count_expr orc id e (cb :: cbs) 0 0) as [[s t]|] eqn:E; try discriminate.
      injection Hf as <-. split; simpl; [eapply count_expr_inv; [|exact E]; lia|]. intros -> _. apply Nat.eqb_refl.
  - destruct (combos F sc ss) as [[|cb cbs]|]; try discriminate.
    + injection Hf as <-. split; simpl; auto.
    + eapply count_cmp_inv; [|exact Hf]. lia.
  - destruct (run_seq _ _ cs) as [[fs|]|] eqn:Er; try discriminate.
    assert (Hi : Forall inv fs).
    { eapply run_seq_inv; [|exact Er]. rewrite Forall_forall in *. intros x Hx g Hg. eapply IH; eauto. }
    pose proof (sums_le fs Hi) as Hle. pose proof (run_seq_short _ _ _ _ Er) as Hsh.
    destruct (Nat.ltb_spec 1 (List.length cs)); injection Hf as <-; split; simpl.
    + destruct (forallb success fs); lia.
    + destruct (forallb success fs); [auto|lia].
    + exact Hle.
    + intros Hs Ht. apply (single_case fs true Hi); lia.
  - destruct (run_seq _ _ cs) as [[fs|]|] eqn:Er; try discriminate.
    assert (Hi : Forall inv fs).
    { eapply run_seq_inv; [|exact Er]. rewrite Forall_forall in *. intros x Hx g Hg. eapply IH; eauto. }
    pose proof (sums_le fs Hi) as Hle. pose proof (run_seq_short _ _ _ _ Er) as Hsh.
    destruct (Nat.ltb_spec 1 (List.length cs)); injection Hf as <-; split; simpl.
    + destruct (existsb success fs); lia.
    + destruct (existsb success fs); [auto|lia].
    + exact Hle.
    + intros Hs Ht. apply (single_case fs true Hi); lia.
  - destruct (fitness_m F Q orc lazy a sc e) as [| |fa] eqn:Ea; try discriminate.
    destruct (success fa).
    + destruct (fitness_m F Q orc lazy b sc e) as [| |fb] eqn:Eb; try discriminate.
      injection Hf as <-. destruct (IHb _ _ _ Eb) as [Hle Hs]. split; simpl.
      * destruct (success fb); lia.
      * destruct (success fb); [auto|lia].
    + injection Hf as <-. split; simpl; auto.
  - destruct (Q sc s) as [conts|]; try discriminate.
    destruct (run_seq _ _ conts) as [[fs|]|] eqn:Er; try discriminate.
    assert (Hi : Forall inv fs).
    { eapply run_seq_inv; [|exact Er]. rewrite Forall_forall. intros x _ g Hg. destruct (bind_var b x sc e). eapply IH; eauto. }
    pose proof (sums_le fs Hi) as Hle. injection Hf as <-. split; simpl.
    + destruct (forallb success fs); lia.
    + destruct (forallb success fs); [auto|lia].
  - destruct (Q sc s) as [conts|]; try discriminate.
    destruct (run_seq _ _ conts) as [[fs|]|] eqn:Er; try discriminate.
    assert (Hi : Forall inv fs).
    { eapply run_seq_inv; [|exact Er]. rewrite Forall_forall. intros x _ g Hg. destruct (bind_var b x sc e). eapply IH; eauto. }
    pose proof (sums_le fs Hi) as Hle. injection Hf as <-. split; simpl.
    + destruct (existsb success fs); lia.
    + destruct (existsb success fs); [auto|lia].
Qed.

(* what Evaluator._evaluate_constraints sees of one constraint: (solved, total), or an exception *)
Definition result_of (r : res) : option (Z * Z) :=
  match r with Fit f => Some (Z.of_nat (solved f), Z.of_nat (total f)) | _ => None end.

Definition results (cs : list constr) : list (option (Z * Z)) :=
  map (fun c => result_of (fitness_m F Q orc lazy c [] [])) cs.

Definition accepts (hard : list constr) (rep : list (option (Z * Z))) : bool :=
  snd (evaluate_individual_m (Z.of_nat (List.length hard)) (Z.of_nat (List.length rep)) 0
         (class_fitness (res_of (results hard))) (class_fitness (res_of rep)) PrimFloat.zero PrimFloat.one true).

Lemma ok_item_verdict c : ok_item (result_of (fitness_m F Q orc lazy c [] [])) = true ->
  check_m F Q orc lazy c = VTrue.
Proof.
  unfold check_m. destruct (fitness_m F Q orc lazy c [] []) as [| |f] eqn:E; simpl; try discriminate.
  intros H. apply andb_true_iff in H. destruct H as [H1 H2]. apply Z.eqb_eq in H1. apply Z.ltb_lt in H2.
  destruct (fitness_inv _ _ _ _ E) as [_ Hs]. rewrite Hs; [reflexivity|lia|lia].
Qed.

(* C02: accepted => every hard constraint validates, every repetition-bound result is solved *)
Theorem emitted_sound (hard : list constr) (rep : list (option (Z * Z))) :
  Forall wf_item (results hard) -> Forall wf_item rep ->
  (Z.of_nat (List.length hard) < 65536)%Z -> (Z.of_nat (List.length rep) < 65536)%Z ->
  accepts hard rep = true ->
  Forall (fun c => check_m F Q orc lazy c = VTrue) hard /\ forallb ok_item rep = true.
Proof.
  intros Wh Wr Lh Lr Hacc. unfold accepts in Hacc.
  assert (Hlen : List.length (results hard) = List.length hard) by (unfold results; apply map_length).
  rewrite <- Hlen in Hacc, Lh.
  destruct (accept_implies_all_solved _ _ _ Wh Wr Lh Lr Hacc) as [Hh Hr]. split; [|exact Hr].
  rewrite Forall_forall. intros c Hc. apply ok_item_verdict.
  rewrite forallb_forall in Hh. apply Hh. unfold results. apply in_map_iff. exists c. auto.
Qed.
End Inv.

(* with the documented meaning of C07: every emitted tree satisfies every hard constraint *)
Theorem emitted_sound_documented t0 orc (hard : list constr) (rep : list (option (Z * Z))) :
  (forall id cb e, ask orc id cb e <> OMissing) ->
  Forall (fun c => all_clean t0 c [] [] = true) hard ->
  Forall wf_item (results (code_F t0) (code_Q t0) orc false hard) -> Forall wf_item rep ->
  (Z.of_nat (List.length hard) < 65536)%Z -> (Z.of_nat (List.length rep) < 65536)%Z ->
  accepts (code_F t0) (code_Q t0) orc false hard rep = true ->
  Forall (fun c => verdict_doc t0 orc c = VTrue) hard /\ forallb ok_item rep = true.
Proof.
  intros Hcomp Hcl Wh Wr Lh Lr Hacc.
  destruct (emitted_sound _ _ _ _ hard rep Wh Wr Lh Lr Hacc) as [Hv Hr]. split; [|exact Hr].
  rewrite Forall_forall in *. intros c Hc.
  rewrite <- (check_is_documented t0 orc c Hcomp (Hcl c Hc)). apply Hv. exact Hc.
Qed.

Example c02_nonvacuous :
  let t0 := Node "<s>" [Node "<a>" [Leaf (LPay (PStr [49%N]))]] in
  let c := KExpr 0 [("v", SRule "<a>")] in
  let orc := [(0, [("v", CTree (RPath [0]))], [], OTrue)] in
  accepts (code_F t0) (code_Q t0) orc false [c] [Some (2, 2)%Z] = true /\
  accepts (code_F t0) (code_Q t0) [(0, [("v", CTree (RPath [0]))], [], ORaise)] false [c] [] = false.
Proof. vm_compute. split; reflexivity. Qed.
