(* C02, arithmetic half: if the evaluator accepts a tree (fitness >= 1.0) then every
   hard and every repetition-bound constraint reported solved = total (and none
   raised).  Monotonicity of IEEE rounding against exactly representable bounds. *)
From Coq Require Import ZArith Reals Floats Lia Lra List Bool.
From Flocq Require Import Core BinarySingleNaN PrimFloat.
From FV Require Import gen.EvalArith Model.C03Case Proofs.C03.
Import ListNotations.
Local Instance Hprec : FLX.Prec_gt_0 prec := eq_refl _.
Local Instance Hmax : Prec_lt_emax prec emax := eq_refl _.
Local Notation fexp := (SpecFloat.fexp prec emax).
Local Notation rnd := (round radix2 fexp (round_mode mode_NE)).
Open Scope R_scope.

(* dyadic z * 2^-k with a small numerator is representable *)
Lemma format_dyadic (z : Z) (k : Z) : (Z.abs z < 2^53)%Z -> (0 <= k <= 1000)%Z ->
  generic_format radix2 fexp (IZR z * bpow radix2 (-k)).
Proof.
  intros Hz Hk. apply generic_format_FLT.
  apply (FLT_spec radix2 (SpecFloat.emin prec emax) prec _ (Float radix2 z (-k))).
  - reflexivity.
  - exact Hz.
  - simpl. unfold SpecFloat.emin, emax, prec. lia.
Qed.

Definition bnd (x : PrimFloat.float) (X : R) : Prop :=
  is_finite (Prim2B x) = true /\ 0 <= B2R (Prim2B x) <= X.

Lemma bnd_weaken x X Y : bnd x X -> X <= Y -> bnd x Y.
Proof. intros (F & H0 & H1) H. split; [exact F|lra]. Qed.

Lemma small_lt_emax X : 0 <= X -> X < bpow radix2 60 -> forall v, 0 <= v <= X -> Rabs v < bpow radix2 emax.
Proof.
  intros H0 HX v Hv. rewrite Rabs_pos_eq by lra.
  apply Rle_lt_trans with X; [lra|]. apply Rlt_trans with (bpow radix2 60); [exact HX|].
  apply bpow_lt. unfold emax. lia.
Qed.

Lemma rnd_0 : rnd 0 = 0. Proof. apply round_0. apply valid_rnd_N. Qed.

Lemma rnd_between v X : generic_format radix2 fexp X -> 0 <= v <= X -> 0 <= rnd v <= X.
Proof.
  intros HX [H0 H1]. split.
  - rewrite <- rnd_0. apply round_le; [apply FLT.FLT_exp_valid; reflexivity|apply valid_rnd_N|exact H0].
  - rewrite <- (round_generic radix2 fexp (round_mode mode_NE) X HX).
    apply round_le; [apply FLT.FLT_exp_valid; reflexivity|apply valid_rnd_N|exact H1].
Qed.

Lemma add_bnd x y X Y : bnd x X -> bnd y Y -> generic_format radix2 fexp (X + Y) ->
  X + Y < bpow radix2 60 -> bnd (PrimFloat.add x y) (X + Y).
Proof.
  intros (Fx & Hx0 & Hx1) (Fy & Hy0 & Hy1) HF Hs. unfold bnd. rewrite add_equiv.
  generalize (Bplus_correct prec emax Hprec Hmax mode_NE (Prim2B x) (Prim2B y) Fx Fy).
  assert (Hb : 0 <= rnd (B2R (Prim2B x) + B2R (Prim2B y)) <= X + Y) by (apply rnd_between; [exact HF|lra]).
  rewrite Rlt_bool_true by (apply (small_lt_emax (X + Y)); lra).
  intros (HR & HFi & _). split; [exact HFi|].
  match goal with |- 0 <= ?b <= _ => replace b with (rnd (B2R (Prim2B x) + B2R (Prim2B y))) by (symmetry; exact HR) end.
  exact Hb.
Qed.

Lemma mul_bnd x y X Y : bnd x X -> bnd y Y -> generic_format radix2 fexp (X * Y) ->
  X * Y < bpow radix2 60 -> bnd (PrimFloat.mul x y) (X * Y).
Proof.
  intros (Fx & Hx0 & Hx1) (Fy & Hy0 & Hy1) HF Hs. unfold bnd. rewrite mul_equiv.
  generalize (Bmult_correct prec emax Hprec Hmax mode_NE (Prim2B x) (Prim2B y)).
  assert (Hp : 0 <= B2R (Prim2B x) * B2R (Prim2B y) <= X * Y).
  { split; [apply Rmult_le_pos; lra|apply Rmult_le_compat; lra]. }
  assert (Hb : 0 <= rnd (B2R (Prim2B x) * B2R (Prim2B y)) <= X * Y) by (apply rnd_between; [exact HF|exact Hp]).
  rewrite Rlt_bool_true by (apply (small_lt_emax (X * Y)); lra).
  intros (HR & HFi & _). split; [etransitivity; [exact HFi|rewrite Fx, Fy; reflexivity]|].
  match goal with |- 0 <= ?b <= _ => replace b with (rnd (B2R (Prim2B x) * B2R (Prim2B y))) by (symmetry; exact HR) end.
  exact Hb.
Qed.

(* division by an exact positive integer *)
Lemma div_bnd x y X n Q : bnd x X -> isP y n -> X / IZR n <= Q -> generic_format radix2 fexp Q ->
  Q < bpow radix2 60 -> bnd (PrimFloat.div x y) Q.
Proof.
  intros (Fx & Hx0 & Hx1) ((Hn0 & Fy & Ry) & Hn) HQ HF Hs. unfold bnd. rewrite div_equiv.
  assert (Hnz : B2R (Prim2B y) <> 0) by (rewrite Ry; apply not_0_IZR; lia).
  generalize (Bdiv_correct prec emax Hprec Hmax mode_NE (Prim2B x) (Prim2B y) Hnz).
  assert (Hnpos : 0 < IZR n) by (apply IZR_lt; lia).
  assert (Hq : 0 <= B2R (Prim2B x) / B2R (Prim2B y) <= Q).
  { rewrite Ry. split.
    - apply Rmult_le_pos; [lra|]. apply Rlt_le. apply Rinv_0_lt_compat. exact Hnpos.
    - apply Rle_trans with (X / IZR n); [|exact HQ]. unfold Rdiv. apply Rmult_le_compat_r; [|lra].
      apply Rlt_le. apply Rinv_0_lt_compat. exact Hnpos. }
  assert (Hb : 0 <= rnd (B2R (Prim2B x) / B2R (Prim2B y)) <= Q) by (apply rnd_between; [exact HF|exact Hq]).
  rewrite Rlt_bool_true by (apply (small_lt_emax Q); lra).
  intros (HR & HFi & _). split; [etransitivity; [exact HFi|exact Fx]|].
  match goal with |- 0 <= ?b <= _ => replace b with (rnd (B2R (Prim2B x) / B2R (Prim2B y))) by (symmetry; exact HR) end.
  exact Hb.
Qed.

Lemma isN_bnd x n : isN x n -> bnd x (IZR n).
Proof. intros (H0 & F & R). split; [exact F|]. rewrite R. split; [apply IZR_le; lia|lra]. Qed.

Lemma bnd_lt_one_rejects x X : bnd x X -> X < 1 -> PrimFloat.leb PrimFloat.one x = false.
Proof.
  intros (F & H0 & H1) HX. rewrite leb_equiv.
  replace (Prim2B PrimFloat.one) with (Bone (prec:=prec) (emax:=emax)) by (rewrite one_equiv; now rewrite Prim2B_B2Prim).
  rewrite Bleb_correct; [|apply is_finite_Bone|exact F].
  rewrite Bone_correct. apply Rle_bool_false. lra.
Qed.

(* ------------------------------------------------------------ fractions of integers *)
Lemma Zfrac_le (a b c d : Z) : (0 < b)%Z -> (0 < d)%Z -> (a * d <= c * b)%Z -> IZR a / IZR b <= IZR c / IZR d.
Proof.
  intros Hb Hd H. assert (Hb' : 0 < IZR b) by (apply IZR_lt; lia). assert (Hd' : 0 < IZR d) by (apply IZR_lt; lia).
  apply (Rmult_le_reg_r (IZR b * IZR d)); [apply Rmult_lt_0_compat; assumption|].
  replace (IZR a / IZR b * (IZR b * IZR d)) with (IZR a * IZR d) by (field; lra).
  replace (IZR c / IZR d * (IZR b * IZR d)) with (IZR c * IZR b) by (field; lra).
  rewrite <- !mult_IZR. apply IZR_le. exact H.
Qed.

Lemma frac_frac (a b c : Z) : (0 < b)%Z -> (0 < c)%Z -> IZR a / IZR b / IZR c = IZR a / IZR (b * c).
Proof. intros Hb Hc. rewrite mult_IZR. field. split; apply not_0_IZR; lia. Qed.

Lemma frac_format (z : Z) (k : Z) : (0 <= z < 2^53)%Z -> (0 <= k <= 60)%Z ->
  generic_format radix2 fexp (IZR z / IZR (2 ^ k)).
Proof.
  intros Hz Hk. replace (IZR z / IZR (2^k)) with (IZR z * bpow radix2 (-k)).
  - apply format_dyadic; lia.
  - unfold Rdiv. f_equal. rewrite bpow_opp. f_equal. change 2%Z with (radix_val radix2). rewrite IZR_Zpower by lia. reflexivity.
Qed.

Lemma frac_small (z k : Z) : (0 <= z < 2^53)%Z -> (0 <= k)%Z -> IZR z / IZR (2^k) < bpow radix2 60.
Proof.
  intros Hz Hk. apply Rle_lt_trans with (IZR z).
  - assert (1 <= IZR (2^k)) by (apply IZR_le; assert (0 < 2^k)%Z by (apply Z.pow_pos_nonneg; lia); lia).
    assert (0 <= IZR z) by (apply IZR_le; lia).
    unfold Rdiv. rewrite <- (Rmult_1_r (IZR z)) at 2. apply Rmult_le_compat_l; [assumption|].
    rewrite <- Rinv_1. apply Rinv_le_contravar; lra.
  - apply Rlt_trans with (IZR (2^53)); [apply IZR_lt; lia|].
    change (2^53)%Z with (Zpower radix2 53). rewrite IZR_Zpower by lia. apply bpow_lt. lia.
Qed.

(* ------------------------------------------------------------ per-constraint results *)
Definition ok_item (o : option (Z * Z)) : bool :=
  match o with Some (s, t) => (s =? t)%Z && (0 <? t)%Z | None => false end.
Definition wf_item (o : option (Z * Z)) : Prop :=
  match o with Some (s, t) => (0 <= s <= t)%Z /\ (t < 65536)%Z | None => True end.
Definition ubz (o : option (Z * Z)) : Z := if ok_item o then 65536%Z else 65535%Z.

Lemma item_bnd s t : wf_item (Some (s, t)) -> bnd (constraint_fitness s t) (IZR (ubz (Some (s, t))) / IZR (2^16)).
Proof.
  intros [Hs Ht]. unfold constraint_fitness.
  destruct (Z.eqb_spec t 0) as [->|Hnz]; simpl negb; cbv iota.
  - apply bnd_weaken with (IZR 0); [apply isN_bnd; apply fz_isN; lia|].
    assert (Hok : ok_item (Some (s, 0%Z)) = false) by (simpl; apply andb_false_r).
    unfold ubz. rewrite Hok. apply Rle_trans with (IZR 0 / IZR 1); [unfold Rdiv; lra|]. apply Zfrac_le; lia.
  - apply (div_bnd (fz s) (fz t) (IZR s) t).
    + apply isN_bnd. apply fz_isN. lia.
    + split; [apply fz_isN; lia|lia].
    + unfold ubz, ok_item. destruct (Z.eqb_spec s t) as [->|Hne]; simpl.
      * replace (0 <? t)%Z with true by (symmetry; apply Z.ltb_lt; lia). apply Zfrac_le; lia.
      * apply Zfrac_le; lia.
    + apply frac_format; [unfold ubz; destruct (ok_item _); lia|lia].
    + apply frac_small; [unfold ubz; destruct (ok_item _); lia|lia].
Qed.

Definition sumz (l : list (option (Z * Z))) : Z := fold_right (fun o z => (ubz o + z)%Z) 0%Z l.

Lemma sumz_bounds l : (0 <= sumz l <= 65536 * Z.of_nat (length l))%Z.
Proof. induction l as [|o l IH]; simpl sumz; simpl length; [lia|]. unfold ubz at 1 2. destruct (ok_item o); lia. Qed.

Lemma sumz_bad l : forallb ok_item l = false -> (sumz l <= 65536 * Z.of_nat (length l) - 1)%Z.
Proof.
  induction l as [|o l IH]; simpl; [discriminate|]. intros H. pose proof (sumz_bounds l). unfold ubz.
  destruct (ok_item o); simpl in H; [specialize (IH H)|]; lia.
Qed.

Lemma sum_bnd : forall l acc A, Forall wf_item l -> bnd acc (IZR A / IZR (2^16)) -> (0 <= A)%Z ->
  (A + 65536 * Z.of_nat (length l) < 2^40)%Z ->
  bnd (fold_left (fun acc r => match r with Some f => PrimFloat.add acc f | None => acc end) (res_of l) acc)
      (IZR (A + sumz l) / IZR (2^16)).
Proof.
  induction l as [|o l IH]; intros acc A Hwf Hacc HA Hlen.
  - simpl. rewrite Z.add_0_r. exact Hacc.
  - inversion Hwf as [|? ? Ho Hl]; subst. cbn [res_of map fold_left sumz fold_right].
    replace (A + (ubz o + fold_right (fun o z => (ubz o + z)%Z) 0%Z l))%Z with ((A + ubz o) + sumz l)%Z by (unfold sumz; lia).
    assert (Hu : (65535 <= ubz o <= 65536)%Z) by (unfold ubz; destruct (ok_item o); lia).
    simpl length in Hlen.
    destruct o as [[s t]|].
    + apply IH; [exact Hl| |lia|lia].
      replace (IZR (A + ubz (Some (s, t))) / IZR (2^16)) with (IZR A / IZR (2^16) + IZR (ubz (Some (s, t))) / IZR (2^16))
        by (rewrite plus_IZR; field; apply not_0_IZR; lia).
      apply add_bnd; [exact Hacc|apply item_bnd; exact Ho| |].
      * replace (IZR A / IZR (2^16) + IZR (ubz (Some (s, t))) / IZR (2^16)) with (IZR (A + ubz (Some (s, t))) / IZR (2^16))
          by (rewrite plus_IZR; field; apply not_0_IZR; lia).
        apply frac_format; lia.
      * replace (IZR A / IZR (2^16) + IZR (ubz (Some (s, t))) / IZR (2^16)) with (IZR (A + ubz (Some (s, t))) / IZR (2^16))
          by (rewrite plus_IZR; field; apply not_0_IZR; lia).
        apply frac_small; lia.
    + apply IH; [exact Hl| |lia|lia].
      apply bnd_weaken with (IZR A / IZR (2^16)); [exact Hacc|]. apply Zfrac_le; lia.
Qed.

Definition cz (l : list (option (Z * Z))) : Z := if forallb ok_item l then (2^32)%Z else (2^32 - 1)%Z.

Lemma res_of_length l : length (res_of l) = length l.
Proof. unfold res_of. apply map_length. Qed.

Lemma class_bnd l : Forall wf_item l -> (Z.of_nat (length l) < 65536)%Z ->
  bnd (class_fitness (res_of l)) (IZR (cz l) / IZR (2^32)).
Proof.
  intros Hwf Hlen. unfold class_fitness. rewrite res_of_length.
  destruct l as [|o l].
  - simpl. apply bnd_weaken with (IZR 1); [apply isN_bnd; apply fz_isN; lia|].
    unfold cz. simpl forallb. cbv iota. apply Rle_trans with (IZR 1 / IZR 1); [simpl; lra|]. apply Zfrac_le; lia.
  - set (k := length (o :: l)) in *. replace (Nat.eqb k 0) with false by reflexivity. cbv zeta.
    assert (Hk : (0 < Z.of_nat k)%Z) by (unfold k; simpl; lia).
    assert (H0 : bnd (fz 0) (IZR 0 / IZR (2^16))).
    { apply bnd_weaken with (IZR 0); [apply isN_bnd; apply fz_isN; lia|]. unfold Rdiv. rewrite Rmult_0_l. lra. }
    pose proof (sum_bnd (o :: l) (fz 0) 0 Hwf H0 ltac:(lia) ltac:(fold k; lia)) as HS.
    rewrite Z.add_0_l in HS.
    apply (div_bnd _ (fz (Z.of_nat k)) (IZR (sumz (o :: l)) / IZR (2^16)) (Z.of_nat k)); [exact HS|split; [apply fz_isN; lia|lia]| | |].
    + pose proof (sumz_bounds (o :: l)) as Hb. fold k in Hb.
      unfold cz. destruct (forallb ok_item (o :: l)) eqn:Ef.
      * rewrite frac_frac by lia. apply Zfrac_le; lia.
      * pose proof (sumz_bad _ Ef) as Hbad. fold k in Hbad.
        rewrite frac_frac by lia. apply Zfrac_le; [lia|lia|nia].
    + apply frac_format; [unfold cz; destruct (forallb _ _); lia|lia].
    + apply frac_small; [unfold cz; destruct (forallb _ _); lia|lia].
Qed.

Lemma cz_range l : (2^32 - 1 <= cz l <= 2^32)%Z.
Proof. unfold cz. destruct (forallb ok_item l); lia. Qed.

Lemma not_all_ok_nonempty l : forallb ok_item l = false -> (1 <= Z.of_nat (length l))%Z.
Proof. destruct l; simpl; [discriminate|lia]. Qed.

(* the weighted, normalised fitness stays below 1 - 2^-49 as soon as one constraint of
   either class is not fully solved (or raised) *)
Lemma reject_unsolved (hs rs : list (option (Z * Z))) soft :
  Forall wf_item hs -> Forall wf_item rs ->
  (Z.of_nat (length hs) < 65536)%Z -> (Z.of_nat (length rs) < 65536)%Z ->
  forallb ok_item hs && forallb ok_item rs = false ->
  snd (evaluate_individual_m (Z.of_nat (length hs)) (Z.of_nat (length rs)) 0
         (class_fitness (res_of hs)) (class_fitness (res_of rs)) soft PrimFloat.one true) = false.
Proof.
  intros Wh Wr Lh Lr Hbad.
  set (h := Z.of_nat (length hs)) in *. set (r := Z.of_nat (length rs)) in *.
  assert (Hh0 : (0 <= h)%Z) by (unfold h; lia). assert (Hr0 : (0 <= r)%Z) by (unfold r; lia).
  pose proof (class_bnd hs Wh Lh) as Bh. pose proof (class_bnd rs Wr Lr) as Br.
  pose proof (cz_range hs) as Ch. pose proof (cz_range rs) as Cr.
  set (N := (cz hs * h + cz rs * r)%Z).
  assert (HN : (0 <= N <= 2^32 * (h + r) - 1)%Z /\ (1 <= h + r)%Z).
  { unfold N.
    assert (E32 : (2^32 = 4294967296)%Z) by reflexivity. rewrite E32 in *.
    assert (M1 : (0 <= cz hs * h <= 4294967296 * h)%Z) by (split; [apply Z.mul_nonneg_nonneg; lia|apply Z.mul_le_mono_nonneg_r; lia]).
    assert (M2 : (0 <= cz rs * r <= 4294967296 * r)%Z) by (split; [apply Z.mul_nonneg_nonneg; lia|apply Z.mul_le_mono_nonneg_r; lia]).
    apply andb_false_iff in Hbad. destruct Hbad as [Hb | Hb].
    - pose proof (not_all_ok_nonempty _ Hb) as Hne. fold h in Hne.
      assert (M3 : (cz hs * h = 4294967295 * h)%Z) by (unfold cz; rewrite Hb; reflexivity). lia.
    - pose proof (not_all_ok_nonempty _ Hb) as Hne. fold r in Hne.
      assert (M3 : (cz rs * r = 4294967295 * r)%Z) by (unfold cz; rewrite Hb; reflexivity). lia. }
  destruct HN as [HN Hpos].
  (* hf * h *)
  assert (B1 : bnd (PrimFloat.mul (class_fitness (res_of hs)) (fz h)) (IZR (cz hs * h) / IZR (2^32))).
  { replace (IZR (cz hs * h) / IZR (2^32)) with (IZR (cz hs) / IZR (2^32) * IZR h)
      by (rewrite mult_IZR; field; apply not_0_IZR; lia).
    apply mul_bnd; [exact Bh|apply isN_bnd; apply fz_isN; lia| |];
      (replace (IZR (cz hs) / IZR (2^32) * IZR h) with (IZR (cz hs * h) / IZR (2^32))
         by (rewrite mult_IZR; field; apply not_0_IZR; lia)); [apply frac_format; [nia|lia]|apply frac_small; [nia|lia]]. }
  assert (B2 : bnd (PrimFloat.mul (class_fitness (res_of rs)) (fz r)) (IZR (cz rs * r) / IZR (2^32))).
  { replace (IZR (cz rs * r) / IZR (2^32)) with (IZR (cz rs) / IZR (2^32) * IZR r)
      by (rewrite mult_IZR; field; apply not_0_IZR; lia).
    apply mul_bnd; [exact Br|apply isN_bnd; apply fz_isN; lia| |];
      (replace (IZR (cz rs) / IZR (2^32) * IZR r) with (IZR (cz rs * r) / IZR (2^32))
         by (rewrite mult_IZR; field; apply not_0_IZR; lia)); [apply frac_format; [nia|lia]|apply frac_small; [nia|lia]]. }
  assert (B3 : bnd (PrimFloat.add (PrimFloat.mul (class_fitness (res_of hs)) (fz h))
                                  (PrimFloat.mul (class_fitness (res_of rs)) (fz r))) (IZR N / IZR (2^32))).
  { unfold N. replace (IZR (cz hs * h + cz rs * r) / IZR (2^32)) with (IZR (cz hs * h) / IZR (2^32) + IZR (cz rs * r) / IZR (2^32))
      by (rewrite plus_IZR; field; apply not_0_IZR; lia).
    apply add_bnd; [exact B1|exact B2| |];
      (replace (IZR (cz hs * h) / IZR (2^32) + IZR (cz rs * r) / IZR (2^32)) with (IZR (cz hs * h + cz rs * r) / IZR (2^32))
         by (rewrite plus_IZR; field; apply not_0_IZR; lia)); [apply frac_format; [fold N; nia|lia]|apply frac_small; [fold N; nia|lia]]. }
  assert (Hdiv : forall x, bnd x (IZR N / IZR (2^32)) ->
                  PrimFloat.leb PrimFloat.one (PrimFloat.div x (fz (h + r))) = false).
  { intros x Bx. apply (bnd_lt_one_rejects _ (IZR (2^49 - 1) / IZR (2^49))).
    - apply (div_bnd x (fz (h + r)) (IZR N / IZR (2^32)) (h + r)); [exact Bx|split; [apply fz_isN; lia|lia]| | |].
      + rewrite frac_frac by lia. apply Zfrac_le; [lia|lia|nia].
      + apply frac_format; lia.
      + apply frac_small; lia.
    - apply (Rmult_lt_reg_r (IZR (2^49))); [apply IZR_lt; lia|].
      replace (IZR (2^49 - 1) / IZR (2^49) * IZR (2^49)) with (IZR (2^49 - 1)) by (field; apply not_0_IZR; lia).
      rewrite Rmult_1_l. apply IZR_lt. lia. }
  unfold evaluate_individual_m. cbv zeta. rewrite Z.add_0_r.
  replace (h + r >? 0)%Z with true by (symmetry; apply Z.gtb_lt; lia).
  replace (0 >? 0)%Z with false by reflexivity.
  destruct (Z.gtb_spec r 0) as [Hrp|Hr]; cbn [fst snd andb].
  - rewrite (Hdiv _ B3). reflexivity.
  - assert (r = 0)%Z by lia.
    assert (Bx : bnd (PrimFloat.mul (class_fitness (res_of hs)) (fz h)) (IZR N / IZR (2^32))).
    { unfold N. replace (cz hs * h + cz rs * r)%Z with (cz hs * h)%Z by lia. exact B1. }
    rewrite (Hdiv _ Bx). reflexivity.
Qed.

Theorem accept_implies_all_solved (hs rs : list (option (Z * Z))) soft :
  Forall wf_item hs -> Forall wf_item rs ->
  (Z.of_nat (length hs) < 65536)%Z -> (Z.of_nat (length rs) < 65536)%Z ->
  snd (evaluate_individual_m (Z.of_nat (length hs)) (Z.of_nat (length rs)) 0
         (class_fitness (res_of hs)) (class_fitness (res_of rs)) soft PrimFloat.one true) = true ->
  forallb ok_item hs = true /\ forallb ok_item rs = true.
Proof.
  intros Wh Wr Lh Lr Hacc.
  destruct (forallb ok_item hs && forallb ok_item rs) eqn:E; [apply andb_true_iff; exact E|].
  rewrite (reject_unsolved hs rs soft Wh Wr Lh Lr E) in Hacc. discriminate.
Qed.

(* non-vacuity + the raising case: one raising constraint among three keeps the tree out *)
Example reject_raising :
  snd (evaluate_individual_m 3 0 0 (class_fitness (res_of [Some (2, 2); None; Some (1, 1)]%Z))
         (class_fitness (res_of [])) PrimFloat.zero PrimFloat.one true) = false.
Proof. vm_compute. reflexivity. Qed.
