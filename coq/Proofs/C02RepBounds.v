(* C02: facts about the model of RepetitionBoundsConstraint.fitness *)
From Coq Require Import List Arith Bool ZArith Lia.
From FV Require Import Model.RepBoundsM.
Import ListNotations.
Open Scope list_scope.

(* document order on child-index paths: [before p m] = p comes strictly before m at their first difference *)
Inductive first_diff_lt : path -> path -> Prop :=
| fd_here a b p m : a < b -> first_diff_lt (a :: p) (b :: m)
| fd_next a p m : first_diff_lt p m -> first_diff_lt (a :: p) (a :: m).

(* the in-bounds test rejects a candidate exactly when it lies AFTER the repetition's anchor at their first difference;
   ancestors, descendants and everything before the anchor are in bounds *)
Theorem in_bounds_spec : forall m p, in_bounds m p = false <-> first_diff_lt m p.
Proof.
  induction m as [|a m IH]; intros p; cbn [in_bounds].
  - split; [discriminate|]. intros H; inversion H.
  - destruct p as [|b p]; [split; [discriminate|intros H; inversion H]|].
    destruct (Nat.ltb b a) eqn:E1.
    + apply Nat.ltb_lt in E1. split; [discriminate|]. intros H. inversion H; subst; lia.
    + apply Nat.ltb_ge in E1. destruct (Nat.ltb a b) eqn:E2.
      * apply Nat.ltb_lt in E2. split; auto. intros _. constructor. exact E2.
      * apply Nat.ltb_ge in E2. assert (a = b) by lia. subst b. rewrite IH. split.
        -- intros H. apply fd_next. exact H.
        -- intros H. inversion H; subst; [lia|assumption].
Qed.

(* the bound is read from the LAST match that is in bounds: the nearest count field before (or around) the repetition *)
Theorem bound_value_last cands m v : bound_value (BSearch cands) m = Some v ->
  exists pre p post, cands = pre ++ (p, v) :: post /\ in_bounds m p = true /\ Forall (fun c => in_bounds m (fst c) = false) post.
Proof.
  cbn [bound_value]. intros H.
  induction cands as [|[p0 v0] cands IH] using rev_ind; [discriminate|].
  rewrite filter_app in H. cbn [filter fst] in H. destruct (in_bounds m p0) eqn:E.
  - rewrite rev_app_distr in H. cbn in H. inversion H; subst.
    exists cands, p0, []. repeat split; auto. 
  - cbn [app] in H. rewrite app_nil_r in H. destruct (IH H) as (pre & p & post & Ec & Hin & Hpost).
    exists pre, p, (post ++ [(p0, v0)]). repeat split; auto.
    + rewrite Ec. rewrite <- app_assoc. reflexivity.
    + apply Forall_app. split; auto.
Qed.

Theorem bound_value_none cands m : bound_value (BSearch cands) m = None -> Forall (fun c => in_bounds m (fst c) = false) cands.
Proof.
  cbn [bound_value]. intros H. destruct (rev (filter (fun c => in_bounds m (fst c)) cands)) eqn:E; [|discriminate].
  assert (F : filter (fun c => in_bounds m (fst c)) cands = []).
  { rewrite <- (rev_involutive (filter _ cands)), E. reflexivity. }
  clear -F. induction cands as [|c cands IH]; constructor; cbn [filter] in F; destruct (in_bounds m (fst c)) eqn:Ec; try discriminate; auto.
Qed.

(* success means: every repetition instance has a number of rounds within the bounds read at its anchor *)
Theorem count_ok_all bmin bmax : forall g n, count_ok bmin bmax g = Some n ->
  (n = List.length g <-> Forall (fun e => group_ok bmin bmax (snd e) = Some true) g) /\ n <= List.length g.
Proof.
  induction g as [|[it l] g IH]; intros n H; cbn [count_ok] in H.
  - inversion H; subst. split; [split; auto|]; cbn; lia.
  - destruct (group_ok bmin bmax l) as [b|] eqn:Eb; [|discriminate].
    destruct (count_ok bmin bmax g) as [k|] eqn:Ek; [|discriminate]. inversion H; subst.
    destruct (IH k eq_refl) as [Hiff Hle]. cbn [List.length]. split; [|destruct b; lia].
    split.
    + intros Hn. destruct b; [|lia]. constructor; [cbn; exact Eb|]. apply Hiff. lia.
    + intros Hf. inversion Hf as [|? ? H1 H2]; subst. cbn [snd] in H1. rewrite Eb in H1. inversion H1; subst.
      apply Hiff in H2. lia.
Qed.
