(* C03: the fitness arithmetic accepts every fully solved tree.  Proofs over Flocq.
   The model FV.gen.EvalArith is regenerated from /repo on every run. *)
From Coq Require Import ZArith Reals Floats Lia Lra List Bool.
From Flocq Require Import Core BinarySingleNaN PrimFloat.
From FV Require Import gen.EvalArith.
Import ListNotations.
Local Instance Hprec : FLX.Prec_gt_0 prec := eq_refl _.
Local Instance Hmax : Prec_lt_emax prec emax := eq_refl _.
Local Notation fexp := (SpecFloat.fexp prec emax).
Local Notation rnd := (round radix2 fexp (round_mode mode_NE)).

Lemma rnd_Z n : (Z.abs n < 2^53)%Z -> rnd (IZR n) = IZR n.
Proof.
  intros Hn. apply round_generic; [apply valid_rnd_N|].
  apply generic_format_FLT.
  apply (FLT_spec radix2 (SpecFloat.emin prec emax) prec (IZR n) (Float radix2 n 0)).
  - unfold F2R; simpl. lra.
  - simpl. exact Hn.
  - simpl. unfold SpecFloat.emin, emax, prec. lia.
Qed.

Lemma IZR_lt_emax n : (Z.abs n < 2^53)%Z -> (Rabs (IZR n) < bpow radix2 emax)%R.
Proof.
  intros Hn. rewrite <- abs_IZR.
  apply Rlt_trans with (IZR (2^53)). now apply IZR_lt.
  change (2^53)%Z with (Zpower radix2 53). rewrite IZR_Zpower by lia.
  apply bpow_lt. unfold emax. lia.
Qed.

Definition isN (x : PrimFloat.float) (n : Z) :=
  (0 <= n)%Z /\ is_finite (Prim2B x) = true /\ B2R (Prim2B x) = IZR n.
Definition isP (x : PrimFloat.float) (n : Z) := isN x n /\ (0 < n)%Z.

Lemma fz_isN n : (0 <= n < 2^53)%Z -> isN (fz n) n.
Proof.
  intros Hn. unfold isN, fz. split; [lia|].
  rewrite of_int63_equiv.
  assert (Hz : Uint63.to_Z (Uint63.of_Z n) = n).
  { rewrite Uint63.of_Z_spec. apply Z.mod_small. unfold Uint63.wB, Uint63.size. simpl. lia. }
  rewrite Hz.
  generalize (binary_normalize_correct prec emax Hprec Hmax mode_NE n 0 false).
  simpl. replace (F2R (Float radix2 n 0)) with (IZR n) by (unfold F2R; simpl; lra).
  rewrite rnd_Z by lia. rewrite Rlt_bool_true by (apply IZR_lt_emax; lia).
  intros (HR & HF & _). split; assumption.
Qed.

Lemma add_isN x y a b : isN x a -> isN y b -> (a + b < 2^53)%Z -> isN (PrimFloat.add x y) (a + b).
Proof.
  intros (Ha & Fx & Rx) (Hb & Fy & Ry) Hs. unfold isN. split; [lia|].
  rewrite add_equiv.
  generalize (Bplus_correct prec emax Hprec Hmax mode_NE (Prim2B x) (Prim2B y) Fx Fy).
  rewrite Rx, Ry, <- plus_IZR. rewrite rnd_Z by lia.
  rewrite Rlt_bool_true by (apply IZR_lt_emax; lia).
  intros (HR & HF & _). split; assumption.
Qed.

Lemma mul_isN x y a b : isN x a -> isN y b -> (a * b < 2^53)%Z -> isN (PrimFloat.mul x y) (a * b).
Proof.
  intros (Ha & Fx & Rx) (Hb & Fy & Ry) Hs. unfold isN. split; [lia|].
  rewrite mul_equiv.
  generalize (Bmult_correct prec emax Hprec Hmax mode_NE (Prim2B x) (Prim2B y)).
  rewrite Rx, Ry, <- mult_IZR. rewrite rnd_Z by lia.
  rewrite Rlt_bool_true by (apply IZR_lt_emax; lia).
  intros (HR & HF & _). rewrite Fx, Fy in HF. split; assumption.
Qed.

Lemma isP_inj x y n : isP x n -> isP y n -> x = y.
Proof.
  intros ((_ & Fx & Rx) & Hn) ((_ & Fy & Ry) & _).
  apply Prim2B_inj. apply B2R_inj.
  - destruct (Prim2B x); try discriminate; simpl in *; auto.
    apply eq_IZR in Rx. lia.
  - destruct (Prim2B y); try discriminate; simpl in *; auto.
    apply eq_IZR in Ry. lia.
  - congruence.
Qed.

Lemma div_self_one (x : PrimFloat.float) :
  is_finite (Prim2B x) = true -> B2R (Prim2B x) <> 0%R -> (PrimFloat.div x x = PrimFloat.one).
Proof.
  intros Hf Hz.
  apply Prim2B_inj. rewrite div_equiv.
  replace (Prim2B PrimFloat.one) with (Bone (prec:=prec) (emax:=emax)).
  2:{ rewrite one_equiv. now rewrite Prim2B_B2Prim. }
  generalize (Bdiv_correct prec emax Hprec Hmax mode_NE (Prim2B x) (Prim2B x) Hz).
  set (b := Prim2B x) in *.
  assert (Hq : (B2R b / B2R b = 1)%R) by (field; exact Hz).
  rewrite Hq.
  assert (Hr : rnd 1 = 1%R) by (apply (rnd_Z 1); simpl; lia).
  rewrite Hr. rewrite Rabs_R1.
  rewrite Rlt_bool_true.
  2:{ replace 1%R with (bpow radix2 0) by reflexivity. apply bpow_lt. unfold emax; lia. }
  intros (HR & HF & HS).
  apply B2R_Bsign_inj.
  - exact (eq_trans HF Hf).
  - apply is_finite_Bone.
  - etransitivity; [exact HR|]. symmetry. apply Bone_correct.
  - etransitivity; [apply HS|].
    + generalize (eq_trans HF Hf). destruct (Bdiv mode_NE b b); simpl; congruence.
    + rewrite Bsign_Bone. destruct (Bsign b); reflexivity.
Qed.

Lemma isP_div_self x n : isP x n -> PrimFloat.div x x = PrimFloat.one.
Proof.
  intros ((_ & Fx & Rx) & Hn). apply div_self_one; [exact Fx|].
  rewrite Rx. apply not_0_IZR. lia.
Qed.

Lemma fz1 : fz 1 = PrimFloat.one. Proof. reflexivity. Qed.

Lemma constraint_fitness_solved t : (0 < t < 2^53)%Z -> constraint_fitness t t = PrimFloat.one.
Proof.
  intros Ht. unfold constraint_fitness.
  destruct (Z.eqb_spec t 0) as [->|_]; [lia|]. simpl.
  apply (isP_div_self _ t). split; [apply fz_isN; lia|lia].
Qed.

Lemma fold_ones k : forall acc a, isN acc a -> (a + Z.of_nat k < 2^53)%Z ->
  isN (fold_left (fun acc r => match r with Some f => PrimFloat.add acc f | None => acc end)
         (repeat (Some PrimFloat.one) k) acc) (a + Z.of_nat k).
Proof.
  induction k as [|k IH]; intros acc a Ha Hk.
  - simpl. rewrite Z.add_0_r. exact Ha.
  - cbn [repeat fold_left].
    replace (a + Z.of_nat (S k))%Z with ((a + 1) + Z.of_nat k)%Z by lia.
    apply IH; [|lia]. apply add_isN; [exact Ha| |lia].
    rewrite <- fz1. apply fz_isN. lia.
Qed.

Lemma class_fitness_solved k : (Z.of_nat k < 2^53)%Z ->
  class_fitness (repeat (Some PrimFloat.one) k) = PrimFloat.one.
Proof.
  intros Hk. unfold class_fitness. rewrite repeat_length.
  destruct k as [|k]; [reflexivity|].
  replace (Nat.eqb (S k) 0) with false by reflexivity.
  cbv zeta.
  assert (H0 : isN (fz 0) 0) by (apply fz_isN; lia).
  pose proof (fold_ones (S k) (fz 0) 0 H0 ltac:(lia)) as HN.
  rewrite Z.add_0_l in HN.
  set (s := fold_left _ _ _) in *.
  assert (Hs : isP s (Z.of_nat (S k))) by (split; [exact HN|lia]).
  assert (Hf : isP (fz (Z.of_nat (S k))) (Z.of_nat (S k))) by (split; [apply fz_isN; lia|lia]).
  rewrite <- (isP_inj _ _ _ Hs Hf). apply (isP_div_self _ _ Hs).
Qed.

(* C03: a tree for which every hard constraint and every repetition-bound
   constraint is fully solved is accepted, for all counts h, r. *)
Lemma accepts_solved_arith (h r : Z) soft :
  (0 <= h)%Z -> (0 <= r)%Z -> (h + r < 2^53)%Z ->
  snd (evaluate_individual_m h r 0 PrimFloat.one PrimFloat.one soft PrimFloat.one true) = true.
Proof.
  intros Hh Hr Hs. unfold evaluate_individual_m. cbv zeta.
  rewrite Z.add_0_r.
  assert (H1 : isN PrimFloat.one 1) by (rewrite <- fz1; apply fz_isN; lia).
  destruct (Z.gtb_spec (h + r) 0) as [Hpos|Hz].
  2:{ (* no constraints at all *) 
      assert (r = 0)%Z by lia. subst r. reflexivity. }
  assert (Hm : isN (PrimFloat.mul PrimFloat.one (fz h)) h).
  { replace h with (1 * h)%Z at 2 by lia. apply mul_isN; [exact H1|apply fz_isN; lia|lia]. }
  destruct (Z.gtb_spec r 0) as [Hrp|Hr0].
  - cbn [fst snd]. 
    assert (Hm2 : isN (PrimFloat.mul PrimFloat.one (fz r)) r).
    { replace r with (1 * r)%Z at 2 by lia. apply mul_isN; [exact H1|apply fz_isN; lia|lia]. }
    pose proof (add_isN _ _ _ _ Hm Hm2 Hs) as Hsum.
    replace (0 >? 0)%Z with false by reflexivity. cbn [andb].
    set (s := PrimFloat.add _ _) in *.
    assert (Hsp : isP s (h + r)) by (split; [exact Hsum|lia]).
    assert (Hf : isP (fz (h + r)) (h + r)) by (split; [apply fz_isN; lia|lia]).
    rewrite <- (isP_inj _ _ _ Hsp Hf). rewrite (isP_div_self _ _ Hsp). reflexivity.
  - assert (r = 0)%Z by lia. subst r. rewrite Z.add_0_r in *.
    replace (0 >? 0)%Z with false by reflexivity. cbn [andb].
    set (s := PrimFloat.mul _ _) in *.
    assert (Hsp : isP s h) by (split; [exact Hm|lia]).
    assert (Hf : isP (fz h) h) by (split; [apply fz_isN; lia|lia]).
    rewrite <- (isP_inj _ _ _ Hsp Hf). rewrite (isP_div_self _ _ Hsp). reflexivity.
Qed.

Definition solved_results (totals : list Z) : list (option PrimFloat.float) :=
  map (fun t => Some (constraint_fitness t t)) totals.

Lemma solved_results_ones ts : Forall (fun t => 0 < t < 2^53)%Z ts ->
  solved_results ts = repeat (Some PrimFloat.one) (length ts).
Proof.
  induction 1 as [|t ts Ht _ IH]; [reflexivity|].
  cbn [solved_results map length repeat]. rewrite constraint_fitness_solved by exact Ht.
  f_equal. exact IH.
Qed.

Lemma accepts_solved_full (hs rs : list Z) soft :
  Forall (fun t => 0 < t < 2^53)%Z hs -> Forall (fun t => 0 < t < 2^53)%Z rs ->
  (Z.of_nat (length hs) + Z.of_nat (length rs) < 2^53)%Z ->
  snd (evaluate_individual_m (Z.of_nat (length hs)) (Z.of_nat (length rs)) 0
         (class_fitness (solved_results hs)) (class_fitness (solved_results rs))
         soft PrimFloat.one true) = true.
Proof.
  intros Hh Hr Hs.
  rewrite (solved_results_ones _ Hh), (solved_results_ones _ Hr).
  rewrite !class_fitness_solved by lia.
  apply accepts_solved_arith; lia.
Qed.

(* order of declaration is irrelevant: only the counts enter *)
Lemma accepts_solved_perm (hs hs' rs rs' : list Z) soft :
  Forall (fun t => 0 < t < 2^53)%Z hs -> Forall (fun t => 0 < t < 2^53)%Z rs ->
  length hs' = length hs -> length rs' = length rs ->
  Forall (fun t => 0 < t < 2^53)%Z hs' -> Forall (fun t => 0 < t < 2^53)%Z rs' ->
  evaluate_individual_m (Z.of_nat (length hs')) (Z.of_nat (length rs')) 0
         (class_fitness (solved_results hs')) (class_fitness (solved_results rs')) soft PrimFloat.one true
  = evaluate_individual_m (Z.of_nat (length hs)) (Z.of_nat (length rs)) 0
         (class_fitness (solved_results hs)) (class_fitness (solved_results rs)) soft PrimFloat.one true.
Proof.
  intros Hh Hr Lh Lr Hh' Hr'.
  rewrite (solved_results_ones _ Hh), (solved_results_ones _ Hr),
          (solved_results_ones _ Hh'), (solved_results_ones _ Hr'), Lh, Lr. reflexivity.
Qed.

(* non-vacuity: the pair that the unrepaired arithmetic rejected *)
Example accepts_1_5 :
  evaluate_individual_m 1 5 0 (class_fitness (solved_results [3%Z]))
    (class_fitness (solved_results [1;2;3;4;5]%Z)) PrimFloat.zero PrimFloat.one true = (PrimFloat.one, true).
Proof. vm_compute. reflexivity. Qed.

(* a raising constraint or an unsolved one keeps the tree out (used by C02) *)
Example rejects_unsolved :
  snd (evaluate_individual_m 2 0 0 (class_fitness [Some PrimFloat.one; None]) PrimFloat.one PrimFloat.zero PrimFloat.one true) = false.
Proof. vm_compute. reflexivity. Qed.
