(* C04: chart soundness.  Every state admitted to the chart holds children that spell the
   consumed part of its rule over exactly the input bits between its origin and its column;
   hence every tree yielded is a derivation (w.r.t. the compiled rules) of exactly the input. *)
From Coq Require Import List Arith Bool String NArith Lia.
From FV Require Import Base.Re Base.Grammar Model.ReplaceM Model.C01Case Model.EarleyM.
Import ListNotations.
Open Scope list_scope.

Section Spell.
Variable g : crules.
Variable inp : input.

Definition re_leaf (us : list N) : leaf := LPay (if is_bytes inp then PBytes us else PStr us).

(* ms syms kids i j : the trees [kids] spell the symbols [syms] over input bits [i, j) *)
Inductive ms : list sy -> list tree -> nat -> nat -> Prop :=
| ms_nil i : ms [] [] i i
| ms_lit p syms kids i j :
    is_prefix (lit_units p) (skipn (i / 8) (units inp)) = true ->
    ms syms kids (i + 8 * List.length (lit_units p)) j ->
    ms (ST (TLit p) :: syms) (Leaf (slice_leaf inp p (lit_units p)) :: kids) i j
| ms_bit b u syms kids i j :
    nth_error (units inp) (i / 8) = Some u ->
    Bool.eqb (N.testbit u (N.of_nat (7 - i mod 8))) b = true ->
    ms syms kids (S i) j ->
    ms (ST (TBit b) :: syms) (Leaf (LBit b) :: kids) i j
| ms_re id l syms kids i j :
    re_len (re_at inp) id (i / 8) = Some (S l) ->
    ms syms kids (i + 8 * S l) j ->
    ms (ST (TRe id) :: syms) (Leaf (re_leaf (firstn (S l) (skipn (i / 8) (units inp)))) :: kids) i j
| ms_named a alts alt ks syms kids i m j :
    rlookup g a = Some (true, alts) -> In alt alts -> ms alt ks i m -> ms syms kids m j ->
    ms (SN a :: syms) (Node a ks :: kids) i j
| ms_implicit a alts alt ks syms kids i m j :
    rlookup g a = Some (false, alts) -> In alt alts -> ms alt ks i m -> ms syms kids m j ->
    ms (SN a :: syms) (ks ++ kids) i j.

Lemma ms_app s1 k1 i m : ms s1 k1 i m -> forall s2 k2 j, ms s2 k2 m j -> ms (s1 ++ s2) (k1 ++ k2) i j.
Proof.
  induction 1 as [i|p syms kids i j Hp _ IH|b u syms kids i j Hu Hb _ IH|id l syms kids i j Hr _ IH
                  |a alts alt ks syms kids i m j Hl Hin Ha _ _ IH|a alts alt ks syms kids i m j Hl Hin Ha _ _ IH];
    intros s2 k2 j' H2; simpl.
  - exact H2.
  - apply ms_lit; auto.
  - eapply ms_bit; eauto.
  - apply ms_re; auto.
  - eapply ms_named; eauto.
  - rewrite <- app_assoc. eapply ms_implicit; eauto.
Qed.

Lemma ms_le s k i j : ms s k i j -> i <= j.
Proof. induction 1; lia. Qed.

Variable start : string.
(* the internal start symbol is not a symbol of the compiled grammar *)
Hypothesis start_fresh : start <> startnt.
Hypothesis startnt_unused : forall nt nm alts alt, rlookup g nt = Some (nm, alts) -> In alt alts -> ~ In (SN startnt) alt.

(* a state is justified: its rule belongs to its nonterminal and its children spell the part before the dot *)
Definition rule_ok (s : st) : Prop :=
  (snt s = startnt /\ srl s = [SN start] /\ sorg s = 0) \/
  (snt s <> startnt /\ exists nm alts, rlookup g (snt s) = Some (nm, alts) /\ In (srl s) alts).

Definition item_ok (k : nat) (s : st) : Prop :=
  rule_ok s /\ ms (firstn (sdot s) (srl s)) (skids s) (sorg s) k.

Definition tab_ok (t : table) : Prop := forall k s, In s (col t k) -> item_ok k s.

(* ---- table plumbing *)
Lemma col_upd_in {X} (t : list (list X)) : forall k f k' x,
  In x (nth k' (upd t k f) []) -> (k' <> k /\ In x (nth k' t [])) \/ (k' = k /\ In x (f (nth k t []))).
Proof.
  induction t as [|c t IH]; intros k f k' x H; simpl in H.
  - destruct k'; simpl in H; contradiction.
  - destruct k as [|k]; simpl in H.
    + destruct k' as [|k']; simpl in *; [right; auto|left; split; [lia|exact H]].
    + destruct k' as [|k']; simpl in *; [left; split; [lia|exact H]|].
      destruct (IH k f k' x H) as [[Hne Hin] | [-> Hin]]; [left; split; [lia|exact Hin]|right; auto].
Qed.

Lemma col_upd_keep {X} (t : list (list X)) : forall k (f : list X -> list X) k' x,
  (forall c, In x c -> In x (f c)) -> In x (nth k' t []) -> In x (nth k' (upd t k f) []).
Proof.
  induction t as [|c t IH]; intros k f k' x Hf H; simpl in *; [exact H|].
  destruct k as [|k]; destruct k' as [|k']; simpl in *; auto.
Qed.

Lemma col_add_in t k s k' s' : In s' (col (add t k s) k') -> In s' (col t k') \/ (k' = k /\ s' = s).
Proof.
  unfold add, col. destruct (existsb (st_eqb s) (nth k t [])); [auto|].
  intros H. apply col_upd_in in H. destruct H as [[_ H] | [-> H]]; [auto|].
  apply in_app_or in H. destruct H as [H | [<- | []]]; auto.
Qed.

Lemma col_add_keep t k s k' s' : In s' (col t k') -> In s' (col (add t k s) k').
Proof.
  unfold add, col. destruct (existsb (st_eqb s) (nth k t [])); [auto|].
  intros H. apply col_upd_keep; [|exact H]. intros c Hc. apply in_or_app. left. exact Hc.
Qed.

Lemma tab_ok_add t k s : tab_ok t -> item_ok k s -> tab_ok (add t k s).
Proof.
  intros Ht Hs k' s' Hin. apply col_add_in in Hin. destruct Hin as [Hin | [-> ->]]; [apply Ht; exact Hin|exact Hs].
Qed.

Lemma firstn_S_nth {X} (l : list X) n x : nth_error l n = Some x -> firstn (S n) l = firstn n l ++ [x].
Proof.
  revert n. induction l as [|y l IH]; intros n H; [destruct n; discriminate|].
  destruct n as [|n]; simpl in *; [injection H as ->; reflexivity|]. rewrite (IH n H). reflexivity.
Qed.

Lemma firstn_all_none {X} (l : list X) n : nth_error l n = None -> firstn n l = l.
Proof. intros H. apply nth_error_None in H. apply firstn_all2. exact H. Qed.

(* advancing over one symbol *)
Lemma adv_ok k k' s x extra : item_ok k s -> next_sym s = Some x -> ms [x] extra k k' -> item_ok k' (adv s extra).
Proof.
  intros [Hr Hm] Hn Hx. split; [exact Hr|]. unfold adv. cbn [srl sdot skids sorg]. unfold next_sym in Hn.
  rewrite (firstn_S_nth _ _ _ Hn). eapply ms_app; eauto.
Qed.

(* nothing waits for the internal start symbol *)
Lemma nobody_waits_for_start x : rule_ok x -> next_sym x <> Some (SN startnt).
Proof.
  intros [[_ [Hr _]] | [_ (nm & alts & Hl & Hin)]] Hn; unfold next_sym in Hn.
  - rewrite Hr in Hn. destruct (sdot x) as [|[|d]]; simpl in Hn; try discriminate. injection Hn as E. exact (start_fresh E).
  - apply nth_error_In in Hn. exact (startnt_unused _ _ _ _ Hl Hin Hn).
Qed.

(* ---- the inference steps *)
Lemma complete_loop_ok fuel : forall t k s j, tab_ok t -> In s (col t k) -> next_sym s = None ->
  tab_ok (complete_loop fuel g t k s j).
Proof.
  induction fuel as [|f IH]; intros t k s j Ht Hs Hn; simpl; [exact Ht|].
  set (waiting := filter _ (col t (sorg s))).
  destruct (nth_error waiting j) as [x|] eqn:Ex; [|exact Ht].
  assert (Hxin : In x waiting) by (eapply nth_error_In; eauto).
  unfold waiting in Hxin. apply filter_In in Hxin. destruct Hxin as [Hxc Hxw].
  destruct (next_sym x) as [[tm|a]|] eqn:Enx; try discriminate. apply String.eqb_eq in Hxw. subst a.
  pose proof (Ht _ _ Hxc) as Hx. pose proof (Ht _ _ Hs) as [Hsr Hsm].
  rewrite (firstn_all_none _ _ Hn) in Hsm.
  apply IH; [|apply col_add_keep; exact Hs|exact Hn].
  apply tab_ok_add; [exact Ht|].
  eapply adv_ok; [exact Hx|exact Enx|].
  destruct Hsr as [[Hst _] | [_ (nm & alts & Hl & Hin)]].
  - exfalso. rewrite Hst in Enx. exact (nobody_waits_for_start x (proj1 Hx) Enx).
  - rewrite Hl. destruct nm.
    + eapply ms_named; [exact Hl|exact Hin|exact Hsm|]. constructor.
    + replace (skids s) with (skids s ++ []) by apply app_nil_r.
      eapply ms_implicit; [exact Hl|exact Hin|exact Hsm|]. constructor.
Qed.

Lemma predict_ok t k a alts nm : tab_ok t -> rlookup g a = Some (nm, alts) -> a <> startnt ->
  forall rs, incl rs alts -> tab_ok (fold_left (fun t' r => add t' k (mk a k r 0 [])) rs t).
Proof.
  intros Ht Hl Hne rs. revert t Ht. induction rs as [|r rs IH]; intros t Ht Hi; simpl; [exact Ht|].
  apply IH; [|intros y Hy; apply Hi; right; exact Hy].
  apply tab_ok_add; [exact Ht|]. split; simpl.
  - right. split; [exact Hne|]. exists nm, alts. split; [exact Hl|apply Hi; left; reflexivity].
  - constructor.
Qed.

Lemma step_ok cf t k s : tab_ok t -> In s (col t k) -> tab_ok (step cf g inp t k s).
Proof.
  intros Ht Hs. unfold step. pose proof (Ht _ _ Hs) as Hi.
  destruct (next_sym s) as [[[p|b|id]|a]|] eqn:En.
  - destruct (Nat.eqb (k mod 8) 0); [|exact Ht]. cbn [andb].
    destruct (is_prefix (lit_units p) (skipn (k / 8) (units inp))) eqn:Ep; [|exact Ht].
    apply tab_ok_add; [exact Ht|]. eapply adv_ok; [exact Hi|exact En|]. apply ms_lit; [exact Ep|constructor].
  - destruct (nth_error (units inp) (k / 8)) as [u|] eqn:Eu; [|exact Ht].
    destruct (Bool.eqb (N.testbit u (N.of_nat (7 - k mod 8))) b) eqn:Eb; [|exact Ht].
    apply tab_ok_add; [exact Ht|]. eapply adv_ok; [exact Hi|exact En|]. eapply ms_bit; eauto. constructor.
  - destruct (Nat.eqb (k mod 8) 0); [|exact Ht].
    destruct (re_len (re_at inp) id (k / 8)) as [[|l]|] eqn:Er; try exact Ht.
    apply tab_ok_add; [exact Ht|]. eapply adv_ok; [exact Hi|exact En|]. apply ms_re; [exact Er|constructor].
  - destruct (rlookup g a) as [[nm alts]|] eqn:El; [|exact Ht].
    eapply predict_ok; [exact Ht|exact El| |apply incl_refl].
    intros ->. exact (nobody_waits_for_start s (proj1 Hi) En).
  - apply complete_loop_ok; assumption.
Qed.

Lemma step_keeps cf t k s k' s' : In s' (col t k') -> In s' (col (step cf g inp t k s) k').
Proof.
  intros H. unfold step.
  destruct (next_sym s) as [[[p|b|id]|a]|].
  - destruct (Nat.eqb (k mod 8) 0 && is_prefix _ _); [apply col_add_keep|]; exact H.
  - destruct (nth_error _ _); [|exact H]. destruct (Bool.eqb _ _); [apply col_add_keep|]; exact H.
  - destruct (if Nat.eqb (k mod 8) 0 then re_len _ _ _ else None) as [[|l]|]; try exact H. apply col_add_keep. exact H.
  - destruct (rlookup g a) as [[nm alts]|]; [|exact H].
    revert t H. induction alts as [|r rs IH]; intros t H; simpl; [exact H|]. apply IH. apply col_add_keep. exact H.
  - generalize 0 as j. revert t H. induction cf as [|f IH]; intros t H j; simpl; [exact H|].
    destruct (nth_error _ j); [|exact H]. apply IH. apply col_add_keep. exact H.
Qed.

Lemma process_col_ok fuel cf : forall t k i, tab_ok t -> tab_ok (process_col fuel cf g inp t k i).
Proof.
  induction fuel as [|f IH]; intros t k i Ht; simpl; [exact Ht|].
  destruct (nth_error (col t k) i) as [s|] eqn:E; [|exact Ht].
  apply IH. apply step_ok; [exact Ht|]. eapply nth_error_In; eauto.
Qed.

Lemma run_cols_ok fuel : forall n t k, tab_ok t -> tab_ok (run_cols fuel g inp t k n).
Proof.
  induction n as [|n IH]; intros t k Ht; simpl; [exact Ht|]. apply IH. apply process_col_ok. exact Ht.
Qed.

Lemma nth_repeat_nil {X} n k : nth k (repeat (@nil X) n) [] = [].
Proof. revert k. induction n as [|n IH]; intros [|k]; simpl; auto. Qed.

Theorem chart_ok fuel : tab_ok (chart fuel g start inp).
Proof.
  unfold chart. apply run_cols_ok. apply tab_ok_add.
  - intros k s H. unfold col in H. rewrite nth_repeat_nil in H. contradiction.
  - split; simpl; [left; auto|constructor].
Qed.

(* every yielded tree belongs to a child list that spells the start symbol over the whole input *)
Theorem chart_sound fuel t : In t (parse_raw fuel g start inp) ->
  exists kids, In t kids /\ ms [SN start] kids 0 (8 * List.length (units inp)).
Proof.
  unfold parse_raw. intros H. apply in_flat_map in H. destruct H as (s & Hs & Ht).
  destruct (String.eqb (snt s) startnt && Nat.eqb (sdot s) 1) eqn:E; [|contradiction].
  apply andb_true_iff in E. destruct E as [E1 E2]. apply String.eqb_eq in E1. apply Nat.eqb_eq in E2.
  destruct (chart_ok fuel _ _ Hs) as [Hr Hm].
  destruct Hr as [[_ [Hrl Ho]] | [Hne _]]; [|congruence].
  rewrite Hrl, E2, Ho in Hm. simpl in Hm. exists (skids s). split; assumption.
Qed.

(* when the start symbol is a declared nonterminal: one tree, rooted in it, built by one of its rules *)
Corollary chart_sound_named fuel t alts : rlookup g start = Some (true, alts) ->
  In t (parse_raw fuel g start inp) ->
  exists alt ks, t = Node start ks /\ In alt alts /\ ms alt ks 0 (8 * List.length (units inp)).
Proof.
  intros Hl Hin. destruct (chart_sound fuel t Hin) as (kids & Ht & Hm).
  inversion Hm as [| | | |a alts' alt ks syms kids' i m j Hl' Hin' Ha Hrest|a alts' alt ks syms kids' i m j Hl' Hin' Ha Hrest]; subst.
  - rewrite Hl in Hl'. injection Hl' as <-. inversion Hrest; subst. destruct Ht as [<- | []].
    exists alt, ks. auto.
  - rewrite Hl in Hl'. discriminate.
Qed.
End Spell.

(* ---- collapse: helper symbols disappear, the leaves stay *)
Fixpoint no_helper_node (t : tree) : bool :=
  match t with
  | Leaf _ => true
  | Node n kids => negb (is_helper n) && forallb no_helper_node kids
  end.

Lemma collapse_spec : forall t, forallb no_helper_node (collapse t) = true /\ flat_map leaves (collapse t) = leaves t.
Proof.
  induction t as [l|n kids IH] using tree_ind'; [simpl; auto|].
  simpl.
  set (k' := (fix go (l : list tree) : list tree := match l with [] => [] | x :: l' => collapse x ++ go l' end) kids).
  assert (Hk : forallb no_helper_node k' = true /\ flat_map leaves k' = flat_map leaves kids).
  { unfold k'. clear k'. induction IH as [|k kids [Hk1 Hk2] _ IHk]; simpl; [auto|].
    destruct IHk as [I1 I2]. rewrite forallb_app, Hk1, I1, flat_map_app, Hk2, I2. auto. }
  destruct Hk as [H1 H2]. destruct (is_helper n) eqn:E; simpl.
  - auto.
  - rewrite E, H1. simpl. rewrite app_nil_r. auto.
Qed.

Theorem collapse_no_helper t : forallb no_helper_node (collapse t) = true.
Proof. apply collapse_spec. Qed.
Theorem collapse_keeps_leaves t : flat_map leaves (collapse t) = leaves t.
Proof. apply collapse_spec. Qed.

(* ---- byte-level grammars: the leaves of a spelled child list are exactly the input units *)
Section Yield.
Variable g : crules.
Variable inp : input.

Definition nobit_sy (s : sy) : bool := match s with ST (TBit _) => false | _ => true end.
Hypothesis g_nobits : forall nt nm alts alt, rlookup g nt = Some (nm, alts) -> In alt alts -> forallb nobit_sy alt = true.
(* the regex oracle never claims a match that runs past the input *)
Hypothesis re_wf : forall id w l, re_len (re_at inp) id w = Some l -> w + l <= List.length (units inp).

Definition kid_units (kids : list tree) : list N :=
  flat_map (fun l => match l with LPay p => lit_units p | LBit _ => [] end) (flat_map leaves kids).

Lemma is_prefix_spec : forall p w, is_prefix p w = true -> firstn (List.length p) w = p /\ List.length p <= List.length w.
Proof.
  induction p as [|a p IH]; intros w H; simpl in *; [split; [reflexivity|lia]|].
  destruct w as [|b w]; [discriminate|]. apply andb_true_iff in H. destruct H as [Hab Hp]. apply N.eqb_eq in Hab. subst b.
  destruct (IH w Hp) as [E L]. simpl. rewrite E. split; [reflexivity|lia].
Qed.

Lemma firstn_add' {X} : forall a b (v : list X), firstn a v ++ firstn b (skipn a v) = firstn (a + b) v.
Proof.
  induction a as [|a IH]; intros b v; simpl; [reflexivity|].
  destruct v as [|x v]; simpl; [destruct b; reflexivity|]. rewrite IH. reflexivity.
Qed.

Lemma skipn_skipn' {X} : forall a w (u : list X), skipn a (skipn w u) = skipn (w + a) u.
Proof.
  intros a w. revert a. induction w as [|w IH]; intros a u; simpl; [reflexivity|].
  destruct u as [|x u]; [destruct a; reflexivity|apply IH].
Qed.

Lemma firstn_skipn_join {X} (u : list X) w a b : w + a <= List.length u ->
  firstn a (skipn w u) ++ firstn b (skipn (w + a) u) = firstn (a + b) (skipn w u).
Proof. intros _. rewrite <- firstn_add', skipn_skipn'. reflexivity. Qed.

Definition leaf_u (l : leaf) : list N := match l with LPay p => lit_units p | LBit _ => [] end.
Lemma kid_units_leaf l kids : kid_units (Leaf l :: kids) = leaf_u l ++ kid_units kids.
Proof. unfold kid_units. simpl. rewrite ?app_nil_r. reflexivity. Qed.
Lemma re_leaf_units us : leaf_u (re_leaf inp us) = us.
Proof. unfold re_leaf, leaf_u, lit_units. destruct (is_bytes inp); reflexivity. Qed.
Lemma slice_leaf_units' p us : leaf_u (slice_leaf inp p us) = us.
Proof. unfold slice_leaf, leaf_u, lit_units. destruct (is_bytes inp); reflexivity. Qed.

Lemma kid_units_app ks kids : kid_units (ks ++ kids) = kid_units ks ++ kid_units kids.
Proof. unfold kid_units. rewrite !flat_map_app. reflexivity. Qed.
Lemma kid_units_node a ks kids : kid_units (Node a ks :: kids) = kid_units ks ++ kid_units kids.
Proof. unfold kid_units. simpl. rewrite flat_map_app. reflexivity. Qed.
Lemma join2 {X} (u : list X) w wm w' : w <= wm -> wm <= w' ->
  firstn (wm - w) (skipn w u) ++ firstn (w' - wm) (skipn wm u) = firstn (w' - w) (skipn w u).
Proof.
  intros H1 H2. replace (skipn wm u) with (skipn (w + (wm - w)) u) by (f_equal; lia).
  rewrite <- skipn_skipn', firstn_add'. f_equal. lia.
Qed.

Lemma slice_leaf_units p us : (match slice_leaf inp p us with LPay q => lit_units q | LBit _ => [] end) = us.
Proof. unfold slice_leaf. destruct (is_bytes inp); reflexivity. Qed.

Lemma ms_yield syms kids i j : ms g inp syms kids i j -> forallb nobit_sy syms = true ->
  forall w, i = 8 * w -> w <= List.length (units inp) ->
  exists w', j = 8 * w' /\ w <= w' /\ w' <= List.length (units inp) /\
             kid_units kids = firstn (w' - w) (skipn w (units inp)).
Proof.
  induction 1 as [i|p syms kids i j Hp _ IH|b u syms kids i j Hu Hb _ IH|id l syms kids i j Hr _ IH
                  |a alts alt ks syms kids i m j Hl Hin Ha IHa _ IHr|a alts alt ks syms kids i m j Hl Hin Ha IHa _ IHr];
    intros Hnb w Hi Hw; simpl in Hnb.
  - exists w. repeat split; try lia. rewrite Nat.sub_diag. reflexivity.
  - subst i. rewrite Nat.mul_comm, Nat.div_mul in Hp by lia.
    destruct (is_prefix_spec _ _ Hp) as [E L]. rewrite skipn_length in L.
    set (n := List.length (lit_units p)) in *.
    destruct (IH Hnb (w + n)) as (w' & Hj & Hle & Hlen & Hk); [lia|lia|].
    exists w'. repeat split; try lia.
    rewrite kid_units_leaf, slice_leaf_units', Hk, <- E.
    replace (w' - w) with (n + (w' - (w + n))) by lia. fold n. apply firstn_skipn_join. lia.
  - discriminate.
  - subst i. rewrite Nat.mul_comm, Nat.div_mul in * by lia.
    pose proof (re_wf _ _ _ Hr) as Hb.
    destruct (IH Hnb (w + S l)) as (w' & Hj & Hle & Hlen & Hk); [lia|lia|].
    exists w'. repeat split; try lia.
    rewrite kid_units_leaf, re_leaf_units, Hk.
    replace (w' - w) with (S l + (w' - (w + S l))) by lia. apply firstn_skipn_join. lia.
  - destruct (IHa (g_nobits _ _ _ _ Hl Hin) w Hi Hw) as (wm & Hm & Hle1 & Hlen1 & Hk1).
    destruct (IHr Hnb wm Hm Hlen1) as (w' & Hj & Hle2 & Hlen2 & Hk2).
    exists w'. repeat split; try lia.
    rewrite kid_units_node. unfold kid_units in *. rewrite Hk1, Hk2. apply join2; lia.
  - destruct (IHa (g_nobits _ _ _ _ Hl Hin) w Hi Hw) as (wm & Hm & Hle1 & Hlen1 & Hk1).
    destruct (IHr Hnb wm Hm Hlen1) as (w' & Hj & Hle2 & Hlen2 & Hk2).
    exists w'. repeat split; try lia.
    rewrite kid_units_app. unfold kid_units in *. rewrite Hk1, Hk2. apply join2; lia.
Qed.

(* the serialisation of what is yielded equals the input exactly *)
Theorem yield_is_input start kids : ms g inp [SN start] kids 0 (8 * List.length (units inp)) ->
  kid_units kids = units inp.
Proof.
  intros H. destruct (ms_yield _ _ _ _ H eq_refl 0 eq_refl ltac:(lia)) as (w' & Hj & _ & Hlen & Hk).
  assert (w' = List.length (units inp)) by lia. subst w'. rewrite Hk, Nat.sub_0_r. simpl. apply firstn_all.
Qed.
End Yield.
