(* C05: what is generated parses back; every word of the language is accepted.
   Proved here: the scanner and prediction steps of the chart model lose nothing (one-step completeness),
   and the two recorded departures are exhibited on the faithful model.  The closure/induction argument
   (Earley completeness) is not proved: PARTIAL, see DESIGN.md. *)
From Coq Require Import List Arith Bool String NArith Lia.
From FV Require Import Base.Re Base.Grammar Model.ReplaceM Model.C01Case Model.EarleyM Model.C04Case Model.C05Case Proofs.C04.
Import ListNotations.
Open Scope list_scope.

Lemma col_upd_here {X} (t : list (list X)) : forall k f, k < List.length t -> nth k (upd t k f) [] = f (nth k t []).
Proof.
  induction t as [|c t IH]; intros k f Hk; simpl in Hk; [lia|].
  destruct k as [|k]; simpl; [reflexivity|]. apply IH. lia.
Qed.

(* Column.add never loses the state it was given *)
Lemma add_present t k s : k < List.length t -> exists s', In s' (col (add t k s) k) /\ st_eqb s s' = true.
Proof.
  intros Hk. unfold add. destruct (existsb (st_eqb s) (col t k)) eqn:E.
  - apply existsb_exists in E. destruct E as (s' & Hin & He). exists s'. auto.
  - unfold col. rewrite col_upd_here by exact Hk. exists s. split; [apply in_or_app; right; left; reflexivity|].
    unfold st_eqb. rewrite String.eqb_refl, Nat.eqb_refl, Nat.eqb_refl.
    assert (Hsy : forall l, list_eqb sy_eqb l l = true).
    { induction l as [|x l IH]; simpl; [reflexivity|]. rewrite IH, andb_true_r. destruct x as [[p|b|i]|n]; simpl.
      - destruct p; simpl; apply (list_eqb_eq N.eqb N.eqb_eq); reflexivity.
      - destruct b; reflexivity.
      - apply N.eqb_refl.
      - apply String.eqb_refl. }
    assert (Htr : forall t0, tree_eqb t0 t0 = true).
    { induction t0 as [l|n kids IH] using tree_ind'; simpl.
      - destruct l as [[p|p]|b]; simpl; try (apply (list_eqb_eq N.eqb N.eqb_eq); reflexivity). destruct b; reflexivity.
      - rewrite String.eqb_refl. simpl. induction IH as [|x l Hx _ IHl]; [reflexivity|]. rewrite Hx, IHl. reflexivity. }
    assert (Hts : forall l, list_eqb tree_eqb l l = true).
    { induction l as [|x l IH]; simpl; [reflexivity|]. rewrite Htr, IH. reflexivity. }
    rewrite Hsy, Hts. reflexivity.
Qed.

(* scanning a literal that is present at the current position admits the advanced state *)
Theorem scan_literal_complete cf g inp t k s p :
  next_sym s = Some (ST (TLit p)) ->
  k mod 8 = 0 ->
  is_prefix (lit_units p) (skipn (k / 8) (units inp)) = true ->
  k + 8 * List.length (lit_units p) < List.length t ->
  exists s', In s' (col (step cf g inp t k s) (k + 8 * List.length (lit_units p))) /\
             st_eqb (adv s [Leaf (slice_leaf inp p (lit_units p))]) s' = true.
Proof. intros Hn Ha Hp Hk. unfold step. rewrite Hn, Hp, Ha. apply add_present. exact Hk. Qed.

(* the recorded departures, on the faithful model *)
Definition g_empty_regex : crules := [("<start>", (true, [[ST (TRe 0); ST (TLit (PStr [98%N]))]]))].
Example empty_regex_match_refuted :
  (* <start> ::= r"a*" "b" on the word "b": re.match gives the empty match at 0 *)
  parse_m 50 g_empty_regex "<start>" {| units := [98%N]; is_bytes := false; re_at := [(0%N, 0, 0); (0%N, 1, 0)] |} = [].
Proof. vm_compute. reflexivity. Qed.

Definition g_nullable : crules :=
  [("<start>", (true, [[SN "<a>"; SN "<b>"; ST (TLit (PStr [120%N]))]]));
   ("<a>", (true, [[SN "<e>"]])); ("<b>", (true, [[SN "<e>"]])); ("<e>", (true, [[ST (TLit (PStr []))]]))].
Example nullable_reprediction_refuted :
  parse_m 50 g_nullable "<start>" {| units := [120%N]; is_bytes := false; re_at := [] |} = [].
Proof. vm_compute. reflexivity. Qed.

(* non-vacuity: an ordinary word is accepted by the model *)
Example accepts_member :
  parse_m 50 [("<start>", (true, [[ST (TLit (PStr [97%N])); SN "<start>"]; [ST (TLit (PStr [98%N]))]]))] "<start>"
    {| units := [97%N; 97%N; 98%N]; is_bytes := false; re_at := [] |}
  = [Node "<start>" [Leaf (LPay (PStr [97%N])); Node "<start>" [Leaf (LPay (PStr [97%N])); Node "<start>" [Leaf (LPay (PStr [98%N]))]]]].
Proof. vm_compute. reflexivity. Qed.
