(* C06: termination of the chart model, as stability under more fuel. *)
From Coq Require Import List Arith Bool String NArith Lia.
From FV Require Import Base.Re Base.Grammar Model.ReplaceM Model.C01Case Model.EarleyM Model.EarleyFuelM.
Import ListNotations.
Open Scope list_scope.

Lemma complete_loop_stable g k s : forall f t j t', complete_loop_x f g t k s j = (t', false) ->
  forall d, complete_loop_x (f + d) g t k s j = (t', false).
Proof.
  induction f as [|f IH]; intros t j t' H d.
  - simpl in H. destruct d; simpl.
    + exact H.
    + destruct (nth_error _ j); [discriminate|exact H].
  - simpl in H |- *. destruct (nth_error _ j); [|exact H]. apply IH. exact H.
Qed.

Lemma step_x_stable g inp t k s cf t' : step_x cf g inp t k s = (t', false) -> forall d, step_x (cf + d) g inp t k s = (t', false).
Proof.
  unfold step_x. intros H d. destruct (next_sym s) as [[[p|b|id]|a]|] eqn:E.
  - injection H as <-. unfold step. rewrite E. reflexivity.
  - injection H as <-. unfold step. rewrite E. reflexivity.
  - injection H as <-. unfold step. rewrite E. reflexivity.
  - injection H as <-. unfold step. rewrite E. reflexivity.
  - apply complete_loop_stable. exact H.
Qed.

Lemma process_col_stable g inp k : forall f cf t i t', process_col_x f cf g inp t k i = (t', false) ->
  forall d d', process_col_x (f + d) (cf + d') g inp t k i = (t', false).
Proof.
  induction f as [|f IH]; intros cf t i t' H d d'.
  - simpl in H. destruct (nth_error (col t k) i) eqn:E; [discriminate|].
    destruct d; simpl; rewrite E; exact H.
  - simpl in H |- *. destruct (nth_error (col t k) i) as [s|]; [|exact H].
    destruct (step_x cf g inp t k s) as [t1 x] eqn:Es. destruct x; [discriminate|].
    rewrite (step_x_stable _ _ _ _ _ _ _ Es d'). apply IH. exact H.
Qed.

Lemma run_cols_stable g inp : forall n f t k t', run_cols_x f g inp t k n = (t', false) ->
  forall d, run_cols_x (f + d) g inp t k n = (t', false).
Proof.
  induction n as [|n IH]; intros f t k t' H d; simpl in *; [exact H|].
  destruct (process_col_x f f g inp t k 0) as [t1 x] eqn:Ep. destruct x; [discriminate|].
  rewrite (process_col_stable _ _ _ _ _ _ _ _ Ep d d). apply IH. exact H.
Qed.

(* a run that emptied its work lists is a fixpoint: any larger amount of fuel gives the same chart *)
Theorem terminated_is_stable fuel g start inp t : chart_x fuel g start inp = (t, false) ->
  forall d, chart_x (fuel + d) g start inp = (t, false).
Proof. unfold chart_x. intros H d. apply run_cols_stable. exact H. Qed.

(* the instrumented chart is the chart *)
Lemma complete_loop_x_fst g k s : forall f t j, snd (complete_loop_x f g t k s j) = false ->
  fst (complete_loop_x f g t k s j) = complete_loop f g t k s j.
Proof.
  induction f as [|f IH]; intros t j H; simpl in *.
  - destruct (nth_error _ j); [discriminate|reflexivity].
  - destruct (nth_error _ j); [|reflexivity]. apply IH. exact H.
Qed.

(* the recorded finding: an optional body under a repetition -- the work lists grow with the fuel *)
Definition g_opt_star : crules :=
  [("<start>", (true, [[SN "<__star>"]])); ("<__star>", (true, [[SN "<*0*>"]]));
   ("<*0*>", (false, [[]; [SN "<__opt>"; SN "<*0*>"]])); ("<__opt>", (true, [[]; [ST (TLit (PStr [97%N]))]]))].
Example nullable_loop_exhausts_any_fuel_sampled :
  let inp := {| units := [97%N; 97%N]; is_bytes := false; re_at := [] |} in
  snd (work 30 g_opt_star "<start>" inp) = false /\ snd (work 60 g_opt_star "<start>" inp) = false /\
  snd (work 120 g_opt_star "<start>" inp) = false /\
  fst (work 30 g_opt_star "<start>" inp) < fst (work 60 g_opt_star "<start>" inp) /\
  fst (work 60 g_opt_star "<start>" inp) < fst (work 120 g_opt_star "<start>" inp).
Proof. vm_compute. repeat split; lia. Qed.

Example ordinary_grammar_terminates :
  work 50 [("<start>", (true, [[ST (TLit (PStr [97%N])); SN "<start>"]; [ST (TLit (PStr [98%N]))]]))] "<start>"
    {| units := [97%N; 97%N; 98%N]; is_bytes := false; re_at := [] |} = (13, true).
Proof. vm_compute. reflexivity. Qed.
