(* C07: the code-shaped evaluation computes the documented verdict; lazy = eager. *)
From Coq Require Import List String ZArith Bool Arith Lia.
From FV Require Import Base.Re Base.Grammar Model.ReplaceM Model.SearchM Model.ConstraintM.
Import ListNotations.
Open Scope list_scope.

Section ConstrInd.
  Variable P : constr -> Prop.
  Hypothesis HExpr : forall id ss, P (KExpr id ss).
  Hypothesis HCmp : forall id ss, P (KCmp id ss).
  Hypothesis HAnd : forall cs, Forall P cs -> P (KAnd cs).
  Hypothesis HOr : forall cs, Forall P cs -> P (KOr cs).
  Hypothesis HImp : forall a b, P a -> P b -> P (KImp a b).
  Hypothesis HAll : forall b s body, P body -> P (KAll b s body).
  Hypothesis HAny : forall b s body, P body -> P (KAny b s body).
  Fixpoint constr_ind' (c : constr) : P c :=
    let fix go (l : list constr) : Forall P l :=
      match l with [] => Forall_nil _ | c' :: l' => Forall_cons _ (constr_ind' c') (go l') end in
    match c with
    | KExpr id ss => HExpr id ss
    | KCmp id ss => HCmp id ss
    | KAnd cs => HAnd cs (go cs)
    | KOr cs => HOr cs (go cs)
    | KImp a b => HImp a b (constr_ind' a) (constr_ind' b)
    | KAll b s body => HAll b s body (constr_ind' body)
    | KAny b s body => HAny b s body (constr_ind' body)
    end.
End ConstrInd.

Section Thm.
Variable F Q : finder.
Variable orc : oracle.
(* the oracle table answers every question it is asked *)
Hypothesis complete : forall id cb e, ask orc id cb e <> OMissing.

Definition agree (r : res) (v : rv) : Prop :=
  match r, v with
  | Raised, RX => True
  | Fit f, RT => success f = true
  | Fit f, RF => success f = false
  | _, _ => False
  end.

Lemma count_expr_spec id e : forall cbs s t, s <= t ->
  exists s' t', count_expr orc id e cbs s t = Some (s', t') /\ s' <= t' /\
    (Nat.eqb s' t' = true <-> (s = t /\ atom_ref_expr orc id e cbs = RT)) /\
    (atom_ref_expr orc id e cbs = RT \/ atom_ref_expr orc id e cbs = RF).
Proof.
  induction cbs as [|cb cbs IH]; intros s t Hst.
  - exists s, t. simpl. split; [reflexivity|]. split; [exact Hst|]. split; [|left; reflexivity].
    rewrite Nat.eqb_eq. tauto.
  - simpl. pose proof (complete id cb e) as Hc.
    assert (Hfalse : forall (Hstep : count_expr orc id e (cb :: cbs) s t = count_expr orc id e cbs s (S t))
                            (Hr : atom_ref_expr orc id e (cb :: cbs) = rv_and RF (atom_ref_expr orc id e cbs)),
               exists s' t', count_expr orc id e (cb :: cbs) s t = Some (s', t') /\ s' <= t' /\
                 (Nat.eqb s' t' = true <-> (s = t /\ atom_ref_expr orc id e (cb :: cbs) = RT)) /\
                 (atom_ref_expr orc id e (cb :: cbs) = RT \/ atom_ref_expr orc id e (cb :: cbs) = RF)).
    { intros Hstep Hr. destruct (IH s (S t) ltac:(lia)) as (s' & t' & E & Hle & Hiff & Hor).
      exists s', t'. rewrite Hstep, Hr. split; [exact E|]. split; [exact Hle|]. split.
      - split.
        + intros H. apply Hiff in H. lia.
        + intros [_ H2]. destruct Hor as [Hx | Hx]; rewrite Hx in H2; discriminate.
      - right. destruct Hor as [-> | ->]; reflexivity. }
    simpl in Hfalse.
    destruct (ask orc id cb e) eqn:Ha; try congruence; try (apply Hfalse; reflexivity).
    destruct (IH (S s) (S t) ltac:(lia)) as (s' & t' & E & Hle & Hiff & Hor).
    exists s', t'. split; [exact E|]. split; [exact Hle|]. split.
    + split.
      * intros H. apply Hiff in H. destruct H as [H1 H2]. split; [lia|]. rewrite H2. reflexivity.
      * intros [H1 H2]. apply Hiff. split; [lia|]. destruct (atom_ref_expr orc id e cbs); auto; discriminate.
    + destruct Hor as [-> | ->]; auto.
Qed.

Lemma atom_ref_not_missing id e cbs : atom_ref orc id e cbs <> RM.
Proof.
  induction cbs as [|cb cbs IH]; simpl; [discriminate|].
  pose proof (complete id cb e). destruct (ask orc id cb e); try congruence;
    destruct (atom_ref orc id e cbs); simpl; congruence.
Qed.

Lemma count_cmp_spec id e : forall cbs s t, s <= t ->
  match count_cmp orc id e cbs s t with
  | Raised => atom_ref orc id e cbs = RX
  | Missing => False
  | Fit f => (success f = true <-> (s = t /\ atom_ref orc id e cbs = RT)) /\
             (atom_ref orc id e cbs = RT \/ atom_ref orc id e cbs = RF)
  end.
Proof.
  induction cbs as [|cb cbs IH]; intros s t Hst.
  - simpl. rewrite Nat.eqb_eq. tauto.
  - simpl. pose proof (complete id cb e) as Hc. destruct (ask orc id cb e) eqn:Ha; try congruence.
    + specialize (IH (S s) (S t) ltac:(lia)). destruct (count_cmp orc id e cbs (S s) (S t)); auto.
      * rewrite IH. reflexivity.
      * destruct IH as [Hiff Hor]. split.
        -- rewrite Hiff. split; intros [H1 H2]; (split; [lia|]); simpl in *.
           ++ rewrite H2. reflexivity.
           ++ destruct (atom_ref orc id e cbs); auto; discriminate.
        -- destruct Hor as [-> | ->]; auto.
    + specialize (IH s (S t) ltac:(lia)). destruct (count_cmp orc id e cbs s (S t)); auto.
      * rewrite IH. reflexivity.
      * destruct IH as [Hiff Hor]. split.
        -- rewrite Hiff. split; [lia|]. intros [_ H2]. destruct Hor as [Hr|Hr]; rewrite Hr in H2; discriminate.
        -- right. destruct Hor as [-> | ->]; reflexivity.
    + specialize (IH s (S t) ltac:(lia)). destruct (count_cmp orc id e cbs s (S t)); auto.
      * rewrite IH. reflexivity.
      * destruct IH as [Hiff Hor]. split.
        -- rewrite Hiff. split; [lia|]. intros [_ H2]. destruct Hor as [Hr|Hr]; rewrite Hr in H2; discriminate.
        -- right. destruct Hor as [-> | ->]; reflexivity.
    + reflexivity.
Qed.

(* eager sequence against the fold of the reference *)
Lemma run_seq_and {X} (ev : X -> res) (rf : X -> rv) (l : list X) :
  Forall (fun x => agree (ev x) (rf x)) l ->
  match run_seq (fun f => false && negb (success f)) ev l with
  | None => fold_right (fun x acc => rv_and (rf x) acc) RT l = RX
  | Some None => False
  | Some (Some fs) => (forallb success fs = true -> fold_right (fun x acc => rv_and (rf x) acc) RT l = RT) /\
                      (forallb success fs = false -> fold_right (fun x acc => rv_and (rf x) acc) RT l = RF)
  end.
Proof.
  induction 1 as [|x l Hx _ IH]; simpl; [split; [reflexivity|discriminate]|].
  destruct (ev x) as [| |f] eqn:Ex; simpl in Hx.
  - destruct (rf x); try contradiction. reflexivity.
  - destruct (rf x); contradiction.
  - destruct (run_seq _ ev l) as [[fs|]|]; try contradiction.
    + simpl. destruct IH as [IH1 IH2]. destruct (rf x); try contradiction; rewrite Hx; simpl; split; intros H;
        try discriminate; try (rewrite (IH1 H); reflexivity); try (rewrite (IH2 H); reflexivity).
      * destruct (forallb success fs); [rewrite IH1|rewrite IH2]; reflexivity.
    + rewrite IH. destruct (rf x); try contradiction; reflexivity.
Qed.

Lemma run_seq_or {X} (ev : X -> res) (rf : X -> rv) (l : list X) :
  Forall (fun x => agree (ev x) (rf x)) l ->
  match run_seq (fun f => false && success f) ev l with
  | None => fold_right (fun x acc => rv_or (rf x) acc) RF l = RX
  | Some None => False
  | Some (Some fs) => (existsb success fs = true -> fold_right (fun x acc => rv_or (rf x) acc) RF l = RT) /\
                      (existsb success fs = false -> fold_right (fun x acc => rv_or (rf x) acc) RF l = RF)
  end.
Proof.
  induction 1 as [|x l Hx _ IH]; simpl; [split; [discriminate|reflexivity]|].
  destruct (ev x) as [| |f] eqn:Ex; simpl in Hx.
  - destruct (rf x); try contradiction. reflexivity.
  - destruct (rf x); contradiction.
  - destruct (run_seq _ ev l) as [[fs|]|]; try contradiction.
    + simpl. destruct IH as [IH1 IH2]. destruct (rf x); try contradiction; rewrite Hx; simpl; split; intros H;
        try discriminate; try (rewrite (IH1 H); reflexivity); try (rewrite (IH2 H); reflexivity).
      * destruct (existsb success fs); [rewrite IH1|rewrite IH2]; reflexivity.
    + rewrite IH. destruct (rf x); try contradiction; reflexivity.
Qed.

Theorem eager_is_ref : forall c sc e, agree (fitness_m F Q orc false c sc e) (ref_m F Q orc c sc e).
Proof.
  induction c as [id ss|id ss|cs IH|cs IH|a b IHa IHb|b s body IH|b s body IH] using constr_ind'; intros sc e; cbn [fitness_m ref_m].
  - destruct (combos F sc ss) as [[|cb cbs]|]; [reflexivity| |exact I].
    destruct (count_expr_spec id e (cb :: cbs) 0 0 (le_n 0)) as (s' & t' & E & _ & Hiff & Hor).
    rewrite E.
    destruct Hor as [Hr | Hr]; rewrite Hr; simpl.
    + apply Hiff. auto.
    + destruct (Nat.eqb s' t') eqn:Eq; [|reflexivity]. exfalso. destruct Hiff as [Hi _]. destruct (Hi eq_refl) as [_ Hx]. congruence.
  - destruct (combos F sc ss) as [[|cb cbs]|]; [reflexivity| |exact I].
    pose proof (count_cmp_spec id e (cb :: cbs) 0 0 (le_n 0)) as H.
    destruct (count_cmp orc id e (cb :: cbs) 0 0) as [| |f]; [rewrite H; exact I|contradiction|].
    destruct H as [Hiff Hor]. destruct Hor as [Hr | Hr]; rewrite Hr; simpl.
    + apply Hiff. auto.
    + destruct (success f) eqn:Es; [|reflexivity]. exfalso. destruct Hiff as [Hi _]. destruct (Hi eq_refl) as [_ Hx]. congruence.
  - pose proof (run_seq_and (fun c' => fitness_m F Q orc false c' sc e) (fun c' => ref_m F Q orc c' sc e) cs) as H.
    assert (HF : Forall (fun x => agree (fitness_m F Q orc false x sc e) (ref_m F Q orc x sc e)) cs).
    { rewrite Forall_forall in *. intros x Hx. apply IH. exact Hx. }
    specialize (H HF). destruct (run_seq _ _ cs) as [[fs|]|]; [|contradiction|rewrite H; exact I].
    destruct H as [H1 H2]. destruct (forallb success fs) eqn:Ef.
    + rewrite (H1 eq_refl). destruct (Nat.ltb 1 (List.length cs)); simpl; (reflexivity || exact Ef).
    + rewrite (H2 eq_refl). destruct (Nat.ltb 1 (List.length cs)); simpl; (reflexivity || exact Ef).
  - pose proof (run_seq_or (fun c' => fitness_m F Q orc false c' sc e) (fun c' => ref_m F Q orc c' sc e) cs) as H.
    assert (HF : Forall (fun x => agree (fitness_m F Q orc false x sc e) (ref_m F Q orc x sc e)) cs).
    { rewrite Forall_forall in *. intros x Hx. apply IH. exact Hx. }
    specialize (H HF). destruct (run_seq _ _ cs) as [[fs|]|]; [|contradiction|rewrite H; exact I].
    destruct H as [H1 H2]. destruct (existsb success fs) eqn:Ef.
    + rewrite (H1 eq_refl). destruct (Nat.ltb 1 (List.length cs)); simpl; (reflexivity || exact Ef).
    + rewrite (H2 eq_refl). destruct (Nat.ltb 1 (List.length cs)); simpl; (reflexivity || exact Ef).
  - specialize (IHa sc e). specialize (IHb sc e).
    destruct (fitness_m F Q orc false a sc e) as [| |fa]; destruct (ref_m F Q orc a sc e); simpl in IHa; try contradiction; auto.
    + rewrite IHa. destruct (fitness_m F Q orc false b sc e) as [| |fb]; destruct (ref_m F Q orc b sc e); simpl in *; auto.
    + rewrite IHa. reflexivity.
  - destruct (Q sc s) as [conts|]; [|exact I].
    pose proof (run_seq_and (fun ct => let '(sc', e') := bind_var b ct sc e in fitness_m F Q orc false body sc' e')
                  (fun ct => let '(sc', e') := bind_var b ct sc e in ref_m F Q orc body sc' e') conts) as H.
    assert (HF : Forall (fun x => agree (let '(sc', e') := bind_var b x sc e in fitness_m F Q orc false body sc' e')
                                    (let '(sc', e') := bind_var b x sc e in ref_m F Q orc body sc' e')) conts).
    { rewrite Forall_forall. intros x _. destruct (bind_var b x sc e). apply IH. }
    specialize (H HF).
    match goal with |- agree _ (fold_right ?f RT conts) =>
      assert (Hfold : fold_right f RT conts =
                      fold_right (fun x acc => rv_and ((fun ct => let '(sc', e') := bind_var b ct sc e in ref_m F Q orc body sc' e') x) acc) RT conts)
    end.
    { clear. induction conts as [|x l IHl]; simpl; [reflexivity|]. rewrite IHl. destruct (bind_var b x sc e). reflexivity. }
    rewrite Hfold. clear Hfold.
    destruct (run_seq _ _ conts) as [[fs|]|]; [|contradiction|rewrite H; exact I].
    destruct H as [H1 H2]. destruct (forallb success fs) eqn:Ef.
    + rewrite (H1 eq_refl). reflexivity.
    + rewrite (H2 eq_refl). reflexivity.
  - destruct (Q sc s) as [conts|]; [|exact I].
    pose proof (run_seq_or (fun ct => let '(sc', e') := bind_var b ct sc e in fitness_m F Q orc false body sc' e')
                  (fun ct => let '(sc', e') := bind_var b ct sc e in ref_m F Q orc body sc' e') conts) as H.
    assert (HF : Forall (fun x => agree (let '(sc', e') := bind_var b x sc e in fitness_m F Q orc false body sc' e')
                                    (let '(sc', e') := bind_var b x sc e in ref_m F Q orc body sc' e')) conts).
    { rewrite Forall_forall. intros x _. destruct (bind_var b x sc e). apply IH. }
    specialize (H HF).
    match goal with |- agree _ (fold_right ?f RF conts) =>
      assert (Hfold : fold_right f RF conts =
                      fold_right (fun x acc => rv_or ((fun ct => let '(sc', e') := bind_var b ct sc e in ref_m F Q orc body sc' e') x) acc) RF conts)
    end.
    { clear. induction conts as [|x l IHl]; simpl; [reflexivity|]. rewrite IHl. destruct (bind_var b x sc e). reflexivity. }
    rewrite Hfold. clear Hfold.
    destruct (run_seq _ _ conts) as [[fs|]|]; [|contradiction|rewrite H; exact I].
    destruct H as [H1 H2]. destruct (existsb success fs) eqn:Ef.
    + rewrite (H1 eq_refl). reflexivity.
    + rewrite (H2 eq_refl). reflexivity.
Qed.

Theorem check_is_ref c : check_m F Q orc false c = verdict_ref F Q orc c.
Proof.
  unfold check_m, verdict_ref. pose proof (eager_is_ref c [] []) as H.
  destruct (fitness_m F Q orc false c [] []) as [| |f]; destruct (ref_m F Q orc c [] []); simpl in H; try contradiction; auto;
    rewrite H; reflexivity.
Qed.
End Thm.

(* ------------------------------------------------------------ lazy = eager *)
Section Lazy.
Variable F Q : finder.
Variable orc : oracle.

Definition follows (re rl : res) : Prop :=
  forall f, re = Fit f -> exists f', rl = Fit f' /\ success f' = success f.

Lemma run_seq_lazy_and {X} (eve evl : X -> res) (l : list X) :
  Forall (fun x => follows (eve x) (evl x)) l ->
  forall fs, run_seq (fun f => false && negb (success f)) eve l = Some (Some fs) ->
  exists fs', run_seq (fun f => true && negb (success f)) evl l = Some (Some fs') /\
              forallb success fs' = forallb success fs.
Proof.
  induction 1 as [|x l Hx _ IH]; intros fs H; simpl in *.
  - injection H as <-. exists []. auto.
  - destruct (eve x) as [| |f] eqn:Ee; try discriminate.
    destruct (Hx f eq_refl) as (f' & El & Hs). rewrite El.
    destruct (run_seq _ eve l) as [[r|]|] eqn:Er; try discriminate. injection H as <-.
    destruct (IH r eq_refl) as (r' & Hr' & Hfr). simpl.
    destruct (success f') eqn:Es'; simpl.
    + rewrite Hr'. exists (f' :: r'). split; [reflexivity|]. simpl. rewrite Es', <- Hs, Hfr. reflexivity.
    + exists [f']. split; [reflexivity|]. simpl. rewrite Es', <- Hs. reflexivity.
Qed.

Lemma run_seq_lazy_or {X} (eve evl : X -> res) (l : list X) :
  Forall (fun x => follows (eve x) (evl x)) l ->
  forall fs, run_seq (fun f => false && success f) eve l = Some (Some fs) ->
  exists fs', run_seq (fun f => true && success f) evl l = Some (Some fs') /\
              existsb success fs' = existsb success fs.
Proof.
  induction 1 as [|x l Hx _ IH]; intros fs H; simpl in *.
  - injection H as <-. exists []. auto.
  - destruct (eve x) as [| |f] eqn:Ee; try discriminate.
    destruct (Hx f eq_refl) as (f' & El & Hs). rewrite El.
    destruct (run_seq _ eve l) as [[r|]|] eqn:Er; try discriminate. injection H as <-.
    destruct (IH r eq_refl) as (r' & Hr' & Hfr). simpl.
    destruct (success f') eqn:Es'; simpl.
    + exists [f']. split; [reflexivity|]. simpl. rewrite Es', <- Hs. reflexivity.
    + rewrite Hr'. exists (f' :: r'). split; [reflexivity|]. simpl. rewrite Es', <- Hs, Hfr. reflexivity.
Qed.

Theorem lazy_follows_eager : forall c sc e,
  follows (fitness_m F Q orc false c sc e) (fitness_m F Q orc true c sc e).
Proof.
  induction c as [id ss|id ss|cs IH|cs IH|a b IHa IHb|b s body IH|b s body IH] using constr_ind';
    intros sc e f Hf; cbn [fitness_m] in *.
  - exists f. auto.
  - exists f. auto.
  - destruct (run_seq _ _ cs) as [[fs|]|] eqn:Er; try discriminate.
    destruct (run_seq_lazy_and (fun c' => fitness_m F Q orc false c' sc e) (fun c' => fitness_m F Q orc true c' sc e) cs) with (fs := fs)
      as (fs' & Hr' & Hfs); [|exact Er|].
    { rewrite Forall_forall in *. intros x Hx. apply IH. exact Hx. }
    rewrite Hr'. rewrite Hfs. destruct (Nat.ltb 1 (List.length cs)); injection Hf as <-; eexists; split; reflexivity.
  - destruct (run_seq _ _ cs) as [[fs|]|] eqn:Er; try discriminate.
    destruct (run_seq_lazy_or (fun c' => fitness_m F Q orc false c' sc e) (fun c' => fitness_m F Q orc true c' sc e) cs) with (fs := fs)
      as (fs' & Hr' & Hfs); [|exact Er|].
    { rewrite Forall_forall in *. intros x Hx. apply IH. exact Hx. }
    rewrite Hr'. rewrite Hfs. destruct (Nat.ltb 1 (List.length cs)); injection Hf as <-; eexists; split; reflexivity.
  - destruct (fitness_m F Q orc false a sc e) as [| |fa] eqn:Ea; try discriminate.
    destruct (IHa sc e fa Ea) as (fa' & Ea' & Hsa). rewrite Ea', Hsa.
    destruct (success fa).
    + destruct (fitness_m F Q orc false b sc e) as [| |fb] eqn:Eb; try discriminate.
      destruct (IHb sc e fb Eb) as (fb' & Eb' & Hsb). rewrite Eb'. injection Hf as <-.
      eexists. split; [reflexivity|]. simpl. exact Hsb.
    + exists f. auto.
  - destruct (Q sc s) as [conts|]; [|discriminate].
    destruct (run_seq _ _ conts) as [[fs|]|] eqn:Er; try discriminate.
    destruct (run_seq_lazy_and (fun ct => let '(sc', e') := bind_var b ct sc e in fitness_m F Q orc false body sc' e')
                (fun ct => let '(sc', e') := bind_var b ct sc e in fitness_m F Q orc true body sc' e') conts) with (fs := fs)
      as (fs' & Hr' & Hfs); [|exact Er|].
    { rewrite Forall_forall. intros x _. destruct (bind_var b x sc e). apply IH. }
    rewrite Hr', Hfs. injection Hf as <-. eexists. split; reflexivity.
  - destruct (Q sc s) as [conts|]; [|discriminate].
    destruct (run_seq _ _ conts) as [[fs|]|] eqn:Er; try discriminate.
    destruct (run_seq_lazy_or (fun ct => let '(sc', e') := bind_var b ct sc e in fitness_m F Q orc false body sc' e')
                (fun ct => let '(sc', e') := bind_var b ct sc e in fitness_m F Q orc true body sc' e') conts) with (fs := fs)
      as (fs' & Hr' & Hfs); [|exact Er|].
    { rewrite Forall_forall. intros x _. destruct (bind_var b x sc e). apply IH. }
    rewrite Hr', Hfs. injection Hf as <-. eexists. split; reflexivity.
Qed.

(* whenever eager evaluation answers (does not raise), lazy evaluation answers the same *)
Theorem lazy_eager_same c :
  check_m F Q orc false c = VTrue \/ check_m F Q orc false c = VFalse ->
  check_m F Q orc true c = check_m F Q orc false c.
Proof.
  unfold check_m. intros H. destruct (fitness_m F Q orc false c [] []) as [| |f] eqn:E;
    try (destruct H; discriminate).
  destruct (lazy_follows_eager c [] [] f E) as (f' & E' & Hs). rewrite E', Hs. reflexivity.
Qed.
End Lazy.

(* the remaining gap, exhibited: a selector that raises inside a short-circuited operand *)
Example lazy_differs_when_selector_raises :
  let t0 := Node "<s>" [Node "<a>" []] in
  let c := KOr [KExpr 0 []; KExpr 1 [("x", SItem (SRule "<a>") (IAt 5))]] in
  let orc := [(0, [], [], OTrue)] in
  check_code t0 orc false c = VRaise /\ check_code t0 orc true c = VTrue.
Proof. vm_compute. split; reflexivity. Qed.

(* ------------------------------------------------------------ code finder = documented finder *)
From FV Require Import Proofs.C07Search.

Lemma code_F_doc t0 sc s : clean_s t0 sc s = true -> code_F t0 sc s = doc_F t0 sc s.
Proof. intros H. unfold code_F, doc_F. apply find_is_den; [reflexivity|exact H]. Qed.

Lemma code_Q_doc t0 sc s : clean_q t0 sc s = true -> code_Q t0 sc s = doc_Q t0 sc s.
Proof.
  intros H. unfold code_Q, doc_Q, quantify_m. destruct s as [nt|b a|b a|b ix|b|b].
  1-4,6: apply find_is_den; [reflexivity|exact H].
  unfold clean_q, clean_s in H. rewrite (find_is_den t0 sc b false MTop (RPath []) eq_refl H). reflexivity.
Qed.

Lemma combos_ext t0 sc ss : forallb (fun ns => clean_s t0 sc (snd ns)) ss = true ->
  combos (code_F t0) sc ss = combos (doc_F t0) sc ss.
Proof.
  intros H. unfold combos. f_equal. apply mapM_ext. intros [n s] Hin.
  rewrite forallb_forall in H. specialize (H _ Hin). simpl in *. rewrite (code_F_doc _ _ _ H). reflexivity.
Qed.

Lemma fold_right_ext_in {X Y} (f g : X -> Y -> Y) (a : Y) (l : list X) :
  (forall x acc, In x l -> f x acc = g x acc) -> fold_right f a l = fold_right g a l.
Proof.
  induction l as [|x l IH]; intros H; simpl; [reflexivity|].
  rewrite IH; [apply H; left; reflexivity|]. intros y acc Hy. apply H. right. exact Hy.
Qed.

Theorem doc_bridge t0 orc : forall c sc e, all_clean t0 c sc e = true ->
  ref_m (code_F t0) (code_Q t0) orc c sc e = ref_m (doc_F t0) (doc_Q t0) orc c sc e.
Proof.
  induction c as [id ss|id ss|cs IH|cs IH|a b IHa IHb|b s body IH|b s body IH] using constr_ind';
    intros sc e Hc; cbn [ref_m all_clean] in *.
  - rewrite (combos_ext _ _ _ Hc). reflexivity.
  - rewrite (combos_ext _ _ _ Hc). reflexivity.
  - apply fold_right_ext_in. intros x acc Hx. rewrite Forall_forall in IH. rewrite forallb_forall in Hc.
    rewrite (IH x Hx sc e (Hc x Hx)). reflexivity.
  - apply fold_right_ext_in. intros x acc Hx. rewrite Forall_forall in IH. rewrite forallb_forall in Hc.
    rewrite (IH x Hx sc e (Hc x Hx)). reflexivity.
  - apply andb_true_iff in Hc. destruct Hc as [Ha Hb]. rewrite (IHa sc e Ha), (IHb sc e Hb). reflexivity.
  - apply andb_true_iff in Hc. destruct Hc as [Hq Hb]. rewrite (code_Q_doc _ _ _ Hq).
    destruct (doc_Q t0 sc s) as [conts|]; [|reflexivity].
    apply fold_right_ext_in. intros x acc Hx. rewrite forallb_forall in Hb. specialize (Hb x Hx).
    destruct (bind_var b x sc e). rewrite (IH _ _ Hb). reflexivity.
  - apply andb_true_iff in Hc. destruct Hc as [Hq Hb]. rewrite (code_Q_doc _ _ _ Hq).
    destruct (doc_Q t0 sc s) as [conts|]; [|reflexivity].
    apply fold_right_ext_in. intros x acc Hx. rewrite forallb_forall in Hb. specialize (Hb x Hx).
    destruct (bind_var b x sc e). rewrite (IH _ _ Hb). reflexivity.
Qed.

Theorem check_is_documented t0 orc c :
  (forall id cb e, ask orc id cb e <> OMissing) ->
  all_clean t0 c [] [] = true ->
  check_code t0 orc false c = verdict_doc t0 orc c.
Proof.
  intros Hcomp Hcl. unfold check_code, verdict_doc. rewrite (check_is_ref _ _ _ Hcomp).
  unfold verdict_ref. rewrite (doc_bridge t0 orc c [] [] Hcl). reflexivity.
Qed.

Theorem lazy_is_documented t0 orc c :
  (forall id cb e, ask orc id cb e <> OMissing) ->
  all_clean t0 c [] [] = true ->
  verdict_doc t0 orc c <> VRaise ->
  check_code t0 orc true c = verdict_doc t0 orc c.
Proof.
  intros Hcomp Hcl Hnr. rewrite <- (check_is_documented t0 orc c Hcomp Hcl) in *.
  unfold check_code in *. apply lazy_eager_same.
  pose proof (eager_is_ref (code_F t0) (code_Q t0) orc Hcomp c [] []) as Ha.
  unfold check_m in *. destruct (fitness_m _ _ orc false c [] []) as [| |f]; try congruence.
  - destruct (ref_m _ _ orc c [] []); simpl in Ha; contradiction.
  - destruct (success f); auto.
Qed.

(* non-vacuity: a quantified constraint over a real tree meets the hypotheses *)
Example c07_nonvacuous :
  let t0 := Node "<s>" [Node "<a>" [Leaf (LPay (PStr [49%N]))]; Node "<a>" [Leaf (LPay (PStr [50%N]))]] in
  let c := KAll (BNt "<x>") (SAttr (SRule "<s>") (SRule "<a>")) (KExpr 0 [("v", SRule "<x>")]) in
  let orc := [(0, [("v", CTree (RPath [0]))], [], OTrue); (0, [("v", CTree (RPath [1]))], [], OFalse)] in
  all_clean t0 c [] [] = true /\ check_code t0 orc false c = VFalse /\ verdict_doc t0 orc c = VFalse.
Proof. vm_compute. repeat split; reflexivity. Qed.
