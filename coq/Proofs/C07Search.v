(* C07, selectors: the code-shaped [find_m] computes the documented denotation [den]. *)
From Coq Require Import List String ZArith Bool Arith Lia.
From FV Require Import Base.Re Base.Grammar Model.ReplaceM Model.SearchM.
Import ListNotations.
Open Scope list_scope.

Lemma subtree_at_app t0 : forall p q, 
  subtree_at t0 (p ++ q) = match subtree_at t0 p with Some t => subtree_at t q | None => None end.
Proof.
  intros p. revert t0. induction p as [|i p IH]; intros t0 q; simpl; [reflexivity|].
  destruct t0 as [l|nt kids]; [reflexivity|]. destruct (nth_error kids i); [apply IH|reflexivity].
Qed.

Lemma subtree_at_snoc t0 p i nt kids :
  subtree_at t0 p = Some (Node nt kids) -> subtree_at t0 (p ++ [i]) = nth_error kids i.
Proof.
  intros H. rewrite subtree_at_app, H. simpl. destruct (nth_error kids i); reflexivity.
Qed.

(* the recursive search of the code = filtering the post-order enumeration *)
Lemma find_all_tree_spec t0 nt : forall t p, subtree_at t0 p = Some t ->
  find_all_tree t p nt = filter (is_label t0 nt) (node_paths t p).
Proof.
  induction t as [l|lb kids IH] using tree_ind'; intros p Hp; simpl; [reflexivity|].
  rewrite filter_app. f_equal.
  - assert (Hk : forall i, nth_error kids i = subtree_at t0 (p ++ [i])).
    { intros i. symmetry. eapply subtree_at_snoc; eauto. }
    assert (Hgen : forall (ks : list tree) (j : nat),
               (forall i, nth_error ks i = subtree_at t0 (p ++ [j + i])) -> Forall
                 (fun t => forall p, subtree_at t0 p = Some t ->
                    find_all_tree t p nt = filter (is_label t0 nt) (node_paths t p)) ks ->
               (fix go (i : nat) (ks : list tree) {struct ks} : list path :=
                  match ks with [] => [] | k :: ks' => find_all_tree k (p ++ [i]) nt ++ go (S i) ks' end) j ks
               = filter (is_label t0 nt)
                   ((fix go (i : nat) (ks : list tree) {struct ks} : list path :=
                       match ks with [] => [] | k :: ks' => node_paths k (p ++ [i]) ++ go (S i) ks' end) j ks)).
    { induction ks as [|k ks IHk]; intros j Hn HF; [reflexivity|].
      rewrite filter_app. inversion HF as [|? ? Hk1 Hk2]; subst. f_equal.
      - apply Hk1. specialize (Hn 0). simpl in Hn. rewrite Nat.add_0_r in Hn. symmetry. exact Hn.
      - apply IHk; [|exact Hk2]. intros i. specialize (Hn (S i)). simpl in Hn.
        replace (S j + i) with (j + S i) by lia. exact Hn. }
    apply Hgen; [|exact IH]. intros i. simpl. apply Hk.
  - unfold is_label, label_at. simpl. rewrite Hp. destruct (String.eqb lb nt); reflexivity.
Qed.

Lemma find_all_ref_spec t0 r nt : find_all_ref t0 r nt = occ_incl t0 r nt.
Proof.
  assert (H : forall p, find_all_at t0 p nt = filter (is_label t0 nt) (node_paths_at t0 p)).
  { intros p. unfold find_all_at, node_paths_at. destruct (subtree_at t0 p) eqn:E; [|reflexivity].
    apply find_all_tree_spec. exact E. }
  destruct r as [p|ps]; simpl; [apply H|].
  induction ps as [|q ps IH]; simpl; [reflexivity|]. rewrite H, IH. reflexivity.
Qed.

(* node_paths of a node = those of its children (at the child paths), then the node *)
Lemma node_paths_kids t0 p nt kids : subtree_at t0 p = Some (Node nt kids) ->
  node_paths (Node nt kids) p = flat_map (node_paths_at t0) (kid_paths t0 p) ++ [p].
Proof.
  intros Hp. simpl. f_equal. unfold kid_paths. rewrite Hp.
  assert (Hgen : forall (ks : list tree) (j : nat),
             (forall i, nth_error ks i = subtree_at t0 (p ++ [j + i])) ->
             (fix go (i : nat) (ks : list tree) {struct ks} : list path :=
                match ks with [] => [] | k :: ks' => node_paths k (p ++ [i]) ++ go (S i) ks' end) j ks
             = flat_map (node_paths_at t0) (map (fun i => p ++ [i]) (seq j (List.length ks)))).
  { induction ks as [|k ks IHk]; intros j Hn; [reflexivity|]. simpl. f_equal.
    - unfold node_paths_at. specialize (Hn 0). simpl in Hn. rewrite Nat.add_0_r in Hn. rewrite <- Hn. reflexivity.
    - apply IHk. intros i. specialize (Hn (S i)). simpl in Hn. replace (S j + i) with (j + S i) by lia. exact Hn. }
  apply Hgen. intros i. simpl. symmetry. eapply subtree_at_snoc; eauto.
Qed.

Lemma occ_incl_proper t0 p nt :
  occ_incl t0 (RPath p) nt = occ_proper t0 (RPath p) nt ++ (if is_label t0 nt p then [p] else []).
Proof.
  unfold occ_incl, occ_proper, node_paths_at at 1. simpl ref_kids.
  destruct (subtree_at t0 p) as [[l|lb kids]|] eqn:E.
  - simpl. unfold kid_paths, is_label, label_at. rewrite E. reflexivity.
  - rewrite (node_paths_kids _ _ _ _ E), filter_app.
    assert (Hl : filter (is_label t0 nt) (flat_map (node_paths_at t0) (kid_paths t0 p)) =
                 flat_map (fun q => filter (is_label t0 nt) (node_paths_at t0 q)) (kid_paths t0 p)).
    { induction (kid_paths t0 p) as [|q qs IH]; simpl; [reflexivity|]. rewrite filter_app, IH. reflexivity. }
    rewrite Hl. f_equal.
  - simpl. unfold kid_paths, is_label, label_at. rewrite E. reflexivity.
Qed.

Lemma occ_incl_slice t0 ps nt : occ_incl t0 (RSlice ps) nt = occ_proper t0 (RSlice ps) nt.
Proof. reflexivity. Qed.

Definition compat (d : bool) (m : mode) : Prop :=
  match m with MDirect => d = true | _ => d = false end.

Lemma mapM_ext {X Y} (f g : X -> option Y) l : (forall x, In x l -> f x = g x) -> mapM f l = mapM g l.
Proof.
  induction l as [|x l IH]; intros H; simpl; [reflexivity|].
  rewrite (H x (or_introl eq_refl)), IH; [reflexivity|]. intros y Hy. apply H. right. exact Hy.
Qed.

Theorem find_is_den t0 sc : forall s d m cur, compat d m ->
  desc_clean t0 sc s m cur = true -> find_m t0 sc s d cur = den t0 sc s m cur.
Proof.
  induction s as [nt|b IHb a IHa|b IHb a IHa|b IHb ix|b IHb|b IHb]; intros d m cur Hc Hcl; simpl in *.
  - destruct (assoc String.eqb nt sc); [reflexivity|]. f_equal. f_equal.
    destruct m; simpl in Hc; subst d; try reflexivity.
    + apply find_all_ref_spec.
    + rewrite find_all_ref_spec. destruct cur as [p|ps]; [|reflexivity].
      rewrite occ_incl_proper. apply negb_true_iff in Hcl. rewrite Hcl. apply app_nil_r.
  - apply andb_true_iff in Hcl. destruct Hcl as [Hb Ha]. rewrite (IHb d m cur Hc Hb).
    destruct (den t0 sc b m cur) as [bases|]; [|reflexivity]. simpl. unfold concat_map_opt. f_equal.
    apply mapM_ext. intros t Ht. apply IHa; [reflexivity|]. rewrite forallb_forall in Ha. apply Ha. exact Ht.
  - apply andb_true_iff in Hcl. destruct Hcl as [Hb Ha]. rewrite (IHb d m cur Hc Hb).
    destruct (den t0 sc b m cur) as [bases|]; [|reflexivity]. simpl. unfold concat_map_opt. f_equal.
    apply mapM_ext. intros t Ht. apply IHa; [reflexivity|]. rewrite forallb_forall in Ha. apply Ha. exact Ht.
  - rewrite (IHb d m cur Hc Hcl). reflexivity.
  - rewrite (IHb d m cur Hc Hcl). reflexivity.
  - rewrite (IHb d m cur Hc Hcl). reflexivity.
Qed.

(* the departure, exhibited: <e>..<e> on e(e(x)) includes the base node *)
Example desc_includes_base :
  let t0 := Node "<s>" [Node "<e>" [Node "<e>" [Leaf (LPay (PStr [120%N]))]]] in
  find_m t0 [] (SDesc (SAttr (SRule "<s>") (SRule "<e>")) (SRule "<e>")) false (RPath [])
    = Some [CTree (RPath [0; 0]); CTree (RPath [0])]
  /\ den t0 [] (SDesc (SAttr (SRule "<s>") (SRule "<e>")) (SRule "<e>")) MTop (RPath [])
    = Some [CTree (RPath [0; 0])].
Proof. vm_compute. split; reflexivity. Qed.
