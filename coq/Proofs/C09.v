(* C09: a tree's value is the in-order concatenation of its leaves. *)
From Coq Require Import List NArith Bool Arith String Lia.
From FV Require Import Base.Re Base.Grammar Model.TreeValueM.
Import ListNotations.
Open Scope list_scope.

Definition step (r : result tv) (l : leaf) : result tv := rbind r (fun a => append a (leaf_tv l)).

Lemma thread_fold : forall t acc, thread t acc = fold_left step (leaves t) acc.
Proof.
  induction t as [l|nt kids IH] using tree_ind'; intros acc; [reflexivity|].
  simpl. revert acc. induction IH as [|k kids Hk _ IHk]; intros acc; [reflexivity|].
  simpl. rewrite fold_left_app, <- Hk. apply IHk.
Qed.

(* nesting is irrelevant: the value only depends on the leaf sequence *)
Theorem value_nesting_irrelevant t : value_m t = value_spec (leaves t).
Proof.
  destruct t as [l|nt kids]; [reflexivity|]. unfold value_m, value_spec. apply thread_fold.
Qed.

Corollary same_leaves_same_value t1 t2 : leaves t1 = leaves t2 -> value_m t1 = value_m t2.
Proof. intros H. rewrite !value_nesting_irrelevant, H. reflexivity. Qed.

(* ---- encodings distribute over concatenation *)
Lemma utf8_app s s' : utf8 (s ++ s') = match utf8 s, utf8 s' with Some a, Some b => Some (a ++ b) | _, _ => None end.
Proof.
  induction s as [|c s IH]; simpl.
  - destruct (utf8 s'); reflexivity.
  - rewrite IH. destruct (utf8_cp c); [|reflexivity]. destruct (utf8 s); [|reflexivity].
    destruct (utf8 s'); [rewrite app_assoc|]; reflexivity.
Qed.

Lemma bits_of_bytes_app a b : bits_of_bytes (a ++ b) = bits_of_bytes a ++ bits_of_bytes b.
Proof. unfold bits_of_bytes. apply flat_map_app. Qed.

Lemma byte_bits_of b7 b6 b5 b4 b3 b2 b1 b0 :
  byte_bits (byte_of b7 b6 b5 b4 b3 b2 b1 b0) = [b7; b6; b5; b4; b3; b2; b1; b0].
Proof. destruct b7, b6, b5, b4, b3, b2, b1, b0; reflexivity. Qed.

Lemma bytes_of_bits_inv : forall n l bs, List.length l <= n -> bytes_of_bits l = Some bs -> bits_of_bytes bs = l.
Proof.
  induction n as [|n IH]; intros l bs Hn H.
  - destruct l; [|simpl in Hn; lia]. injection H as <-. reflexivity.
  - destruct l as [|b7 [|b6 [|b5 [|b4 [|b3 [|b2 [|b1 [|b0 l]]]]]]]]; simpl in H; try discriminate.
    + injection H as <-. reflexivity.
    + destruct (bytes_of_bits l) as [r|] eqn:E; [|discriminate]. injection H as <-.
      change (bits_of_bytes (byte_of b7 b6 b5 b4 b3 b2 b1 b0 :: r)) with (byte_bits (byte_of b7 b6 b5 b4 b3 b2 b1 b0) ++ bits_of_bytes r).
      rewrite byte_bits_of. simpl. do 8 f_equal. apply (IH l r); [simpl in Hn; lia|exact E].
Qed.

Lemma bytes_of_bits_spec l bs : bytes_of_bits l = Some bs -> bits_of_bytes bs = l.
Proof. apply (bytes_of_bits_inv (List.length l)). lia. Qed.

(* ---- the bit view is additive under append *)
Lemma reduce_bits e a a' x : reduce e a = Ok a' -> to_bits a = Ok x ->
  (e = Utf8 \/ tbits a = []) -> to_bits a' = Ok x /\ tbits a' = [].
Proof.
  unfold reduce, to_bits. destruct a as [v bs]. simpl. destruct bs as [|b bs]; intros H Hx He.
  - injection H as <-. auto.
  - destruct (bytes_of_bits (b :: bs)) as [by_|] eqn:Eb; [|discriminate].
    apply bytes_of_bits_spec in Eb. destruct He as [-> | He]; [|discriminate].
    destruct v as [|s|bb]; simpl in *.
    + injection H as <-. injection Hx as <-. simpl. rewrite app_nil_r, Eb. auto.
    + destruct (utf8 s) as [sb|]; [|discriminate]. injection H as <-. injection Hx as <-. simpl.
      rewrite bits_of_bytes_app, app_nil_r, Eb. auto.
    + injection H as <-. injection Hx as <-. simpl. rewrite bits_of_bytes_app, app_nil_r, Eb. auto.
Qed.

Lemma append_bits a b c x y : append a b = Ok c -> to_bits a = Ok x -> to_bits b = Ok y -> to_bits c = Ok (x ++ y).
Proof.
  unfold append. destruct (is_empty a) eqn:Ee.
  - intros H Hx Hy. injection H as <-. destruct a as [[| |] [|]]; try discriminate. injection Hx as <-. exact Hy.
  - destruct (tval b) eqn:Eb.
    + intros H Hx Hy. injection H as <-. unfold to_bits in *. simpl.
      destruct (val_bits (tval a)) as [vb|]; [|discriminate]. injection Hx as <-.
      rewrite Eb in Hy. simpl in Hy. injection Hy as <-. repeat rewrite <- app_assoc; reflexivity.
    + intros H Hx Hy. destruct (reduce Utf8 a) as [a'|] eqn:Er; [|discriminate]. simpl in H.
      destruct (reduce_bits _ _ _ _ Er Hx (or_introl eq_refl)) as [Hx' Hb'].
      unfold to_bits in *. rewrite Eb in Hy. simpl in Hy. rewrite Hb' in Hx'.
      destruct (tval a') as [|s|bb]; try discriminate; simpl in *.
      * destruct (utf8 s) as [sb|] eqn:Es; [|discriminate]. destruct (utf8 cps) as [sb'|] eqn:Es'; [|discriminate].
        injection H as <-. simpl. rewrite utf8_app, Es, Es'. simpl. rewrite bits_of_bytes_app.
        injection Hx' as Hx'. injection Hy as <-. rewrite app_nil_r in Hx'. subst x. repeat rewrite <- app_assoc; reflexivity.
      * destruct (utf8 cps) as [sb'|] eqn:Es'; [|discriminate]. injection H as <-. simpl.
        rewrite bits_of_bytes_app. injection Hx' as Hx'. injection Hy as <-. rewrite app_nil_r in Hx'. subst x.
        repeat rewrite <- app_assoc; reflexivity.
    + intros H Hx Hy. destruct (reduce Utf8 a) as [a'|] eqn:Er; [|discriminate]. simpl in H.
      destruct (reduce_bits _ _ _ _ Er Hx (or_introl eq_refl)) as [Hx' Hb'].
      unfold to_bits in *. rewrite Eb in Hy. simpl in Hy. rewrite Hb' in Hx'.
      destruct (tval a') as [|s|bb]; try discriminate; simpl in *.
      * destruct (utf8 s) as [sb|] eqn:Es; [|discriminate]. injection H as <-. simpl.
        rewrite bits_of_bytes_app. injection Hx' as Hx'. injection Hy as <-. rewrite app_nil_r in Hx'. subst x.
        repeat rewrite <- app_assoc; reflexivity.
      * injection H as <-. simpl. rewrite bits_of_bytes_app. injection Hx' as Hx'. injection Hy as <-.
        rewrite app_nil_r in Hx'. subst x. repeat rewrite <- app_assoc; reflexivity.
Qed.

Lemma leaf_tv_bits l : to_bits (leaf_tv l) = leaf_bits l.
Proof.
  destruct l as [[s|b]|b]; unfold to_bits; simpl; try rewrite app_nil_r; try reflexivity.
  destruct (utf8 s); simpl; [rewrite app_nil_r|]; reflexivity.
Qed.

Fixpoint all_bits (ls : list leaf) : result (list bool) :=
  match ls with
  | [] => Ok []
  | l :: ls' => rbind (leaf_bits l) (fun x => rbind (all_bits ls') (fun y => Ok (x ++ y)))
  end.

Lemma fold_bits : forall ls acc a x ys, fold_left step ls (Ok acc) = Ok a -> to_bits acc = Ok x ->
  all_bits ls = Ok ys -> to_bits a = Ok (x ++ ys).
Proof.
  induction ls as [|l ls IH]; intros acc a x ys H Hx Hys; simpl in *.
  - injection H as <-. injection Hys as <-. rewrite app_nil_r. exact Hx.
  - destruct (leaf_bits l) as [lb|] eqn:El; [|discriminate]. simpl in Hys.
    destruct (all_bits ls) as [rest|] eqn:Er; [|discriminate]. simpl in Hys. injection Hys as <-.
    destruct (append acc (leaf_tv l)) as [acc'|] eqn:Ea.
    + rewrite app_assoc. apply (IH acc' a (x ++ lb) rest H); [|reflexivity].
      apply (append_bits _ _ _ _ _ Ea Hx). rewrite leaf_tv_bits. exact El.
    + exfalso. clear - H. induction ls as [|l' ls IHl]; simpl in H; [discriminate|auto].
Qed.

(* the bit view of a tree is the concatenation of the bit views of its leaves *)
Theorem to_bits_is_leaf_concat t a ys :
  value_m t = Ok a -> all_bits (leaves t) = Ok ys -> to_bits a = Ok ys.
Proof.
  rewrite value_nesting_irrelevant. unfold value_spec. intros H Hys.
  change (fold_left _ (leaves t) (Ok empty_tv)) with (fold_left step (leaves t) (Ok empty_tv)) in H.
  apply (fold_bits _ _ _ [] _ H); [reflexivity|exact Hys].
Qed.

(* bytes are the bits in groups of eight *)
Theorem bytes_are_grouped_bits a bs x : to_bytes a = Ok bs -> to_bits a = Ok x -> bits_of_bytes bs = x.
Proof.
  unfold to_bytes. destruct (is_empty a) eqn:Ee.
  - intros H Hx. injection H as <-. destruct a as [[| |] [|]]; try discriminate. injection Hx as <-. reflexivity.
  - intros H Hx. destruct (reduce Utf8 a) as [a'|] eqn:Er; [|discriminate]. simpl in H.
    destruct (reduce_bits _ _ _ _ Er Hx (or_introl eq_refl)) as [Hx' Hb']. unfold to_bits in Hx'. rewrite Hb' in Hx'.
    destruct (tval a') as [|s|b]; try discriminate; simpl in *.
    + destruct (utf8 s); [|discriminate]. injection H as <-. injection Hx' as Hx'. rewrite app_nil_r in Hx'. exact Hx'.
    + injection H as <-. injection Hx' as Hx'. rewrite app_nil_r in Hx'. exact Hx'.
Qed.

(* ---- the string view *)
Definition ascii (s : list N) : bool := forallb (fun c => (c <? 128)%N) s.

Lemma ascii_encodings s : ascii s = true -> utf8 s = Some s /\ latin1 s = Some s.
Proof.
  induction s as [|c s IH]; simpl; [auto|]. intros H. apply andb_true_iff in H. destruct H as [Hc Hs].
  destruct (IH Hs) as [-> ->]. unfold utf8_cp. rewrite Hc. apply N.ltb_lt in Hc.
  replace (c <? 256)%N with true by (symmetry; apply N.ltb_lt; lia). auto.
Qed.

(* text that still awaits conversion when the string view is taken *)
Definition pending_text_ascii (a : tv) : bool :=
  match tval a, tbits a with
  | VStr s, _ :: _ => ascii s
  | _, _ => true
  end.

Definition is_binary (a : tv) : bool :=
  match tval a, tbits a with VStr _, [] => false | _, _ => true end.

Theorem string_view_is_latin1_of_bytes a s bs :
  is_binary a = true -> pending_text_ascii a = true ->
  to_string a = Ok s -> to_bytes a = Ok bs -> s = latin1_decode bs.
Proof.
  unfold to_string, to_bytes, is_binary, pending_text_ascii, reduce. destruct a as [v bits].
  cbn [tval tbits is_empty].
  destruct v as [|t|b], bits as [|b0 bits]; cbn [is_empty tval tbits rbind]; try discriminate; intros _ Hp Hs Hb.
  - injection Hs as <-. injection Hb as <-. reflexivity.
  - destruct (bytes_of_bits (b0 :: bits)) as [by_|]; [|discriminate]. cbn [rbind tval] in *.
    injection Hs as <-. injection Hb as <-. reflexivity.
  - destruct (bytes_of_bits (b0 :: bits)) as [by_|]; [|discriminate]. destruct (ascii_encodings _ Hp) as [Hu Hl].
    cbn [encode] in *. rewrite Hl in Hs. rewrite Hu in Hb. cbn [rbind tval] in *.
    injection Hs as <-. injection Hb as <-. reflexivity.
  - injection Hs as <-. injection Hb as <-. reflexivity.
  - destruct (bytes_of_bits (b0 :: bits)) as [by_|]; [|discriminate]. cbn [rbind tval] in *.
    injection Hs as <-. injection Hb as <-. reflexivity.
Qed.

Theorem text_only_string s : to_string {| tval := VStr s; tbits := [] |} = Ok s.
Proof. reflexivity. Qed.

(* the recorded departure: non-ASCII text still pending when trailing bits are flushed *)
Example string_view_refuted :
  let a := {| tval := VStr [233%N]; tbits := [false; true; false; false; false; false; false; true] |} in
  to_string a = Ok [233%N; 65%N] /\ to_bytes a = Ok [195%N; 169%N; 65%N].
Proof. vm_compute. split; reflexivity. Qed.

(* ---- purity: a conversion never changes a leaf's stored value *)
Theorem leaf_value_never_mutated e l : reduce e (leaf_tv l) = Ok (leaf_tv l) \/ reduce e (leaf_tv l) = Err EConv.
Proof. destruct l as [[s|b]|b]; simpl; auto. Qed.

(* non-vacuity: bits spanning two sibling subtrees *)
Example nested_bits_ok :
  let t := Node "<s>" [Node "<a>" [Leaf (LBit false); Leaf (LBit true); Leaf (LBit false)];
                       Node "<b>" [Leaf (LBit false); Leaf (LBit false); Leaf (LBit false); Leaf (LBit false); Leaf (LBit true);
                                   Leaf (LPay (PBytes [120%N]))]] in
  rbind (value_m t) to_bytes = Ok [65%N; 120%N].
Proof. vm_compute. reflexivity. Qed.
