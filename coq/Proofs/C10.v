(* C10: sizes, hash caches and parent links stay consistent under every sequence of
   tree operations; copies/replacements are new objects and leave their inputs alone. *)
From Coq Require Import List NArith Bool Arith ZArith Lia.
From FV Require Import Model.HeapTreeM.
Import ListNotations.
Open Scope list_scope.

Section ObjInd.
  Variable P : obj -> Prop.
  Hypothesis H : forall i s a b p z h kids, Forall P kids -> P (O i s a b p z h kids).
  Fixpoint obj_ind' (o : obj) : P o :=
    match o with
    | O i s a b p z h kids =>
        H i s a b p z h kids ((fix go (l : list obj) : Forall P l :=
                                 match l with [] => Forall_nil _ | k :: l' => Forall_cons _ (obj_ind' k) (go l') end) kids)
    end.
End ObjInd.

Inductive wf : obj -> Prop :=
| wf_O i s a b p z h kids :
    z = S (sum_sz kids) ->
    (forall t, h = Some t -> t = A s a b (map abs kids)) ->
    Forall (fun k => opar k = Some i) kids ->
    Forall wf kids ->
    wf (O i s a b p z h kids).

Definition WF (st : state) : Prop := Forall wf (pool st).

(* ---- basic facts *)
Lemma set_par_facts p o : osz (set_par p o) = osz o /\ abs (set_par p o) = abs o /\ oid (set_par p o) = oid o /\
                          opar (set_par p o) = p /\ okids (set_par p o) = okids o.
Proof. destruct o; simpl; auto. Qed.

Lemma wf_set_par p o : wf o -> wf (set_par p o).
Proof. intros H. inversion H; subst. simpl. constructor; auto. Qed.

Lemma sum_sz_map_set_par p ks : sum_sz (map (set_par p) ks) = sum_sz ks.
Proof. induction ks as [|k ks IH]; simpl; [reflexivity|]. destruct k; simpl in *. rewrite IH. reflexivity. Qed.

Lemma abs_map_set_par p ks : map abs (map (set_par p) ks) = map abs ks.
Proof. induction ks as [|k ks IH]; simpl; [reflexivity|]. destruct k; simpl in *. rewrite IH. reflexivity. Qed.

Lemma wf_rebuild i s a b p ks : Forall wf ks -> wf (rebuild i s a b p ks).
Proof.
  intros H. unfold rebuild. constructor.
  - rewrite sum_sz_map_set_par. reflexivity.
  - discriminate.
  - rewrite Forall_forall. intros k Hk. apply in_map_iff in Hk. destruct Hk as (k0 & <- & _). destruct k0; reflexivity.
  - rewrite Forall_forall in *. intros k Hk. apply in_map_iff in Hk. destruct Hk as (k0 & <- & Hk0). apply wf_set_par. auto.
Qed.

Lemma wf_refresh o ks : Forall wf ks -> Forall (fun k => opar k = Some (oid o)) ks -> wf (refresh o ks).
Proof. intros Hw Hp. destruct o. simpl in *. constructor; auto. discriminate. Qed.

Lemma refresh_facts o ks : oid (refresh o ks) = oid o /\ opar (refresh o ks) = opar o /\ okids (refresh o ks) = ks.
Proof. destruct o; simpl; auto. Qed.

(* ---- modification at a path *)
Lemma map_nth_Forall {X} (P : X -> Prop) g : forall l i, Forall P l -> (forall x, P x -> P (g x)) -> Forall P (map_nth i g l).
Proof.
  induction l as [|x l IH]; intros i Hl Hg; simpl; [constructor|]. inversion Hl; subst.
  destruct i; constructor; auto.
Qed.

Lemma modify_at_wf f : (forall n, wf n -> wf (f n) /\ opar (f n) = opar n) ->
  forall p o, wf o -> wf (modify_at p f o) /\ opar (modify_at p f o) = opar o.
Proof.
  intros Hf. induction p as [|i p IH]; intros o Ho; [apply Hf; exact Ho|].
  simpl. destruct o as [j s a b q z h kids]. inversion Ho as [? ? ? ? ? ? ? ? Hz Hh Hp Hk]; subst. simpl okids.
  split; [|reflexivity].
  apply wf_refresh.
  - apply map_nth_Forall; [exact Hk|]. intros x Hx. apply IH. exact Hx.
  - simpl. assert (Hboth : Forall (fun k => wf k /\ opar k = Some j) kids).
    { rewrite Forall_forall in *. intros k Hin. split; auto. }
    assert (Hres : Forall (fun k => wf k /\ opar k = Some j) (map_nth i (modify_at p f) kids)).
    { apply map_nth_Forall; [exact Hboth|]. intros x [Hx Hpx]. destruct (IH x Hx) as [W Pa]. split; [exact W|]. rewrite Pa. exact Hpx. }
    rewrite Forall_forall in *. intros k Hin. apply Hres. exact Hin.
Qed.

Lemma touch_at_wf f : (forall n, wf n -> wf (f n) /\ opar (f n) = opar n /\ abs (f n) = abs n /\ osz (f n) = osz n) ->
  forall p o, wf o -> wf (touch_at p f o) /\ opar (touch_at p f o) = opar o /\ abs (touch_at p f o) = abs o /\
                     osz (touch_at p f o) = osz o.
Proof.
  intros Hf. induction p as [|i p IH]; intros o Ho; [apply Hf; exact Ho|].
  simpl. destruct o as [j s a b q z h kids]. inversion Ho as [? ? ? ? ? ? ? ? Hz Hh Hp Hk]; subst.
  assert (Hboth : Forall (fun k => wf k /\ opar k = Some j) kids).
  { rewrite Forall_forall in *. intros k Hin. split; auto. }
  assert (Hres : Forall (fun k => wf k /\ opar k = Some j) (map_nth i (touch_at p f) kids)).
  { apply map_nth_Forall; [exact Hboth|]. intros x [Hx Hpx]. destruct (IH x Hx) as (W & Pa & _). split; [exact W|]. rewrite Pa. exact Hpx. }
  assert (Habs : map abs (map_nth i (touch_at p f) kids) = map abs kids /\ sum_sz (map_nth i (touch_at p f) kids) = sum_sz kids).
  { clear Hh Hp Hboth Hres Ho. revert i. induction Hk as [|k kids Hk1 _ IHk]; intros i; simpl; [auto|].
    destruct i; simpl.
    - destruct (IH k Hk1) as (_ & _ & Ab & Sz). rewrite Ab, Sz. auto.
    - destruct (IHk i) as [E1 E2]. rewrite E1, E2. auto. }
  destruct Habs as [Hab Hsz]. simpl. split; [|split; [reflexivity|split; [rewrite Hab; reflexivity|reflexivity]]].
  constructor.
  - rewrite Hsz. reflexivity.
  - intros t Ht. rewrite Hab. apply Hh. exact Ht.
  - rewrite Forall_forall in *. intros k Hin. apply Hres. exact Hin.
  - rewrite Forall_forall in *. intros k Hin. apply Hres. exact Hin.
Qed.

Lemma obj_at_wf : forall p o n, wf o -> obj_at o p = Some n -> wf n.
Proof.
  induction p as [|i p IH]; intros o n Ho H; simpl in H; [injection H as <-; exact Ho|].
  destruct (nth_error (okids o) i) as [k|] eqn:E; [|discriminate].
  inversion Ho; subst. simpl in E. apply (IH k n); [|exact H].
  match goal with Hk : Forall wf _ |- _ => rewrite Forall_forall in Hk; apply Hk end. eapply nth_error_In; eauto.
Qed.

(* ---- copies *)
Lemma copy_obj_wf : forall o nx par, wf (fst (copy_obj nx par o)) /\ abs (fst (copy_obj nx par o)) = abs o /\
                                       opar (fst (copy_obj nx par o)) = par /\ oid (fst (copy_obj nx par o)) = nx.
Proof.
  induction o as [i s a b p z h kids IH] using obj_ind'; intros nx par. simpl.
  match goal with |- context [(fix go (n : nat) (ks : list obj) {struct ks} : list obj * nat := _) (S nx) kids] =>
    set (G := (fix go (n : nat) (ks : list obj) {struct ks} : list obj * nat :=
                 match ks with
                 | [] => ([], n)
                 | k :: ks' => let '(k', n1) := copy_obj n (Some nx) k in let '(r, n2) := go n1 ks' in (k' :: r, n2)
                 end)) end.
  assert (HG : forall n, Forall wf (fst (G n kids)) /\ map abs (fst (G n kids)) = map abs kids /\
                         Forall (fun k => opar k = Some nx) (fst (G n kids))).
  { induction IH as [|k kids Hk _ IHk]; intros n; simpl; [repeat split; constructor|].
    destruct (copy_obj n (Some nx) k) as [k' n1] eqn:Ek. destruct (G n1 kids) as [r n2] eqn:Er. simpl.
    destruct (Hk n (Some nx)) as (W & Ab & Pa & _). rewrite Ek in *. simpl in *.
    destruct (IHk n1) as (W2 & Ab2 & Pa2). rewrite Er in *. simpl in *.
    repeat split; [constructor; assumption|rewrite Ab, Ab2; reflexivity|constructor; assumption]. }
  destruct (G (S nx) kids) as [kids' nx'] eqn:EG. simpl.
  destruct (HG (S nx)) as (W & Ab & Pa). rewrite EG in *. simpl in *.
  split; [constructor; [reflexivity|discriminate|exact Pa|exact W]|split; [simpl; rewrite Ab; reflexivity|split; reflexivity]].
Qed.

(* ---- hashing *)
Lemma hash_fill_spec : forall o, wf o ->
  wf (fst (hash_fill o)) /\ snd (hash_fill o) = abs o /\ abs (fst (hash_fill o)) = abs o /\
  osz (fst (hash_fill o)) = osz o /\ opar (fst (hash_fill o)) = opar o /\ oid (fst (hash_fill o)) = oid o.
Proof.
  induction o as [i s a b p z h kids IH] using obj_ind'; intros Ho.
  inversion Ho as [? ? ? ? ? ? ? ? Hz Hh Hp Hk]; subst. destruct h as [t|]; simpl.
  - repeat split; auto; try (apply Hh; reflexivity).
  - assert (HK : Forall wf (map fst (map hash_fill kids)) /\ map snd (map hash_fill kids) = map abs kids /\
                 map abs (map fst (map hash_fill kids)) = map abs kids /\
                 sum_sz (map fst (map hash_fill kids)) = sum_sz kids /\
                 Forall (fun k => opar k = Some i) (map fst (map hash_fill kids))).
    { clear Hh Ho. induction IH as [|k kids Hk1 _ IHk]; simpl; [repeat split; constructor|].
      inversion Hk as [|? ? Hwk Hwks]; subst. inversion Hp as [|? ? Hpk Hpks]; subst.
      destruct (Hk1 Hwk) as (W & S1 & A1 & Z1 & P1 & _).
      destruct (IHk Hpks Hwks) as (W2 & S2 & A2 & Z2 & P2).
      split; [constructor; assumption|]. split; [rewrite S1, S2; reflexivity|]. split; [rewrite A1, A2; reflexivity|].
      split; [rewrite Z1, Z2; reflexivity|]. constructor; [rewrite P1; assumption|assumption]. }
    destruct HK as (W & S1 & A1 & Z1 & P1).
    split; [|split; [rewrite S1; reflexivity|split; [rewrite A1; reflexivity|split; [reflexivity|split; reflexivity]]]].
    constructor; [rewrite Z1; reflexivity| |exact P1|exact W].
    intros t Ht. injection Ht as <-. rewrite S1, A1. reflexivity.
Qed.

(* two objects are equal (hash equality, hashes collision-free) exactly when they have the same structure *)
Theorem eq_iff_structure o1 o2 : wf o1 -> wf o2 ->
  (snd (hash_fill o1) = snd (hash_fill o2) <-> abs o1 = abs o2).
Proof. intros H1 H2. destruct (hash_fill_spec o1 H1) as (_ & -> & _). destruct (hash_fill_spec o2 H2) as (_ & -> & _). tauto. Qed.

Lemma In_firstn' {X} (x : X) : forall n l, In x (firstn n l) -> In x l.
Proof. induction n as [|n IH]; intros [|y l] H; simpl in *; try tauto. destruct H; auto. Qed.

(* ---- pool manipulation *)
Lemma In_skipn' {X} (x : X) : forall n l, In x (skipn n l) -> In x l.
Proof. induction n as [|n IH]; intros [|y l] H; simpl in *; try tauto. right. apply IH. exact H. Qed.

Lemma Forall_set_nth {X} (P : X -> Prop) n x l : Forall P l -> P x -> Forall P (set_nth n x l).
Proof.
  intros Hl Hx. unfold set_nth. apply Forall_app. split.
  - rewrite Forall_forall in *. intros y Hy. apply Hl. eapply In_firstn'; eauto.
  - constructor; [exact Hx|]. rewrite Forall_forall in *. intros y Hy. apply Hl. eapply In_skipn'; eauto.
Qed.

Lemma remove_roots_incl idx l x : In x (remove_roots idx l) -> In x l.
Proof.
  unfold remove_roots. intros H. apply in_map_iff in H. destruct H as ([i y] & <- & Hin).
  apply filter_In in Hin. destruct Hin as [Hin _]. apply in_combine_r in Hin. exact Hin.
Qed.

Lemma Forall_remove_roots (P : obj -> Prop) idx l : Forall P l -> Forall P (remove_roots idx l).
Proof. rewrite !Forall_forall. intros H x Hx. apply H. eapply remove_roots_incl; eauto. Qed.

Lemma take_roots_Forall (P : obj -> Prop) : forall idx l ks, Forall P l -> take_roots idx l = Some ks -> Forall P ks.
Proof.
  induction idx as [|i idx IH]; intros l ks Hl H; simpl in H; [injection H as <-; constructor|].
  destruct (nth_error l i) as [o|] eqn:E; [|discriminate]. destruct (take_roots idx l) as [r|] eqn:Er; [|discriminate].
  injection H as <-. constructor; [|eapply IH; eauto]. rewrite Forall_forall in Hl. apply Hl. eapply nth_error_In; eauto.
Qed.

Lemma prefix_at_wf : forall p o, wf o -> wf (prefix_at p o) /\ opar (prefix_at p o) = opar o.
Proof.
  induction p as [|i p IH]; intros o Ho; [split; [exact Ho|reflexivity]|].
  destruct o as [j s a b q z h kids]. inversion Ho as [? ? ? ? ? ? ? ? Hz Hh Hp Hk]; subst.
  assert (Hfirst : Forall wf (firstn i kids) /\ Forall (fun k => opar k = Some j) (firstn i kids)).
  { split; rewrite Forall_forall in *; intros k Hin; [apply Hk|apply Hp]; eapply In_firstn'; eauto. }
  destruct p as [|i' p'].
  - simpl. split; [|reflexivity]. destruct Hfirst as [F1 F2]. constructor; [reflexivity|discriminate|exact F2|exact F1].
  - change (prefix_at (i :: i' :: p') (O j s a b q (S (sum_sz kids)) h kids))
      with (refresh (O j s a b q (S (sum_sz kids)) h kids)
              (firstn i kids ++ match nth_error kids i with Some k => [prefix_at (i' :: p') k] | None => [] end)).
    split; [|reflexivity]. destruct Hfirst as [F1 F2]. apply wf_refresh; simpl.
    + apply Forall_app. split; [exact F1|]. destruct (nth_error kids i) as [k|] eqn:E; [|constructor].
      constructor; [|constructor]. apply IH. rewrite Forall_forall in Hk. apply Hk. eapply nth_error_In; eauto.
    + apply Forall_app. split; [exact F2|]. destruct (nth_error kids i) as [k|] eqn:E; [|constructor].
      constructor; [|constructor]. assert (Hin : In k kids) by (eapply nth_error_In; eauto).
      rewrite Forall_forall in Hk, Hp. destruct (IH k (Hk k Hin)) as [_ Pa]. transitivity (opar k); [exact Pa|apply Hp; exact Hin].
Qed.

(* ---- every public operation preserves the bookkeeping invariant *)
Lemma field_update_ok (g : obj -> obj) :
  (forall i s a b q z h k, exists s' a' b', g (O i s a b q z h k) = refresh (O i s' a' b' q 0 None k) k) ->
  forall n, wf n -> wf (g n) /\ opar (g n) = opar n.
Proof.
  intros Hg n Hn. destruct n as [i s a b q z h k]. destruct (Hg i s a b q z h k) as (s' & a' & b' & ->).
  inversion Hn; subst. simpl. split; [|reflexivity]. constructor; auto. discriminate.
Qed.

Theorem step_wf st o : WF st -> WF (step st o).
Proof.
  unfold WF. intros H. destruct o as [s a b kids|r p c|r p kids|r p s|r p a|r p b|r p|r p|r|r p r2 p2|r p|r p]; simpl.
  - destruct (nodup_b kids); [|exact H]. destruct (take_roots kids (pool st)) as [ks|] eqn:E; [|exact H]. simpl.
    apply Forall_app. split; [apply Forall_remove_roots; exact H|]. constructor; [|constructor].
    apply wf_rebuild. eapply take_roots_Forall; eauto.
  - destruct (Nat.eqb r c); [exact H|].
    destruct (nth_error (pool st) r) as [ro|] eqn:Er; [|exact H]. destruct (nth_error (pool st) c) as [co|] eqn:Ec; [|exact H].
    destruct (obj_at ro p) as [n|] eqn:En; [|exact H]. simpl.
    assert (Hro : wf ro) by (rewrite Forall_forall in H; apply H; eapply nth_error_In; eauto).
    assert (Hco : wf co) by (rewrite Forall_forall in H; apply H; eapply nth_error_In; eauto).
    apply Forall_remove_roots. apply Forall_set_nth; [exact H|].
    apply modify_at_wf; [|exact Hro]. intros m Hm. destruct m as [i s a b q z h k]. inversion Hm; subst.
    simpl. split; [|reflexivity]. constructor.
    + reflexivity.
    + discriminate.
    + apply Forall_app. split; [assumption|]. constructor; [|constructor]. destruct co; reflexivity.
    + apply Forall_app. split; [assumption|]. constructor; [|constructor]. apply wf_set_par. exact Hco.
  - destruct (nodup_b kids && negb (existsb (Nat.eqb r) kids)); [|exact H].
    destruct (nth_error (pool st) r) as [ro|] eqn:Er; [|exact H].
    destruct (take_roots kids (pool st)) as [ks|] eqn:Ek; [|exact H].
    destruct (obj_at ro p) as [n|] eqn:En; [|exact H]. simpl.
    assert (Hro : wf ro) by (rewrite Forall_forall in H; apply H; eapply nth_error_In; eauto).
    assert (Hks : Forall wf ks) by (eapply take_roots_Forall; eauto).
    apply Forall_remove_roots. apply Forall_set_nth; [exact H|].
    apply modify_at_wf; [|exact Hro]. intros m Hm. destruct m as [i s a b q z h k]. simpl. split; [|reflexivity].
    constructor; [reflexivity|discriminate| |].
    + rewrite Forall_forall. intros x Hx. apply in_map_iff in Hx. destruct Hx as (x0 & <- & _). destruct x0; reflexivity.
    + rewrite Forall_forall in *. intros x Hx. apply in_map_iff in Hx. destruct Hx as (x0 & <- & Hx0). apply wf_set_par. auto.
  - destruct (nth_error (pool st) r) as [ro|] eqn:Er; [|exact H]. destruct (obj_at ro p) as [n|] eqn:En; [|exact H]. simpl.
    assert (Hro : wf ro) by (rewrite Forall_forall in H; apply H; eapply nth_error_In; eauto).
    apply Forall_set_nth; [exact H|]. apply modify_at_wf; [|exact Hro].
    apply field_update_ok. intros. eexists _, _, _. reflexivity.
  - destruct (nth_error (pool st) r) as [ro|] eqn:Er; [|exact H]. destruct (obj_at ro p) as [n|] eqn:En; [|exact H]. simpl.
    assert (Hro : wf ro) by (rewrite Forall_forall in H; apply H; eapply nth_error_In; eauto).
    apply Forall_set_nth; [exact H|]. apply modify_at_wf; [|exact Hro].
    apply field_update_ok. intros. eexists _, _, _. reflexivity.
  - destruct (nth_error (pool st) r) as [ro|] eqn:Er; [|exact H]. destruct (obj_at ro p) as [n|] eqn:En; [|exact H]. simpl.
    assert (Hro : wf ro) by (rewrite Forall_forall in H; apply H; eapply nth_error_In; eauto).
    apply Forall_set_nth; [exact H|]. apply modify_at_wf; [|exact Hro].
    apply field_update_ok. intros. eexists _, _, _. reflexivity.
  - destruct (nth_error (pool st) r) as [ro|] eqn:Er; [|exact H]. destruct (obj_at ro p) as [n|] eqn:En; [|exact H]. simpl.
    assert (Hro : wf ro) by (rewrite Forall_forall in H; apply H; eapply nth_error_In; eauto).
    apply Forall_set_nth; [exact H|]. apply touch_at_wf; [|exact Hro].
    intros m Hm. destruct (hash_fill_spec m Hm) as (W & _ & Ab & Sz & Pa & _). auto.
  - destruct (nth_error (pool st) r) as [ro|] eqn:Er; [|exact H]. destruct (obj_at ro p) as [n|] eqn:En; [|exact H].
    destruct (copy_obj (next st) None n) as [c nx] eqn:Ec. simpl. apply Forall_app. split; [exact H|].
    constructor; [|constructor]. pose proof (copy_obj_wf n (next st) None) as Hc. rewrite Ec in Hc. apply Hc.
  - destruct (nth_error (pool st) r) as [ro|] eqn:Er; [|exact H].
    destruct (copy_obj (next st) None ro) as [c nx] eqn:Ec. simpl. apply Forall_app. split; [exact H|].
    constructor; [|constructor]. pose proof (copy_obj_wf ro (next st) None) as Hc. rewrite Ec in Hc. apply Hc.
  - destruct (nth_error (pool st) r) as [ro|] eqn:Er; [|exact H]. destruct (nth_error (pool st) r2) as [ro2|] eqn:Er2; [|exact H].
    destruct (obj_at ro p) as [n|] eqn:En; [|exact H]. destruct (obj_at ro2 p2) as [v|] eqn:Ev; [|exact H].
    destruct (copy_obj (next st) None ro) as [c nx] eqn:Ec.
    pose proof (copy_obj_wf ro (next st) None) as Hc. rewrite Ec in Hc. destruct Hc as (Wc & _).
    destruct (Nat.eqb (osym n) (osym v)).
    + destruct (copy_obj nx None v) as [v' nx'] eqn:Ev'. simpl.
      pose proof (copy_obj_wf v nx None) as Hv. rewrite Ev' in Hv. destruct Hv as (Wv & _).
      apply Forall_app. split; [exact H|]. constructor; [|constructor].
      destruct p as [|i p]; [exact Wv|]. apply modify_at_wf; [|exact Wc].
      intros m Hm. split; [apply wf_set_par; exact Wv|]. destruct v'; reflexivity.
    + simpl. apply Forall_app. split; [exact H|]. constructor; [exact Wc|constructor].
  - destruct (nth_error (pool st) r) as [ro|] eqn:Er; [|exact H].
    destruct p as [|i p]; [exact H|].
    destruct (match nth_error (okids ro) i with Some k => obj_at k p | None => None end) as [n|]; [|exact H].
    destruct (copy_obj (next st) None ro) as [c nx] eqn:Ec. cbn [pool].
    pose proof (copy_obj_wf ro (next st) None) as Hc. rewrite Ec in Hc. destruct Hc as (Wc & _).
    apply Forall_app. split; [exact H|]. constructor; [|constructor]. apply prefix_at_wf. exact Wc.
  - destruct (nth_error (pool st) r) as [ro|] eqn:Er; [|exact H].
    destruct (obj_at ro p) as [n|]; [|exact H].
    destruct (copy_obj (next st) None ro) as [c nx] eqn:Ec. cbn [pool].
    pose proof (copy_obj_wf ro (next st) None) as Hc. rewrite Ec in Hc. destruct Hc as (Wc & _).
    apply Forall_app. split; [exact H|]. constructor; [|constructor].
    apply modify_at_wf; [|exact Wc]. intros m Hm. split.
    + apply wf_refresh; constructor.
    + apply refresh_facts.
Qed.

Theorem ops_preserve_wf ops : forall st, WF st -> WF (fold_left step ops st).
Proof. induction ops as [|o ops IH]; intros st H; simpl; [exact H|]. apply IH. apply step_wf. exact H. Qed.

Corollary reachable_wf ops : WF (run ops).
Proof. apply ops_preserve_wf. constructor. Qed.

(* copies, replacements and prefixes are new objects: the pool they were taken from is unchanged *)
Definition is_fresh_op (o : op) : bool :=
  match o with OCopy _ _ | OCopyWhole _ | OReplace _ _ _ _ | OPrefix _ _ | OCopyPruned _ _ => true | _ => false end.

Theorem fresh_ops_leave_inputs st o : is_fresh_op o = true ->
  pool (step st o) = pool st \/ exists c, pool (step st o) = pool st ++ [c].
Proof.
  destruct o; try discriminate; intros _; simpl.
  - destruct (nth_error (pool st) r); [|auto]. destruct (obj_at o p); [|auto].
    destruct (copy_obj (next st) None o0). simpl. right. eexists; reflexivity.
  - destruct (nth_error (pool st) r); [|auto]. destruct (copy_obj (next st) None o). simpl. right. eexists; reflexivity.
  - destruct (nth_error (pool st) r); [|auto]. destruct (nth_error (pool st) r2); [|auto].
    destruct (obj_at o p); [|auto]. destruct (obj_at o0 p2); [|auto]. destruct (copy_obj (next st) None o).
    destruct (Nat.eqb (osym o1) (osym o2)); [destruct (copy_obj n None o2)|]; simpl; right; eexists; reflexivity.
  - destruct (nth_error (pool st) r); [|auto]. destruct p; [auto|].
    destruct (match nth_error (okids o) n with Some k => obj_at k p | None => None end); [|auto].
    destruct (copy_obj (next st) None o). cbn [pool]. right. eexists; reflexivity.
  - destruct (nth_error (pool st) r); [|auto]. destruct (obj_at o p); [|auto].
    destruct (copy_obj (next st) None o). cbn [pool]. right. eexists; reflexivity.
Qed.

(* the result of replace has the structure of the input with the subtree exchanged *)
Example replace_example :
  let st := run [ONew 5 0 0 []; ONew 6 0 0 []; ONew 1 0 0 [0; 1]; ONew 6 0 0 []; OReplace 0 [1] 1 []] in
  map abs (pool st) = [A 1 0 0 [A 5 0 0 []; A 6 0 0 []]; A 6 0 0 []; A 1 0 0 [A 5 0 0 []; A 6 0 0 []]] /\ WF st.
Proof. split; [vm_compute; reflexivity|apply reachable_wf]. Qed.
