(* C11: cached evaluations equal fresh evaluations. *)
From Coq Require Import List Arith Bool String NArith.
From FV Require Import Base.Grammar Model.ReplaceM Model.C01Case Model.SearchM Model.ConstraintM Model.CacheM.
Import ListNotations.
Open Scope list_scope.

Section MemoThm.
Variables (K V : Type) (keq : K -> K -> bool) (f : K -> V).
(* equal keys are equal arguments: the key abstracts nothing the evaluation depends on, and does not collide *)
Hypothesis key_complete : forall k k', keq k k' = true -> f k = f k'.

Definition consistent (c : cache K V) : Prop := forall k v, mlookup K V keq c k = Some v -> v = f k.

Lemma ask_consistent c k : consistent c -> consistent (snd (ask K V keq f c k)).
Proof.
  intros H. unfold ask. destruct (mlookup K V keq c k) eqn:E; simpl; [exact H|].
  intros k' v Hl. simpl in Hl. destruct (keq k' k) eqn:Ek.
  - injection Hl as <-. symmetry. apply key_complete. exact Ek.
  - apply H. exact Hl.
Qed.

Lemma run_consistent hist : consistent (run K V keq f hist).
Proof.
  unfold run. assert (G : forall c, consistent c -> consistent (fold_left (fun c k => snd (ask K V keq f c k)) hist c)).
  { induction hist as [|k hist IH]; intros c Hc; simpl; [exact Hc|]. apply IH. apply ask_consistent. exact Hc. }
  apply G. intros k v H. discriminate.
Qed.

(* whatever was evaluated before, every answer is the fresh one *)
Theorem cache_transparent hist k : fst (ask K V keq f (run K V keq f hist) k) = f k.
Proof.
  pose proof (run_consistent hist) as H. unfold ask. destruct (mlookup K V keq (run K V keq f hist) k) eqn:E; simpl; [apply H; exact E|reflexivity].
Qed.
End MemoThm.

(* the model's constraint key (tree, scope, local variables) is complete for the modelled evaluation *)
Lemma tree_eqb_eq : forall a b, tree_eqb a b = true -> a = b.
Proof.
  induction a as [l|n kids IH] using tree_ind'; intros [l'|n' kids'] H; simpl in H; try discriminate.
  - f_equal. destruct l as [[p|p]|x], l' as [[q|q]|y]; simpl in H; try discriminate.
    + apply (list_eqb_eq N.eqb N.eqb_eq) in H. subst. reflexivity.
    + apply (list_eqb_eq N.eqb N.eqb_eq) in H. subst. reflexivity.
    + apply Bool.eqb_prop in H. subst. reflexivity.
  - apply andb_true_iff in H. destruct H as [Hn Hk]. apply String.eqb_eq in Hn. subst n'. f_equal.
    revert kids' Hk. induction IH as [|k kids Hk1 _ IHk]; intros [|k' kids'] Hk; try discriminate; [reflexivity|].
    apply andb_true_iff in Hk. destruct Hk as [H1 H2]. f_equal; [apply Hk1; exact H1|apply IHk; exact H2].
Qed.

Lemma path_eqb_eq a b : path_eqb a b = true -> a = b.
Proof. apply (list_eqb_eq Nat.eqb). intros x y. apply Nat.eqb_eq. Qed.

Lemma list_eqb_sound {X} (e : X -> X -> bool) : (forall x y, e x y = true -> x = y) -> forall a b, list_eqb e a b = true -> a = b.
Proof.
  intros He. induction a as [|x a IH]; intros [|y b] H; simpl in H; try discriminate; [reflexivity|].
  apply andb_true_iff in H. destruct H as [H1 H2]. f_equal; [apply He; exact H1|apply IH; exact H2].
Qed.

Lemma ref_eqb_eq a b : ref_eqb a b = true -> a = b.
Proof.
  destruct a, b; simpl; try discriminate; intros H; f_equal.
  - apply path_eqb_eq. exact H.
  - apply (list_eqb_sound path_eqb path_eqb_eq). exact H.
Qed.

Lemma cont_eqb_eq a b : cont_eqb a b = true -> a = b.
Proof.
  destruct a, b; simpl; try discriminate; intros H; f_equal.
  - apply ref_eqb_eq. exact H.
  - apply (list_eqb_sound ref_eqb ref_eqb_eq). exact H.
  - apply (list_eqb_sound ref_eqb ref_eqb_eq). exact H.
Qed.

Lemma ckey_eqb_eq k k' : ckey_eqb k k' = true -> k = k'.
Proof.
  destruct k as [[t sc] e], k' as [[t' sc'] e']. simpl. intros H.
  apply andb_true_iff in H. destruct H as [H He]. apply andb_true_iff in H. destruct H as [Ht Hs].
  apply tree_eqb_eq in Ht. subst t'.
  assert (sc = sc').
  { apply (list_eqb_sound (fun x y => String.eqb (fst x) (fst y) && ref_eqb (snd x) (snd y))); [|exact Hs].
    intros [n r] [n' r'] Hx. simpl in Hx. apply andb_true_iff in Hx. destruct Hx as [H1 H2].
    apply String.eqb_eq in H1. apply ref_eqb_eq in H2. subst. reflexivity. }
  assert (e = e').
  { apply (list_eqb_sound binding_eqb); [|exact He].
    intros [n c] [n' c'] Hx. unfold binding_eqb in Hx. simpl in Hx. apply andb_true_iff in Hx. destruct Hx as [H1 H2].
    apply String.eqb_eq in H1. apply cont_eqb_eq in H2. subst. reflexivity. }
  subst. reflexivity.
Qed.

(* C11 for the constraint caches of the model: any history of evaluations (of any trees, scopes, local variables)
   through the memo of a constraint node returns what a fresh evaluation returns *)
Theorem constraint_cache_transparent orc lazy c hist k :
  fst (ask ckey res ckey_eqb (eval_key orc lazy c) (run ckey res ckey_eqb (eval_key orc lazy c) hist) k) = eval_key orc lazy c k.
Proof.
  apply cache_transparent. intros k1 k2 H. apply ckey_eqb_eq in H. subst. reflexivity.
Qed.

(* sensitivity: a key that forgets the local variables returns a stale verdict *)
Example key_without_locals_refuted :
  let t0 := Node "<s>" [Node "<a>" [Leaf (LPay (PStr [49%N]))]] in
  let c := KExpr 0 [] in
  let orc := [(0, [], [("x", CTree (RPath [0]))], OTrue); (0, [], [("x", CTree (RPath []))], OFalse)] in
  let k1 : ckey := (t0, [], [("x", CTree (RPath [0]))]) in
  let k2 : ckey := (t0, [], [("x", CTree (RPath []))]) in
  fst (ask ckey res ckey_eqb_no_locals (eval_key orc false c) (run ckey res ckey_eqb_no_locals (eval_key orc false c) [k1]) k2)
    <> eval_key orc false c k2.
Proof. vm_compute. discriminate. Qed.
