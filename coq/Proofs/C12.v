(* C12: parse results do not depend on earlier parse calls. *)
From Coq Require Import List Arith Bool.
From FV Require Import Base.Grammar Model.ParserCacheM.
Import ListNotations.
Open Scope list_scope.

Section Thm.
Variable forest : nat -> list tree.

Lemma serve_ok c r : cache_ok forest c -> cache_ok forest (snd (serve forest c r)).
Proof.
  intros H. destruct r as [k|k n|]; simpl.
  - destruct (clookup c k) eqn:E; simpl; [exact H|].
    intros k' f Hl. simpl in Hl. destruct (Nat.eqb k' k) eqn:Ek; [apply Nat.eqb_eq in Ek; subst; congruence|apply H; exact Hl].
  - destruct (clookup c k) eqn:E; simpl; [exact H|].
    destruct (Nat.ltb (List.length (forest k)) n); simpl; [|exact H].
    intros k' f Hl. simpl in Hl. destruct (Nat.eqb k' k) eqn:Ek; [apply Nat.eqb_eq in Ek; subst; congruence|apply H; exact Hl].
  - exact H.
Qed.

Lemma run_ok hist : cache_ok forest (run forest hist).
Proof.
  unfold run. assert (G : forall c, cache_ok forest c -> cache_ok forest (fold_left (fun c r => snd (serve forest c r)) hist c)).
  { induction hist as [|r hist IH]; intros c Hc; simpl; [exact Hc|]. apply IH. apply serve_ok. exact Hc. }
  apply G. intros k f H. discriminate.
Qed.

(* whatever happened before, a complete request is answered with the stateless forest ... *)
Theorem history_independent hist k : fst (serve forest (run forest hist) (ParseAll k)) = forest k.
Proof.
  pose proof (run_ok hist) as H. simpl. destruct (clookup (run forest hist) k) eqn:E; simpl; [apply H; exact E|reflexivity].
Qed.

(* ... and a first-trees request with its prefix *)
Theorem history_independent_prefix hist k n : fst (serve forest (run forest hist) (ParseSome k n)) = firstn n (forest k).
Proof.
  pose proof (run_ok hist) as H. simpl. destruct (clookup (run forest hist) k) eqn:E; simpl.
  - rewrite (H _ _ E). reflexivity.
  - destruct (Nat.ltb (List.length (forest k)) n) eqn:El; simpl; [|reflexivity].
    apply Nat.ltb_lt in El. symmetry. apply firstn_all2. apply Nat.lt_le_incl. exact El.
Qed.
End Thm.

(* the behaviour that was repaired (cache filled while the generator is consumed) as a contrast: with it the
   statement is false; kept as a regression witness for the model *)
Example first_then_all :
  let forest := fun k : nat => [Leaf (LBit true); Leaf (LBit false); Leaf (LBit true)] in
  fst (serve forest (run forest [ParseSome 0 1]) (ParseAll 0)) = forest 0.
Proof. reflexivity. Qed.
