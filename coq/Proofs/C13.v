(* C13: a literal terminal is matched independently of how the input is cut into pieces. *)
From Coq Require Import List Arith Bool NArith Lia.
From FV Require Import Model.EarleyM Model.IncrementalM.
Import ListNotations.
Open Scope list_scope.

Lemma is_prefix_app_l : forall p a b, is_prefix p a = true -> is_prefix p (a ++ b) = true.
Proof.
  induction p as [|x p IH]; intros a b H; simpl in *; [reflexivity|].
  destruct a as [|y a]; [discriminate|]. simpl. apply andb_true_iff in H. destruct H as [H1 H2]. rewrite H1. simpl. apply IH. exact H2.
Qed.

Lemma is_prefix_refl : forall l, is_prefix l l = true.
Proof. induction l as [|x l IH]; simpl; [reflexivity|]. rewrite N.eqb_refl. exact IH. Qed.

Lemma is_prefix_trans : forall a b c, is_prefix a b = true -> is_prefix b c = true -> is_prefix a c = true.
Proof.
  induction a as [|x a IH]; intros b c H1 H2; simpl in *; [reflexivity|].
  destruct b as [|y b]; [discriminate|]. destruct c as [|z c]; [simpl in H2; discriminate|]. simpl in *.
  apply andb_true_iff in H1. destruct H1 as [E1 P1]. apply andb_true_iff in H2. destruct H2 as [E2 P2].
  apply N.eqb_eq in E1. apply N.eqb_eq in E2. subst. rewrite N.eqb_refl. simpl. eapply IH; eauto.
Qed.

(* if l is a prefix of m ++ f and m ++ f is not ... : the two prefix tests cover what can still succeed *)
Lemma prefix_of_longer : forall l cw rest, is_prefix l (cw ++ rest) = true -> is_prefix l cw = false -> is_prefix cw l = true.
Proof.
  induction l as [|x l IH]; intros cw rest H Hn; [simpl in Hn; discriminate|].
  destruct cw as [|y cw]; [reflexivity|]. simpl in H, Hn |- *.
  apply andb_true_iff in H. destruct H as [E P]. rewrite E in Hn. simpl in Hn.
  apply N.eqb_eq in E. subst y. rewrite N.eqb_refl. simpl. eapply IH; eauto.
Qed.

Lemma app_assoc' {X} (a b c : list X) : (a ++ b) ++ c = a ++ (b ++ c).
Proof. symmetry. apply app_assoc. Qed.

(* feeding the pieces one after the other matches exactly when the terminal is a prefix of everything fed *)
Theorem feed_all_spec l : forall frags matched,
  feed_all l matched frags = true -> is_prefix l (matched ++ concat frags) = true.
Proof.
  induction frags as [|f rest IH]; intros matched H; simpl in *; [discriminate|].
  unfold feed in H. destruct (is_prefix l (matched ++ f)) eqn:E1.
  - rewrite app_assoc. apply is_prefix_app_l. exact E1.
  - destruct (is_prefix (matched ++ f) l) eqn:E2; [|discriminate].
    specialize (IH _ H). rewrite app_assoc' in IH. exact IH.
Qed.

Theorem feed_all_complete l : forall frags matched,
  is_prefix l matched = false ->
  is_prefix l (matched ++ concat frags) = true -> feed_all l matched frags = true.
Proof.
  induction frags as [|f rest IH]; intros matched Hm H; simpl in *.
  - rewrite app_nil_r in H. congruence.
  - unfold feed. destruct (is_prefix l (matched ++ f)) eqn:E1; [reflexivity|].
    rewrite app_assoc in H. rewrite (prefix_of_longer _ _ _ H E1). apply IH; [exact E1|exact H].
Qed.

(* however a (non-empty) literal's occurrence is cut into pieces, it is matched exactly when it is a prefix of the
   concatenation -- the one-shot test of the scanner *)
Theorem fragmentation_irrelevant_literal l frags : l <> [] ->
  feed_all l [] frags = is_prefix l (concat frags).
Proof.
  intros Hl. destruct (is_prefix l (concat frags)) eqn:E.
  - apply feed_all_complete; [destruct l; [congruence|reflexivity]|exact E].
  - destruct (feed_all l [] frags) eqn:F; [|reflexivity]. apply feed_all_spec in F. simpl in F. congruence.
Qed.

Corollary any_two_cuts_agree l f1 f2 : l <> [] -> concat f1 = concat f2 -> feed_all l [] f1 = feed_all l [] f2.
Proof. intros Hl H. rewrite !fragmentation_irrelevant_literal by exact Hl. rewrite H. reflexivity. Qed.

Example cut_inside_literal :
  feed_all [97; 98; 99]%N [] [[97%N]; [98%N]; [99%N; 100%N]] = true /\ feed_all [97; 98; 99]%N [] [[97%N; 120%N]; [99%N]] = false.
Proof. vm_compute. split; reflexivity. Qed.
