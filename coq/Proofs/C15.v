(* C15: two grammars whose rule bodies agree up to the normal form of Model/PrinterM.v have the same derivations. *)
From Coq Require Import List String NArith Bool Arith Lia.
From FV Require Import Base.Re Base.Grammar Model.ReplaceM Model.PrinterM Proofs.C01.
Import ListNotations.
Open Scope list_scope.

Section Lang.
Variable G : grammar.
Notation L r w := (lang tree atom (acc G) (to_re r) w).

Fixpoint catL (l : list rhs) (w : list tree) : Prop :=
  match l with
  | [] => w = []
  | r :: l' => exists u v, w = u ++ v /\ L r u /\ catL l' v
  end.

Lemma cat_catL l w : L (Cat l) w <-> catL l w.
Proof.
  revert w; induction l as [|r l IH]; intros w; cbn [to_re lang catL]; [tauto|].
  split; intros (u & v & E & H1 & H2); exists u, v; repeat split; auto; apply IH; exact H2.
Qed.

Lemma alt_ex l w : L (Alt l) w <-> Exists (fun r => L r w) l.
Proof.
  induction l as [|r l IH]; cbn [to_re lang].
  - split; [tauto|]. intros H; inversion H.
  - split.
    + intros [H|H]; [left; exact H|right; apply IH; exact H].
    + intros H; inversion H; subst; [left; assumption|right; apply IH; assumption].
Qed.

Lemma catL_app l1 l2 w : catL (l1 ++ l2) w <-> exists u v, w = u ++ v /\ catL l1 u /\ catL l2 v.
Proof.
  revert w; induction l1 as [|r l1 IH]; intros w; cbn [app catL].
  - split.
    + intros H; exists [], w; auto.
    + intros (u & v & E & Hu & Hv); subst; exact Hv.
  - split.
    + intros (u & v & E & Hr & Hc). apply IH in Hc. destruct Hc as (u' & v' & E' & H1 & H2).
      exists (u ++ u'), v'. subst. rewrite app_assoc. repeat split; auto. exists u, u'; auto.
    + intros (u & v & E & (a & b & E' & Ha & Hb) & Hv). subst.
      exists a, (b ++ v). rewrite app_assoc. repeat split; auto. apply IH. exists b, v; auto.
Qed.

Lemma catL_single r w : catL [r] w <-> L r w.
Proof.
  cbn [catL]. split.
  - intros (u & v & E & H & Ev); subst. rewrite app_nil_r. exact H.
  - intros H; exists w, []; rewrite app_nil_r; auto.
Qed.

Lemma splice_L r w : catL (splice r) w <-> L r w.
Proof.
  destruct r as [l|l|r mn mx|nt|t]; cbn [splice]; try apply catL_single.
  symmetry; apply cat_catL.
Qed.

Lemma pow_ext (P Q : list tree -> Prop) : (forall w, P w <-> Q w) -> forall n w, pow tree P n w -> pow tree Q n w.
Proof. intros E n w H; induction H; constructor; auto; apply E; assumption. Qed.

Definition norm_alt_list := fix go (l : list rhs) : list rhs := match l with [] => [] | x :: l' => norm x :: go l' end.
Definition norm_cat_list := fix go (l : list rhs) : list rhs := match l with [] => [] | x :: l' => splice (norm x) ++ go l' end.

Lemma unwrap_alt l w : L (un_alt l) w <-> L (Alt l) w.
Proof.
  destruct l as [|x [|y l]]; cbn [un_alt]; try tauto. cbn [to_re lang]. tauto.
Qed.

Lemma unwrap_cat l w : L (un_cat l) w <-> L (Cat l) w.
Proof.
  destruct l as [|x [|y l]]; cbn [un_cat]; try tauto. rewrite cat_catL. symmetry; apply catL_single.
Qed.

Theorem norm_lang r : forall w, L (norm r) w <-> L r w.
Proof.
  induction r as [rs IH|rs IH|r mn mx IH|nt|t] using rhs_ind'; intros w.
  - change (norm (Alt rs)) with (un_alt (norm_alt_list rs)).
    etransitivity; [apply unwrap_alt|]. rewrite !alt_ex.
    induction IH as [|r rs Hr _ IHrs]; cbn [norm_alt_list].
    + tauto.
    + split; intros H; inversion H; subst.
      * left; apply Hr; assumption.
      * right; apply IHrs; assumption.
      * left; apply Hr; assumption.
      * right; apply IHrs; assumption.
  - change (norm (Cat rs)) with (un_cat (norm_cat_list rs)).
    etransitivity; [apply unwrap_cat|]. rewrite !cat_catL. revert w.
    induction IH as [|r rs Hr _ IHrs]; intros w; cbn [norm_cat_list catL].
    + tauto.
    + rewrite catL_app. split.
      * intros (u & v & E & Hu & Hv). exists u, v. repeat split; auto.
        -- apply Hr, splice_L; exact Hu.
        -- apply IHrs; exact Hv.
      * intros (u & v & E & Hu & Hv). exists u, v. repeat split; auto.
        -- apply splice_L, Hr; exact Hu.
        -- apply IHrs; exact Hv.
  - cbn [norm to_re lang]. split; intros (n & H1 & H2 & H3); exists n; repeat split; auto;
      (eapply pow_ext; [|exact H3]); intros w'; [apply IH | symmetry; apply IH].
  - tauto.
  - tauto.
Qed.
End Lang.

(* the comparison used by the check is sound *)
Lemma term_eqb'_eq a b : term_eqb' a b = true -> a = b.
Proof.
  destruct a, b; cbn; try discriminate; intros H.
  - apply payload_eqb_eq in H; congruence.
  - apply Bool.eqb_prop in H; congruence.
  - apply N.eqb_eq in H; congruence.
Qed.

Lemma rhs_eqb_eq a : forall b, rhs_eqb a b = true -> a = b.
Proof.
  induction a as [rs IH|rs IH|r mn mx IH|nt|t] using rhs_ind'; intros b H; destruct b as [l|l|r' mn' mx'|nt'|t']; cbn [rhs_eqb] in H; try discriminate.
  - f_equal. revert l H. induction IH as [|x rs Hx _ IHrs]; intros [|y l] H; cbn in H; try discriminate; auto.
    apply andb_true_iff in H; destruct H as [H1 H2]. f_equal; [apply Hx; exact H1 | apply IHrs; exact H2].
  - f_equal. revert l H. induction IH as [|x rs Hx _ IHrs]; intros [|y l] H; cbn in H; try discriminate; auto.
    apply andb_true_iff in H; destruct H as [H1 H2]. f_equal; [apply Hx; exact H1 | apply IHrs; exact H2].
  - apply andb_true_iff in H; destruct H as [H H3]. apply andb_true_iff in H; destruct H as [H1 H2].
    apply IH in H1. apply Nat.eqb_eq in H2. subst.
    destruct mx as [p|], mx' as [q|]; try discriminate; auto. apply Nat.eqb_eq in H3; subst; auto.
  - apply String.eqb_eq in H; congruence.
  - apply term_eqb'_eq in H; congruence.
Qed.

Lemma rules_equiv_lookup a : forall b, rules_equiv a b = true -> forall nt r,
  assoc String.eqb nt a = Some r -> exists r', assoc String.eqb nt b = Some r' /\ norm r = norm r'.
Proof.
  induction a as [|[n r0] a IH]; intros [|[n' r0'] b] H nt r Hl; cbn [rules_equiv] in H; try discriminate.
  apply andb_true_iff in H; destruct H as [H H3]. apply andb_true_iff in H; destruct H as [H1 H2].
    apply String.eqb_eq in H1; subst n'. apply rhs_eqb_eq in H2.
    cbn [assoc] in *. destruct (String.eqb nt n).
    + inversion Hl; subst. eauto.
    + eapply IH; eauto.
Qed.

Lemma rules_equiv_sym a : forall b, rules_equiv a b = true -> rules_equiv b a = true.
Proof.
  induction a as [|[n r0] a IH]; intros [|[n' r0'] b] H; cbn [rules_equiv] in *; try discriminate; auto.
  apply andb_true_iff in H; destruct H as [H H3]. apply andb_true_iff in H; destruct H as [H1 H2].
  apply String.eqb_eq in H1; subst n'. apply rhs_eqb_eq in H2. rewrite H2.
  rewrite String.eqb_refl. rewrite (IH _ H3).
  assert (R : forall x, rhs_eqb x x = true).
  { clear. intros x. induction x as [rs IH|rs IH|r mn mx IH|nt|t] using rhs_ind'; cbn [rhs_eqb].
    - induction IH as [|x rs Hx _ IHrs]; auto. rewrite Hx; exact IHrs.
    - induction IH as [|x rs Hx _ IHrs]; auto. rewrite Hx; exact IHrs.
    - rewrite IH, Nat.eqb_refl. destruct mx; auto. apply Nat.eqb_refl.
    - apply String.eqb_refl.
    - destruct t; cbn.
      + apply payload_eqb_eq; reflexivity.
      + destruct b; reflexivity.
      + apply N.eqb_refl. }
  rewrite R. reflexivity.
Qed.

Lemma acc_tab_only a b tab x t : acc {| rules := a; re_tab := tab |} x t = acc {| rules := b; re_tab := tab |} x t.
Proof. reflexivity. Qed.

Lemma lang_acc_ext (f g : atom -> tree -> bool) (E : forall x t, f x t = g x t) r :
  forall w, lang tree atom f r w -> lang tree atom g r w.
Proof.
  induction r as [| |x|r1 IH1 r2 IH2|r1 IH1 r2 IH2|r IH mn mx]; intros w; cbn [lang]; auto.
  - intros (y & E1 & E2); exists y; split; auto. rewrite <- E; exact E2.
  - intros [H|H]; [left; apply IH1|right; apply IH2]; exact H.
  - intros (u & v & E1 & H1 & H2); exists u, v; repeat split; auto.
  - intros (n & H1 & H2 & H3); exists n; repeat split; auto.
    clear H1 H2. induction H3; constructor; auto.
Qed.

Lemma valid_transfer a b tab : rules_equiv a b = true -> forall t,
  valid {| rules := a; re_tab := tab |} t -> valid {| rules := b; re_tab := tab |} t.
Proof.
  intros H t. induction t as [l|nt kids IH] using tree_ind'.
  - intros _; constructor.
  - intros V. inversion V as [|nt' kids' body Hl Hex Hk]; subst.
    unfold lookup in Hl; cbn [rules] in Hl.
    destruct (rules_equiv_lookup _ _ H _ _ Hl) as (r' & Hl' & En).
    econstructor.
    + unfold lookup; cbn [rules]; exact Hl'.
    + unfold expands in *. apply norm_lang. rewrite <- En.
      apply (lang_acc_ext (acc {| rules := a; re_tab := tab |})); [intros; apply acc_tab_only|].
      apply norm_lang. exact Hex.
    + rewrite Forall_forall in *. intros k Hin. apply IH; auto.
Qed.

Theorem equiv_same_derivations a b tab s t : rules_equiv a b = true ->
  (derives {| rules := a; re_tab := tab |} s t <-> derives {| rules := b; re_tab := tab |} s t).
Proof.
  intros H. unfold derives. split; intros [R V]; split; auto.
  - eapply valid_transfer; eauto.
  - eapply valid_transfer; [apply rules_equiv_sym|]; eauto.
Qed.

(* ---- constraints: the comparison of exported constraints is sound ---- *)
From Coq Require Import ZArith.
From FV Require Import Model.SearchM Model.ConstraintM Model.C15Case.

Lemma oZ_eqb_eq a b : oZ_eqb a b = true -> a = b.
Proof. destruct a, b; cbn; try discriminate; auto. intros H; apply Z.eqb_eq in H; congruence. Qed.

Lemma index_eqb_eq a b : index_eqb a b = true -> a = b.
Proof.
  destruct a, b; cbn; try discriminate.
  - intros H; apply Z.eqb_eq in H; congruence.
  - intros H; apply andb_true_iff in H; destruct H as [H1 H2]. apply oZ_eqb_eq in H1, H2; congruence.
Qed.

Lemma search_eqb_eq a : forall b, search_eqb a b = true -> a = b.
Proof.
  induction a as [x|p IHp q IHq|p IHp q IHq|p IHp i|p IHp|p IHp]; intros b H; destruct b; cbn [search_eqb] in H; try discriminate.
  - apply String.eqb_eq in H; congruence.
  - apply andb_true_iff in H; destruct H as [H1 H2]. f_equal; auto.
  - apply andb_true_iff in H; destruct H as [H1 H2]. f_equal; auto.
  - apply andb_true_iff in H; destruct H as [H1 H2]. f_equal; auto. apply index_eqb_eq; exact H2.
  - f_equal; auto.
  - f_equal; auto.
Qed.

Lemma binder_eqb_eq a b : binder_eqb a b = true -> a = b.
Proof. destruct a, b; cbn; try discriminate; intros H; apply String.eqb_eq in H; congruence. Qed.

Lemma list_eqb_sound {X} (e : X -> X -> bool) (a : list X) : forall b,
  (forall x y, In x a -> e x y = true -> x = y) -> list_eqb e a b = true -> a = b.
Proof.
  induction a as [|x a IH]; intros [|y b] He H; cbn [list_eqb] in H; try discriminate; auto.
  apply andb_true_iff in H; destruct H as [H1 H2]. f_equal.
  - apply He; [left; reflexivity|exact H1].
  - apply IH; auto. intros; apply He; auto. right; assumption.
Qed.

Lemma ss_eqb_eq a b : ss_eqb a b = true -> a = b.
Proof.
  unfold ss_eqb. apply list_eqb_sound. intros [n s] [n' s'] _ H; cbn [fst snd] in H.
  apply andb_true_iff in H; destruct H as [H1 H2]. apply String.eqb_eq in H1. apply search_eqb_eq in H2. congruence.
Qed.

Section ConstrInd.
  Variable P : constr -> Prop.
  Hypothesis HExpr : forall i ss, P (KExpr i ss).
  Hypothesis HCmp : forall i ss, P (KCmp i ss).
  Hypothesis HAnd : forall l, Forall P l -> P (KAnd l).
  Hypothesis HOr : forall l, Forall P l -> P (KOr l).
  Hypothesis HImp : forall a b, P a -> P b -> P (KImp a b).
  Hypothesis HAll : forall b s c, P c -> P (KAll b s c).
  Hypothesis HAny : forall b s c, P c -> P (KAny b s c).
  Fixpoint constr_ind' (c : constr) : P c :=
    let fix go (l : list constr) : Forall P l :=
      match l with [] => Forall_nil _ | x :: l' => Forall_cons _ (constr_ind' x) (go l') end in
    match c with
    | KExpr i ss => HExpr i ss
    | KCmp i ss => HCmp i ss
    | KAnd l => HAnd l (go l)
    | KOr l => HOr l (go l)
    | KImp a b => HImp a b (constr_ind' a) (constr_ind' b)
    | KAll b s c' => HAll b s c' (constr_ind' c')
    | KAny b s c' => HAny b s c' (constr_ind' c')
    end.
End ConstrInd.

Lemma constr_eqb_eq a : forall b, constr_eqb a b = true -> a = b.
Proof.
  induction a as [i ss|i ss|l IH|l IH|p q IHp IHq|bd s c IH|bd s c IH] using constr_ind'; intros b H; destruct b; cbn [constr_eqb] in H; try discriminate.
  - apply andb_true_iff in H; destruct H as [H1 H2]. apply Nat.eqb_eq in H1. apply ss_eqb_eq in H2. congruence.
  - apply andb_true_iff in H; destruct H as [H1 H2]. apply Nat.eqb_eq in H1. apply ss_eqb_eq in H2. congruence.
  - f_equal. revert cs H. induction IH as [|x l Hx _ IHl]; intros [|y cs] H; cbn in H; try discriminate; auto.
    apply andb_true_iff in H; destruct H as [H1 H2]. f_equal; [apply Hx; exact H1|apply IHl; exact H2].
  - f_equal. revert cs H. induction IH as [|x l Hx _ IHl]; intros [|y cs] H; cbn in H; try discriminate; auto.
    apply andb_true_iff in H; destruct H as [H1 H2]. f_equal; [apply Hx; exact H1|apply IHl; exact H2].
  - apply andb_true_iff in H; destruct H as [H1 H2]. f_equal; auto.
  - apply andb_true_iff in H; destruct H as [H H3]. apply andb_true_iff in H; destruct H as [H1 H2].
    apply binder_eqb_eq in H1. apply search_eqb_eq in H2. apply IH in H3. congruence.
  - apply andb_true_iff in H; destruct H as [H H3]. apply andb_true_iff in H; destruct H as [H1 H2].
    apply binder_eqb_eq in H1. apply search_eqb_eq in H2. apply IH in H3. congruence.
Qed.

Theorem same_export_same_verdicts cs cs' : c15_constr (cs, cs') = 1 ->
  forall t orc, map (verdict_doc t orc) cs = map (verdict_doc t orc) cs' /\
                forall lz, map (check_code t orc lz) cs = map (check_code t orc lz) cs'.
Proof.
  unfold c15_constr; cbn [fst snd]. destruct (list_eqb constr_eqb cs cs') eqn:E; [|discriminate].
  intros _ t orc. apply list_eqb_sound in E; [subst; auto|]. intros x y _ H; apply constr_eqb_eq; exact H.
Qed.
