(* C16: the field invariant holds after every sequence of search operators *)
From Coq Require Import List String NArith Bool Arith Lia.
From FV Require Import Base.Grammar Model.GenFieldM.
Import ListNotations.
Open Scope list_scope.

Lemma in_upd {X} (f : X -> X) : forall n (l : list X) x, In x (upd n f l) -> In x l \/ exists y, nth_error l n = Some y /\ x = f y.
Proof.
  induction n as [|n IH]; intros [|y l] x H; cbn [upd] in H; auto.
  - destruct H as [H|H]; [right; exists y; auto | left; right; exact H].
  - destruct H as [H|H]; [left; left; exact H|].
    apply IH in H. destruct H as [H|(z & Hz & E)]; [left; right; exact H | right; exists z; auto].
Qed.

Lemma in_remove_nth {X} : forall n (l : list X) x, In x (remove_nth n l) -> In x l.
Proof.
  induction n as [|n IH]; intros [|y l] x H; cbn [remove_nth] in H; auto.
  - right; exact H.
  - destruct H as [H|H]; [left; exact H | right; apply IH; exact H].
Qed.

Lemma gen_all_spec g : forall fs fl el, gen_all g fs = Some (fl, el) ->
  (forall f, In f fl -> In (entry_of f) el) /\ (forall nt a v, In (nt, a, v) el -> g nt a = Some v).
Proof.
  induction fs as [|[nt a] fs IH]; intros fl el H; cbn [gen_all] in H.
  - inversion H; subst. split; intros; contradiction.
  - destruct (g nt a) as [v|] eqn:Eg; [|discriminate].
    destruct (gen_all g fs) as [[fl' el']|] eqn:E; [|discriminate].
    inversion H; subst. destruct (IH _ _ eq_refl) as [H1 H2]. split.
    + intros f [Hf|Hf]; [subst; left; reflexivity | right; apply H1; exact Hf].
    + intros nt' a' v' [Hi|Hi]; [inversion Hi; subst; exact Eg | eapply H2; exact Hi].
Qed.

Lemma set_field_inv s i k f es : Inv s -> In (entry_of f) (log s ++ es) -> Inv (set_field s i k f es).
Proof.
  intros HI Hf d f0 Hd Hf0. unfold set_field in *. cbn [pop log] in *.
  apply in_upd in Hd. destruct Hd as [Hd|(d0 & Hn & E)].
  - apply in_or_app; left. eapply HI; eauto.
  - subst d. apply in_upd in Hf0. destruct Hf0 as [Hf0|(f1 & _ & E)].
    + apply in_or_app; left. eapply HI; [eapply nth_error_In; exact Hn | exact Hf0].
    + subst f0. exact Hf.
Qed.

Lemma get_field_in s i k f : get_field s i k = Some f -> exists d, In d (pop s) /\ In f d.
Proof.
  unfold get_field. destruct (nth_error (pop s) i) as [d|] eqn:E; [|discriminate].
  intros H. exists d. split; eapply nth_error_In; eauto.
Qed.

Theorem step_inv g s o : Inv s -> Inv (fst (step g s o)).
Proof.
  intros HI. destruct o as [fs|i k a|i k a|i|i k v|i k v|i k a v|i k i' k'|i]; cbn [step].
  - destruct (gen_all g fs) as [[fl el]|] eqn:E; cbn [fst]; [|exact HI].
    destruct (gen_all_spec _ _ _ _ E) as [H1 _].
    intros d f Hd Hf. cbn [pop log] in *. apply in_app_or in Hd. destruct Hd as [Hd|[Hd|[]]].
    + apply in_or_app; left; eapply HI; eauto.
    + subst d. apply in_or_app; right; apply H1; exact Hf.
  - destruct (get_field s i k) as [f|]; [|exact HI]. destruct (g (f_nt f) a) as [v|]; [|exact HI].
    cbn [fst]. apply set_field_inv; [exact HI|]. apply in_or_app; right; left; reflexivity.
  - destruct (get_field s i k) as [f|]; [|exact HI]. destruct (g (f_nt f) a) as [v|]; [|exact HI].
    cbn [fst]. apply set_field_inv; [exact HI|]. apply in_or_app; right; left; reflexivity.
  - exact HI.
  - exact HI.
  - exact HI.
  - destruct (get_field s i k) as [f|]; [|exact HI]. destruct (g (f_nt f) a) as [v'|]; [|exact HI].
    destruct (list_eqb N.eqb v' v); [|exact HI].
    cbn [fst]. apply set_field_inv; [exact HI|]. apply in_or_app; right; left; reflexivity.
  - destruct (get_field s i k) as [f|]; [|exact HI]. destruct (get_field s i' k') as [f'|] eqn:E'; [|exact HI].
    destruct (String.eqb (f_nt f) (f_nt f')); [|exact HI]. cbn [fst].
    apply set_field_inv; [exact HI|]. rewrite app_nil_r.
    destruct (get_field_in _ _ _ _ E') as (d & Hd & Hf). eapply HI; eauto.
  - cbn [fst]. intros d f Hd Hf. cbn [pop log] in *. apply in_remove_nth in Hd. eapply HI; eauto.
Qed.

Theorem step_logok g s o : LogOK g s -> LogOK g (fst (step g s o)).
Proof.
  intros HL. destruct o as [fs|i k a|i k a|i|i k v|i k v|i k a v|i k i' k'|i]; cbn [step].
  - destruct (gen_all g fs) as [[fl el]|] eqn:E; cbn [fst]; [|exact HL].
    destruct (gen_all_spec _ _ _ _ E) as [_ H2].
    intros nt a v Hin. cbn [log] in Hin. apply in_app_or in Hin. destruct Hin as [Hin|Hin]; [apply HL; exact Hin | eapply H2; exact Hin].
  - destruct (get_field s i k) as [f|]; [|exact HL]. destruct (g (f_nt f) a) as [v|] eqn:Eg; [|exact HL].
    cbn [fst]. intros nt a' v' Hin. unfold set_field in Hin; cbn [log] in Hin. apply in_app_or in Hin.
    destruct Hin as [Hin|[Hin|[]]]; [apply HL; exact Hin | inversion Hin; subst; exact Eg].
  - destruct (get_field s i k) as [f|]; [|exact HL]. destruct (g (f_nt f) a) as [v|] eqn:Eg; [|exact HL].
    cbn [fst]. intros nt a' v' Hin. unfold set_field in Hin; cbn [log] in Hin. apply in_app_or in Hin.
    destruct Hin as [Hin|[Hin|[]]]; [apply HL; exact Hin | inversion Hin; subst; exact Eg].
  - exact HL.
  - exact HL.
  - exact HL.
  - destruct (get_field s i k) as [f|]; [|exact HL]. destruct (g (f_nt f) a) as [v'|] eqn:Eg; [|exact HL].
    destruct (list_eqb N.eqb v' v); [|exact HL].
    cbn [fst]. intros nt a' v0 Hin. unfold set_field in Hin; cbn [log] in Hin. apply in_app_or in Hin.
    destruct Hin as [Hin|[Hin|[]]]; [apply HL; exact Hin | inversion Hin; subst; exact Eg].
  - destruct (get_field s i k) as [f|]; [|exact HL]. destruct (get_field s i' k') as [f'|]; [|exact HL].
    destruct (String.eqb (f_nt f) (f_nt f')); [|exact HL]. cbn [fst].
    intros nt a v Hin. unfold set_field in Hin; cbn [log] in Hin. rewrite app_nil_r in Hin. apply HL; exact Hin.
  - exact HL.
Qed.

Lemma fold_inv g os : forall s, Inv s -> LogOK g s ->
  Inv (fold_left (fun s o => fst (step g s o)) os s) /\ LogOK g (fold_left (fun s o => fst (step g s o)) os s).
Proof.
  induction os as [|o os IH]; intros s HI HL; cbn [fold_left]; [split; assumption|].
  apply IH; [apply step_inv; exact HI | apply step_logok; exact HL].
Qed.

(* for every history of search operators: every generator-owned field of every individual carries a value the generator
   expression returned for exactly the arguments recorded with the field *)
Theorem fields_are_generator_output g os d f :
  In d (pop (run g os)) -> In f d -> g (f_nt f) (f_args f) = Some (f_val f).
Proof.
  intros Hd Hf. unfold run in *.
  destruct (fold_inv g os init) as [HI HL].
  - intros d' f' H; cbn in H; contradiction.
  - intros nt a v H; cbn in H; contradiction.
  - apply HL. apply (HI d f Hd Hf).
Qed.

(* the history of generator returns only grows *)
Theorem log_monotone g s o e : In e (log s) -> In e (log (fst (step g s o))).
Proof.
  intros H. destruct o as [fs|i k a|i k a|i|i k v|i k v|i k a v|i k i' k'|i]; cbn [step]; auto.
  - destruct (gen_all g fs) as [[fl el]|]; cbn [fst log]; auto. apply in_or_app; left; exact H.
  - destruct (get_field s i k) as [f|]; auto. destruct (g (f_nt f) a); auto. cbn [fst set_field log]. apply in_or_app; left; exact H.
  - destruct (get_field s i k) as [f|]; auto. destruct (g (f_nt f) a); auto. cbn [fst set_field log]. apply in_or_app; left; exact H.
  - destruct (get_field s i k) as [f|]; auto. destruct (g (f_nt f) a) as [v'|]; auto. destruct (list_eqb N.eqb v' v); auto.
    cbn [fst set_field log]. apply in_or_app; left; exact H.
  - destruct (get_field s i k) as [f|]; auto. destruct (get_field s i' k') as [f'|]; auto.
    destruct (String.eqb (f_nt f) (f_nt f')); auto. cbn [fst set_field log]. apply in_or_app; left; exact H.
Qed.

(* generated text is never edited behind the generator: overwriting attempts are refused and change nothing *)
Theorem edits_refused g s i k v : step g s (OEditInside i k v) = (s, Refused) /\ step g s (OAdopt i k v) = (s, Refused).
Proof. split; reflexivity. Qed.

(* a value that does not fit the rule is an error and nothing is replaced *)
Theorem misfit_is_error g s i k a f : get_field s i k = Some f -> g (f_nt f) a = None ->
  step g s (OReplaceArg i k a) = (s, Error) /\ step g s (ORefuzzField i k a) = (s, Error).
Proof. intros H1 H2. cbn [step]. rewrite H1, H2. split; reflexivity. Qed.

(* re-running: after an argument was replaced the field holds the generator's value for the NEW arguments *)
Lemma nth_error_upd_same {X} (f : X -> X) : forall n (l : list X) x, nth_error l n = Some x -> nth_error (upd n f l) n = Some (f x).
Proof. induction n as [|n IH]; intros [|y l] x H; cbn in *; try discriminate; [congruence | apply IH; exact H]. Qed.

Theorem replaced_arg_reruns g s i k a f v : get_field s i k = Some f -> g (f_nt f) a = Some v ->
  get_field (fst (step g s (OReplaceArg i k a))) i k = Some {| f_nt := f_nt f; f_args := a; f_val := v |}.
Proof.
  intros H1 H2. cbn [step]. rewrite H1, H2. cbn [fst]. unfold get_field, set_field in *. cbn [pop].
  destruct (nth_error (pop s) i) as [d|] eqn:E; [|discriminate].
  rewrite (nth_error_upd_same _ _ _ _ E). apply (nth_error_upd_same (fun _ => _) _ _ _ H1).
Qed.
