(* C18: non-interference between instances, reduced to a frame condition on the shared state *)
From Coq Require Import List Arith Bool Lia.
From FV Require Import Model.IsolationM.
Import ListNotations.

Section NI.
Variables G L Op Out : Type.
Variable step : G -> L -> Op -> G * L * Out.
Notation run := (run G L Op Out step).
Notation only := (only Op).

Lemma set_local_same (ls : locals L) i l : set_local L ls i l i = l.
Proof. unfold set_local. rewrite Nat.eqb_refl. reflexivity. Qed.

Lemma set_local_other (ls : locals L) i l b : Nat.eqb i b = false -> set_local L ls i l b = ls b.
Proof. intros H. unfold set_local. rewrite Nat.eqb_sym, H. reflexivity. Qed.

(* a schedule of b's own operations only looks at b's local state *)
Lemma only_reads_own b : forall sch g (ls ls' : locals L), ls b = ls' b -> run g ls b (only b sch) = run g ls' b (only b sch).
Proof.
  induction sch as [|[i o] sch IH]; intros g ls ls' E; cbn [IsolationM.only filter fst]; [reflexivity|].
  destruct (Nat.eqb i b) eqn:Ei; [|apply IH; exact E].
  apply Nat.eqb_eq in Ei. subst i. cbn [IsolationM.run]. rewrite E.
  destruct (step g (ls' b) o) as [[g' l'] out]. f_equal. apply IH. rewrite !set_local_same. reflexivity.
Qed.

(* (a) if operations never change the shared state, what instance b yields does not depend on the other instances' activity *)
Theorem inert_isolates : shared_inert G L Op Out step -> forall sch g ls b,
  run g ls b sch = run g ls b (only b sch).
Proof.
  intros HI. induction sch as [|[i o] sch IH]; intros g ls b; [reflexivity|].
  cbn [IsolationM.only filter fst]. destruct (Nat.eqb i b) eqn:E.
  - cbn [IsolationM.run]. rewrite E. destruct (step g (ls i) o) as [[g' l'] out]. f_equal. apply IH.
  - cbn [IsolationM.run]. rewrite E. specialize (HI g (ls i) o). destruct (step g (ls i) o) as [[g' l'] out]. cbn [fst] in HI. subst g'.
    cbn [app]. rewrite IH. apply only_reads_own. apply set_local_other. exact E.
Qed.

(* (b) if nothing an operation does to its instance or yields depends on the shared state, the same holds -- whatever the others did to it *)
Theorem unread_isolates : shared_unread G L Op Out step -> forall sch g g' (ls ls' : locals L) b, ls b = ls' b ->
  run g ls b sch = run g' ls' b (only b sch).
Proof.
  intros HU. induction sch as [|[i o] sch IH]; intros g g' ls ls' b E; [reflexivity|].
  cbn [IsolationM.only filter fst]. destruct (Nat.eqb i b) eqn:Ei.
  - apply Nat.eqb_eq in Ei. subst i. cbn [IsolationM.run]. rewrite Nat.eqb_refl. rewrite E.
    specialize (HU g g' (ls' b) o).
    destruct (step g (ls' b) o) as [[g1 l1] o1]. destruct (step g' (ls' b) o) as [[g2 l2] o2]. cbn [fst snd] in HU.
    inversion HU; subst. f_equal. apply IH. rewrite !set_local_same. reflexivity.
  - cbn [IsolationM.run]. rewrite Ei. destruct (step g (ls i) o) as [[g1 l1] o1]. cbn [app].
    apply IH. rewrite set_local_other; [exact E | exact Ei].
Qed.
End NI.

(* the code's cap logic satisfies neither condition, and instances do influence each other *)
Theorem cap_leaks_refuted :
  let A := 0 in let B := 1 in
  run nat unit cop nat cstep 20 (fun _ => tt) B [(A, CFuzz 8 5); (B, CFuzz 0 30)] <> run nat unit cop nat cstep 20 (fun _ => tt) B [(B, CFuzz 0 30)]
  /\ run nat unit cop nat cstep 20 (fun _ => tt) B [(A, CFuzz 8 5); (B, CParse 25)] <> run nat unit cop nat cstep 20 (fun _ => tt) B [(B, CParse 25)].
Proof. split; vm_compute; discriminate. Qed.

Theorem cap_not_inert : ~ shared_inert nat unit cop nat cstep.
Proof. intros H. specialize (H 20 tt (CFuzz 1 0)). vm_compute in H. discriminate. Qed.

(* without tuner activity (no stagnating generation) the cap logic is inert: then instances are isolated *)
Definition calm (o : cop) : bool := match o with CFuzz 0 _ => true | CFuzz _ _ => false | CParse _ => true end.
Definition cstep_calm (cap : nat) (l : unit) (o : cop) : nat * unit * nat := if calm o then cstep cap l o else (cap, tt, 0).
Theorem calm_isolated : forall sch g ls b,
  run nat unit cop nat cstep_calm g ls b sch = run nat unit cop nat cstep_calm g ls b (only cop b sch).
Proof.
  apply inert_isolates. intros g l o. unfold cstep_calm. destruct o as [[|n] d|len]; reflexivity.
Qed.
