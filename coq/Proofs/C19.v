(* C19: the continuations computed by derivatives are exactly the messages that can follow a history *)
From Coq Require Import List Bool Arith Lia.
From FV Require Import Base.Re Model.ForecastM.
Import ListNotations.
Open Scope list_scope.

Section Proofs.
Variable A : Type.
Variable eqb : A -> A -> bool.
Hypothesis eqb_eq : forall a b, eqb a b = true <-> a = b.
Notation L r w := (lang A A eqb r w).

Lemma le_opt_mono m n mx : m <= n -> le_opt n mx = true -> le_opt m mx = true.
Proof. destruct mx as [k|]; cbn; auto. intros H1 H2. apply Nat.leb_le in H2. apply Nat.leb_le. lia. Qed.

Lemma pow_repeat (P : list A -> Prop) u : P u -> forall n, pow A P n (List.concat (repeat u n)).
Proof. intros Hu. induction n as [|n IH]; cbn; constructor; auto. Qed.

Theorem nonempty_spec r : nonempty A r = true <-> exists w, L r w.
Proof.
  induction r as [| |a|r1 IH1 r2 IH2|r1 IH1 r2 IH2|r IH mn mx]; cbn [nonempty lang].
  - split; [discriminate|]. intros [w []].
  - split; auto. intros _. exists []. reflexivity.
  - split; auto. intros _. exists [a], a. split; auto. apply eqb_eq. reflexivity.
  - rewrite orb_true_iff, IH1, IH2. split.
    + intros [[w H]|[w H]]; exists w; auto.
    + intros [w [H|H]]; [left|right]; exists w; exact H.
  - rewrite andb_true_iff, IH1, IH2. split.
    + intros [[u Hu] [v Hv]]. exists (u ++ v), u, v. auto.
    + intros [w (u & v & _ & Hu & Hv)]. split; [exists u|exists v]; assumption.
  - rewrite andb_true_iff, orb_true_iff, IH. split.
    + intros [Hle [H0|[u Hu]]].
      * apply Nat.eqb_eq in H0. subst mn. exists [], 0. repeat split; auto. constructor.
      * exists (List.concat (repeat u mn)), mn. repeat split; auto. apply pow_repeat. exact Hu.
    + intros [w (n & Hmn & Hle & Hp)]. split; [eapply le_opt_mono; eauto|].
      destruct mn as [|m]; [left; reflexivity|]. right.
      destruct n as [|n']; [lia|]. inversion Hp; subst. eexists; eauto.
Qed.

Lemma lang_atoms r : forall w, L r w -> Forall (fun x => In x (atoms A r)) w.
Proof.
  induction r as [| |a|r1 IH1 r2 IH2|r1 IH1 r2 IH2|r IH mn mx]; intros w; cbn [lang atoms].
  - intros [].
  - intros ->. constructor.
  - intros (x & -> & E). apply eqb_eq in E. subst. constructor; [left; reflexivity|constructor].
  - intros [H|H]; [apply IH1 in H|apply IH2 in H]; eapply Forall_impl; try exact H; intros x Hx; apply in_or_app; auto.
  - intros (u & v & -> & Hu & Hv). apply Forall_app. split.
    + apply IH1 in Hu. eapply Forall_impl; [|exact Hu]. intros x Hx; apply in_or_app; auto.
    + apply IH2 in Hv. eapply Forall_impl; [|exact Hv]. intros x Hx; apply in_or_app; auto.
  - intros (n & _ & _ & Hp). induction Hp as [|n u v Hu _ IHp]; [constructor|].
    apply Forall_app. split; auto.
Qed.

Lemma derivs_spec h : forall r w, L (derivs A eqb h r) w <-> L r (h ++ w).
Proof.
  induction h as [|x h IH]; intros r w; cbn [derivs fold_left app]; [tauto|].
  change (fold_left (fun r0 x0 => deriv A A eqb x0 r0) h (deriv A A eqb x r)) with (derivs A eqb h (deriv A A eqb x r)).
  rewrite IH. apply deriv_spec.
Qed.

(* atoms of a derivative are atoms of the expression *)
Lemma deriv_atoms x r : forall a, In a (atoms A (deriv A A eqb x r)) -> In a (atoms A r).
Proof.
  induction r as [| |b|r1 IH1 r2 IH2|r1 IH1 r2 IH2|r IH mn mx]; intros a; cbn [deriv atoms]; auto.
  - destruct (eqb b x); cbn; tauto.
  - intros H. apply in_app_or in H. apply in_or_app. destruct H; auto.
  - destruct (nullable A r1); cbn [atoms]; intros H; apply in_app_or in H; apply in_or_app.
    + destruct H as [H|H]; auto. apply in_app_or in H. destruct H; auto.
    + destruct H; auto.
  - destruct mx as [[|k]|]; cbn [atoms]; intros H; [destruct H| |]; apply in_app_or in H; destruct H; auto.
Qed.

Theorem firsts_spec r a : In a (firsts A eqb r) <-> exists w, L r (a :: w).
Proof.
  unfold firsts. rewrite filter_In, nonempty_spec. split.
  - intros [_ [w H]]. exists w. apply deriv_spec. exact H.
  - intros [w H]. split.
    + apply lang_atoms in H. inversion H; assumption.
    + exists w. apply deriv_spec. exact H.
Qed.

(* the forecast after history h: exactly the messages that can follow h in some interaction of the language, and
   "complete" exactly when h is an interaction *)
Theorem forecast_exact r h :
  (forall a, In a (fst (forecast A eqb r h)) <-> exists w, L r (h ++ a :: w)) /\
  (snd (forecast A eqb r h) = true <-> L r h).
Proof.
  unfold forecast; cbn [fst snd]. split.
  - intros a. rewrite firsts_spec. split; intros [w H]; exists w; apply derivs_spec; exact H.
  - rewrite (nullable_spec A A eqb). rewrite derivs_spec, app_nil_r. tauto.
Qed.
End Proofs.
