(* C19, slicing: what the slicing model keeps consists of visible messages only, and what it removes consists of invisible messages only *)
From Coq Require Import List String Ascii Bool Arith Lia.
From FV Require Import Base.Re Base.Grammar Model.ForecastM Model.SliceM Proofs.C19.
Import ListNotations.
Open Scope list_scope.

Notation atoms_ := (atoms msg).

Lemma atoms_alts k : atoms_ (alts k) = List.concat (map atoms_ k).
Proof. induction k as [|a k IH]; cbn; [reflexivity|]. unfold alts in IH. rewrite IH. reflexivity. Qed.

Lemma atoms_cats k : atoms_ (cats k) = List.concat (map atoms_ k).
Proof. induction k as [|a k IH]; cbn; [reflexivity|]. unfold cats in IH. rewrite IH. reflexivity. Qed.

Lemma Forall_concat_map (P : msg -> Prop) k :
  Forall (fun m => Forall P (atoms_ m)) k -> Forall P (List.concat (map atoms_ k)).
Proof. induction 1 as [|m k Hm _ IH]; cbn; [constructor|]. apply Forall_app. split; assumption. Qed.

Section Vis.
Variable vis : msg -> bool.
Variable rules : list (string * rhs).
Let V (a : msg) : Prop := vis a = true.

Lemma keep_list_visible (rec : rhs -> option (option mre)) :
  (forall x m, rec x = Some (Some m) -> Forall V (atoms_ m)) ->
  forall l k, keep_list rec l = Some k -> Forall (fun m => Forall V (atoms_ m)) k.
Proof.
  intros Hrec. induction l as [|x l IH]; intros k; cbn [keep_list].
  - intros E. injection E as <-. constructor.
  - destruct (rec x) as [[a|]|] eqn:Ex; [| |discriminate].
    + destruct (keep_list rec l) as [k'|] eqn:El; [|discriminate]. intros E. injection E as <-.
      constructor; [eapply Hrec; exact Ex|apply IH; reflexivity].
    + destruct (keep_list rec l) as [k'|] eqn:El; [|discriminate]. intros E. injection E as <-. apply IH. reflexivity.
Qed.

(* every message left in the sliced protocol belongs to a kept party *)
Theorem islice_visible : forall fuel r m, islice fuel vis rules r = Some (Some m) -> Forall V (atoms_ m).
Proof.
  induction fuel as [|f IH]; intros r m; [discriminate|]. cbn [islice].
  destruct r as [rs|rs|r' mn mx|nt|t].
  - destruct (keep_list (islice f vis rules) rs) as [k|] eqn:Ek; [|discriminate].
    pose proof (keep_list_visible _ (IH) _ _ Ek) as Hk.
    destruct k as [|a k]; [discriminate|]. intros E. injection E as <-. change (RAlt msg a (alts k)) with (alts (a :: k)). rewrite atoms_alts. apply Forall_concat_map. exact Hk.
  - destruct (keep_list (islice f vis rules) rs) as [k|] eqn:Ek; [|discriminate].
    pose proof (keep_list_visible _ (IH) _ _ Ek) as Hk.
    destruct k as [|a k]; [discriminate|]. intros E. injection E as <-. change (RCat msg a (cats k)) with (cats (a :: k)). rewrite atoms_cats. apply Forall_concat_map. exact Hk.
  - destruct (islice f vis rules r') as [[a|]|] eqn:Er; [|discriminate|discriminate].
    intros E. injection E as <-. cbn [atoms]. eapply IH. exact Er.
  - destruct (assoc String.eqb nt rules) as [body|]; [apply IH|].
    destruct (vis nt) eqn:Ev; [|discriminate]. intros E. injection E as <-. cbn. constructor; [exact Ev|constructor].
  - discriminate.
Qed.

Let NV (a : msg) : Prop := vis a = false.

(* whatever slicing removes consists of messages of parties that are not kept, only *)
Theorem islice_removed_invisible : forall fuel r full,
  islice fuel vis rules r = Some None -> inline fuel rules r = Some full -> Forall NV (atoms_ full).
Proof.
  induction fuel as [|f IH]; intros r full; [discriminate|]. cbn [islice inline].
  destruct r as [rs|rs|r' mn mx|nt|t].
  - destruct (keep_list (islice f vis rules) rs) as [k|] eqn:Ek; [|discriminate].
    destruct k as [|a k]; [|discriminate]. intros _. revert full.
    induction rs as [|x rs IHrs]; intros full.
    + intros E. injection E as <-. constructor.
    + cbn [keep_list] in Ek. destruct (islice f vis rules x) as [[a|]|] eqn:Ex; [| |discriminate].
      * destruct (keep_list (islice f vis rules) rs); discriminate.
      * destruct (keep_list (islice f vis rules) rs) as [k'|] eqn:Ek'; [|discriminate]. injection Ek as ->.
        destruct (inline f rules x) as [a|] eqn:Ea; [|discriminate].
        match goal with |- context [match ?g with Some b => _ | None => None end] => destruct g as [b|] eqn:Eb; [|discriminate] end.
        intros E. injection E as <-. cbn [atoms]. apply Forall_app. split; [eapply IH; eassumption|apply IHrs; reflexivity].
  - destruct (keep_list (islice f vis rules) rs) as [k|] eqn:Ek; [|discriminate].
    destruct k as [|a k]; [|discriminate]. intros _. revert full.
    induction rs as [|x rs IHrs]; intros full.
    + intros E. injection E as <-. constructor.
    + cbn [keep_list] in Ek. destruct (islice f vis rules x) as [[a|]|] eqn:Ex; [| |discriminate].
      * destruct (keep_list (islice f vis rules) rs); discriminate.
      * destruct (keep_list (islice f vis rules) rs) as [k'|] eqn:Ek'; [|discriminate]. injection Ek as ->.
        destruct (inline f rules x) as [a|] eqn:Ea; [|discriminate].
        match goal with |- context [match ?g with Some b => _ | None => None end] => destruct g as [b|] eqn:Eb; [|discriminate] end.
        intros E. injection E as <-. cbn [atoms]. apply Forall_app. split; [eapply IH; eassumption|apply IHrs; reflexivity].
  - destruct (islice f vis rules r') as [[a|]|] eqn:Er; [discriminate| |discriminate]. intros _.
    destruct (inline f rules r') as [a|] eqn:Ea; [|discriminate]. intros E. injection E as <-. cbn [atoms]. eapply IH; eassumption.
  - destruct (assoc String.eqb nt rules) as [body|]; [apply IH|].
    destruct (vis nt) eqn:Ev; [discriminate|]. intros _ E. injection E as <-. cbn. constructor; [exact Ev|constructor].
  - discriminate.
Qed.
End Vis.

(* ---- every interaction of the sliced protocol is the visible part of an interaction of the full protocol ---- *)
Notation Lm r w := (lang msg msg macc r w).

Section Sound.
Variable vis : msg -> bool.
Variable rules : list (string * rhs).

Definition Pre (full : mre) (w : list msg) : Prop := exists w', Lm full w' /\ filter vis w' = w.

Lemma removed_has_invisible_word fuel r full :
  islice fuel vis rules r = Some None -> inline fuel rules r = Some full -> nonempty msg full = true -> Pre full [].
Proof.
  intros Hs Hi Hn.
  pose proof (islice_removed_invisible vis rules fuel r full Hs Hi) as Hinv.
  apply (nonempty_spec msg macc String.eqb_eq) in Hn. destruct Hn as [w' Hw'].
  exists w'. split; [exact Hw'|].
  pose proof (lang_atoms msg macc String.eqb_eq full w' Hw') as Hat.
  clear Hw'. induction Hat as [|x w' Hx _ IH]; [reflexivity|]. cbn [filter].
  rewrite Forall_forall in Hinv. rewrite (Hinv x Hx). exact IH.
Qed.

Lemma pow_pre (a' a : mre) :
  (forall w, Lm a' w -> Pre a w) ->
  forall n w, pow msg (lang msg msg macc a') n w -> exists w', pow msg (lang msg msg macc a) n w' /\ filter vis w' = w.
Proof.
  intros H n w Hp. induction Hp as [|n u v Hu _ IH].
  - exists []. split; [constructor|reflexivity].
  - destruct (H u Hu) as (u' & Hu' & Eu). destruct IH as (v' & Hv' & Ev).
    exists (u' ++ v'). split; [constructor; assumption|]. rewrite filter_app, Eu, Ev. reflexivity.
Qed.

Theorem islice_sound : forall fuel r m full,
  islice fuel vis rules r = Some (Some m) -> inline fuel rules r = Some full -> hp full = true ->
  forall w, Lm m w -> Pre full w.
Proof.
  induction fuel as [|f IH]; intros r m full; [discriminate|]. cbn [islice inline].
  destruct r as [rs|rs|r' mn mx|nt|t].
  - (* Alt *)
    destruct (keep_list (islice f vis rules) rs) as [k|] eqn:Ek; [|discriminate].
    intros Hm. assert (Em : m = alts k) by (destruct k; [discriminate|injection Hm as <-; reflexivity]). subst m. clear Hm.
    revert k Ek full. induction rs as [|x rs IHrs]; intros k Ek full.
    + cbn in Ek. injection Ek as <-. intros _ _ w [].
    + cbn [keep_list] in Ek. destruct (islice f vis rules x) as [[a'|]|] eqn:Ex; [| |discriminate];
        (destruct (keep_list (islice f vis rules) rs) as [k'|] eqn:Ek'; [|discriminate]); injection Ek as <-;
        (destruct (inline f rules x) as [a|] eqn:Ea; [|discriminate]);
        match goal with |- context [match ?g with Some b => _ | None => None end] => destruct g as [b|] eqn:Eb; [|discriminate] end;
        intros E; injection E as <-; cbn [hp]; rewrite andb_true_iff; intros [Ha Hb] w.
      * change (alts (a' :: k')) with (RAlt msg a' (alts k')). cbn [lang]. intros [Hw|Hw].
        -- destruct (IH x a' a Ex Ea Ha w Hw) as (w' & Hw' & E). exists w'. split; [left; exact Hw'|exact E].
        -- destruct (IHrs k' eq_refl b eq_refl Hb w Hw) as (w' & Hw' & E). exists w'. split; [right; exact Hw'|exact E].
      * intros Hw. destruct (IHrs k' eq_refl b eq_refl Hb w Hw) as (w' & Hw' & E). exists w'. split; [right; exact Hw'|exact E].
  - (* Cat *)
    destruct (keep_list (islice f vis rules) rs) as [k|] eqn:Ek; [|discriminate].
    intros Hm. assert (Em : m = cats k) by (destruct k; [discriminate|injection Hm as <-; reflexivity]). subst m. clear Hm.
    revert k Ek full. induction rs as [|x rs IHrs]; intros k Ek full.
    + cbn in Ek. injection Ek as <-. intros E. injection E as <-. intros _ w Hw. cbn in Hw. subst w. exists []. split; reflexivity.
    + cbn [keep_list] in Ek. destruct (islice f vis rules x) as [[a'|]|] eqn:Ex; [| |discriminate];
        (destruct (keep_list (islice f vis rules) rs) as [k'|] eqn:Ek'; [|discriminate]); injection Ek as <-;
        (destruct (inline f rules x) as [a|] eqn:Ea; [|discriminate]);
        match goal with |- context [match ?g with Some b => _ | None => None end] => destruct g as [b|] eqn:Eb; [|discriminate] end;
        intros E; injection E as <-; cbn [hp]; rewrite !andb_true_iff; intros [[[Ha Hb] Hna] Hnb] w.
      * change (cats (a' :: k')) with (RCat msg a' (cats k')). cbn [lang]. intros (u & v & -> & Hu & Hv).
        destruct (IH x a' a Ex Ea Ha u Hu) as (u' & Hu' & Eu).
        destruct (IHrs k' eq_refl b eq_refl Hb v Hv) as (v' & Hv' & Ev).
        exists (u' ++ v'). split; [exists u', v'; auto|]. rewrite filter_app, Eu, Ev. reflexivity.
      * intros Hw. destruct (removed_has_invisible_word f x a Ex Ea Hna) as (u' & Hu' & Eu).
        destruct (IHrs k' eq_refl b eq_refl Hb w Hw) as (v' & Hv' & Ev).
        exists (u' ++ v'). split; [exists u', v'; auto|]. rewrite filter_app, Eu, Ev. reflexivity.
  - (* Rep *)
    destruct (islice f vis rules r') as [[a'|]|] eqn:Er; [|discriminate|discriminate].
    intros E. injection E as <-. destruct (inline f rules r') as [a|] eqn:Ea; [|discriminate].
    intros E. injection E as <-. cbn [hp lang]. intros Ha w (n & Hmn & Hle & Hp).
    destruct (pow_pre a' a (IH r' a' a Er Ea Ha) n w Hp) as (w' & Hp' & E).
    exists w'. split; [exists n; auto|exact E].
  - (* Ref *)
    destruct (assoc String.eqb nt rules) as [body|]; [apply IH|].
    destruct (vis nt) eqn:Ev; [|discriminate]. intros E. injection E as <-. intros E. injection E as <-. intros _ w Hw.
    exists w. split; [exact Hw|]. cbn [lang] in Hw. destruct Hw as (x & -> & Hx). apply String.eqb_eq in Hx. subst x.
    cbn [filter]. rewrite Ev. reflexivity.
  - discriminate.
Qed.
End Sound.

(* what the two visibility tests say about a message name "s:r:<n>" whose party texts contain no colon *)
Fixpoint nocolon (s : string) : bool :=
  match s with EmptyString => true | String c s' => negb (Ascii.eqb c ":"%char) && nocolon s' end.

Definition mname (s r n : string) : msg := (s ++ ":" ++ r ++ ":" ++ n)%string.

Lemma sender_of_app s x : nocolon s = true -> sender_of (s ++ String ":"%char x)%string = Some s.
Proof.
  induction s as [|c s IH]; cbn; [reflexivity|]. intros H. apply andb_true_iff in H. destruct H as [Hc Hs].
  destruct (Ascii.eqb c ":"%char); [discriminate|]. rewrite (IH Hs). reflexivity.
Qed.

Lemma after_colon_app s x : nocolon s = true -> after_colon (s ++ String ":"%char x)%string = Some x.
Proof.
  induction s as [|c s IH]; cbn; [reflexivity|]. intros H. apply andb_true_iff in H. destruct H as [Hc Hs].
  destruct (Ascii.eqb c ":"%char); [discriminate|]. exact (IH Hs).
Qed.

Lemma visible_mname keep s r n : nocolon s = true ->
  visible keep (mname s r n) = existsb (String.eqb s) keep.
Proof. intros Hs. unfold visible, mname. cbn [append]. rewrite (sender_of_app s _ Hs). reflexivity. Qed.

Lemma visible_io_mname keep s r n : nocolon s = true -> nocolon r = true ->
  visible_io keep (mname s r n) =
  (String.eqb r "None" || existsb (String.eqb s) keep || existsb (String.eqb r) keep).
Proof.
  intros Hs Hr. unfold visible_io, recipient_of, mname. cbn [append].
  rewrite (sender_of_app s _ Hs), (after_colon_app s _ Hs), (sender_of_app r _ Hr).
  destruct (String.eqb r "None"); reflexivity.
Qed.

(* slicing composed with forecasting: whatever the forecast of the sliced protocol offers, after any history, passes the visibility test *)
Theorem sliced_forecast_visible (vis : msg -> bool) (rules : list (string * rhs)) fuel r m h a :
  islice fuel vis rules r = Some (Some m) -> In a (fst (forecast msg macc m h)) -> vis a = true.
Proof.
  intros Hs Ha.
  destruct (forecast_exact msg macc String.eqb_eq m h) as [Hf _].
  apply Hf in Ha. destruct Ha as [w Hw].
  apply (lang_atoms msg macc String.eqb_eq) in Hw.
  rewrite Forall_forall in Hw. assert (Hin : In a (h ++ a :: w)) by (apply in_or_app; right; left; reflexivity). specialize (Hw a Hin).
  pose proof (islice_visible vis rules fuel r m Hs) as Hv. rewrite Forall_forall in Hv. exact (Hv a Hw).
Qed.
