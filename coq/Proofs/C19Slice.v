(* C19, slicing: what the slicing model keeps consists of visible messages only, and what it removes consists of invisible messages only *)
From Coq Require Import List String Bool Arith Lia.
From FV Require Import Base.Re Base.Grammar Model.ForecastM Model.SliceM.
Import ListNotations.
Open Scope list_scope.

Notation atoms_ := (atoms msg).

Lemma atoms_alts k : atoms_ (alts k) = List.concat (map atoms_ k).
Proof. induction k as [|a k IH]; cbn; [reflexivity|]. unfold alts in IH. rewrite IH. reflexivity. Qed.

Lemma atoms_cats k : atoms_ (cats k) = List.concat (map atoms_ k).
Proof. induction k as [|a k IH]; cbn; [reflexivity|]. unfold cats in IH. rewrite IH. reflexivity. Qed.

Lemma Forall_concat_map (P : msg -> Prop) k :
  Forall (fun m => Forall P (atoms_ m)) k -> Forall P (List.concat (map atoms_ k)).
Proof. induction 1 as [|m k Hm _ IH]; cbn; [constructor|]. apply Forall_app. split; assumption. Qed.

Section Vis.
Variable vis : msg -> bool.
Variable rules : list (string * rhs).
Let V (a : msg) : Prop := vis a = true.

Lemma keep_list_visible (rec : rhs -> option (option mre)) :
  (forall x m, rec x = Some (Some m) -> Forall V (atoms_ m)) ->
  forall l k, keep_list rec l = Some k -> Forall (fun m => Forall V (atoms_ m)) k.
Proof.
  intros Hrec. induction l as [|x l IH]; intros k; cbn [keep_list].
  - intros E. injection E as <-. constructor.
  - destruct (rec x) as [[a|]|] eqn:Ex; [| |discriminate].
    + destruct (keep_list rec l) as [k'|] eqn:El; [|discriminate]. intros E. injection E as <-.
      constructor; [eapply Hrec; exact Ex|apply IH; reflexivity].
    + destruct (keep_list rec l) as [k'|] eqn:El; [|discriminate]. intros E. injection E as <-. apply IH. reflexivity.
Qed.

(* every message left in the sliced protocol belongs to a kept party *)
Theorem islice_visible : forall fuel r m, islice fuel vis rules r = Some (Some m) -> Forall V (atoms_ m).
Proof.
  induction fuel as [|f IH]; intros r m; [discriminate|]. cbn [islice].
  destruct r as [rs|rs|r' mn mx|nt|t].
  - destruct (keep_list (islice f vis rules) rs) as [k|] eqn:Ek; [|discriminate].
    pose proof (keep_list_visible _ (IH) _ _ Ek) as Hk.
    destruct k as [|a k]; [discriminate|]. intros E. injection E as <-. change (RAlt msg a (alts k)) with (alts (a :: k)). rewrite atoms_alts. apply Forall_concat_map. exact Hk.
  - destruct (keep_list (islice f vis rules) rs) as [k|] eqn:Ek; [|discriminate].
    pose proof (keep_list_visible _ (IH) _ _ Ek) as Hk.
    destruct k as [|a k]; [discriminate|]. intros E. injection E as <-. change (RCat msg a (cats k)) with (cats (a :: k)). rewrite atoms_cats. apply Forall_concat_map. exact Hk.
  - destruct (islice f vis rules r') as [[a|]|] eqn:Er; [|discriminate|discriminate].
    intros E. injection E as <-. cbn [atoms]. eapply IH. exact Er.
  - destruct (assoc String.eqb nt rules) as [body|]; [apply IH|].
    destruct (vis nt) eqn:Ev; [|discriminate]. intros E. injection E as <-. cbn. constructor; [exact Ev|constructor].
  - discriminate.
Qed.

Let NV (a : msg) : Prop := vis a = false.

(* whatever slicing removes consists of messages of parties that are not kept, only *)
Theorem islice_removed_invisible : forall fuel r full,
  islice fuel vis rules r = Some None -> inline fuel rules r = Some full -> Forall NV (atoms_ full).
Proof.
  induction fuel as [|f IH]; intros r full; [discriminate|]. cbn [islice inline].
  destruct r as [rs|rs|r' mn mx|nt|t].
  - destruct (keep_list (islice f vis rules) rs) as [k|] eqn:Ek; [|discriminate].
    destruct k as [|a k]; [|discriminate]. intros _. revert full.
    induction rs as [|x rs IHrs]; intros full.
    + intros E. injection E as <-. constructor.
    + cbn [keep_list] in Ek. destruct (islice f vis rules x) as [[a|]|] eqn:Ex; [| |discriminate].
      * destruct (keep_list (islice f vis rules) rs); discriminate.
      * destruct (keep_list (islice f vis rules) rs) as [k'|] eqn:Ek'; [|discriminate]. injection Ek as ->.
        destruct (inline f rules x) as [a|] eqn:Ea; [|discriminate].
        match goal with |- context [match ?g with Some b => _ | None => None end] => destruct g as [b|] eqn:Eb; [|discriminate] end.
        intros E. injection E as <-. cbn [atoms]. apply Forall_app. split; [eapply IH; eassumption|apply IHrs; reflexivity].
  - destruct (keep_list (islice f vis rules) rs) as [k|] eqn:Ek; [|discriminate].
    destruct k as [|a k]; [|discriminate]. intros _. revert full.
    induction rs as [|x rs IHrs]; intros full.
    + intros E. injection E as <-. constructor.
    + cbn [keep_list] in Ek. destruct (islice f vis rules x) as [[a|]|] eqn:Ex; [| |discriminate].
      * destruct (keep_list (islice f vis rules) rs); discriminate.
      * destruct (keep_list (islice f vis rules) rs) as [k'|] eqn:Ek'; [|discriminate]. injection Ek as ->.
        destruct (inline f rules x) as [a|] eqn:Ea; [|discriminate].
        match goal with |- context [match ?g with Some b => _ | None => None end] => destruct g as [b|] eqn:Eb; [|discriminate] end.
        intros E. injection E as <-. cbn [atoms]. apply Forall_app. split; [eapply IH; eassumption|apply IHrs; reflexivity].
  - destruct (islice f vis rules r') as [[a|]|] eqn:Er; [discriminate| |discriminate]. intros _.
    destruct (inline f rules r') as [a|] eqn:Ea; [|discriminate]. intros E. injection E as <-. cbn [atoms]. eapply IH; eassumption.
  - destruct (assoc String.eqb nt rules) as [body|]; [apply IH|].
    destruct (vis nt) eqn:Ev; [discriminate|]. intros _ E. injection E as <-. cbn. constructor; [exact Ev|constructor].
  - discriminate.
Qed.
End Vis.
