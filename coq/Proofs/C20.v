(* C20: the receive buffer delivers every sender's data exactly once and in order, whatever the interleaving;
   the monitor applied to recorded runs means what it should *)
From Coq Require Import List String NArith Bool Arith Lia.
From FV Require Import Base.Re Base.Grammar Model.ForecastM Model.ProtocolM Proofs.C19.
Import ListNotations.
Open Scope list_scope.

Lemma stream_app p a b : stream p (a ++ b) = stream p a ++ stream p b.
Proof. unfold stream. rewrite filter_app, map_app. reflexivity. Qed.

Lemma stream_added p s r d : stream p (map (fun u => (s, r, u)) d) = if String.eqb s p then d else [].
Proof.
  unfold stream. induction d as [|u d IH]; cbn [map filter fst snd].
  - destruct (String.eqb s p); reflexivity.
  - destruct (String.eqb s p) eqn:E; cbn [map snd]; [f_equal|]; exact IH.
Qed.

Lemma clear_split p k : forall b i, stream p (firstn (S k - i) b) ++ stream p (clear_from i b p k) = stream p b.
Proof.
  induction b as [|[[s r] u] b IH]; intros i; cbn [clear_from].
  - rewrite firstn_nil. reflexivity.
  - destruct (String.eqb s p) eqn:Es; cbn [andb].
    + destruct (Nat.leb i k) eqn:El.
      * apply Nat.leb_le in El. replace (S k - i) with (S (k - i)) by lia. cbn [firstn].
        unfold stream at 1 3. cbn [filter fst snd]. rewrite Es. cbn [map snd app]. f_equal.
        replace (k - i) with (S k - S i) by lia. apply IH.
      * apply Nat.leb_gt in El. replace (S k - i) with 0 by lia. cbn [firstn].
        specialize (IH (S i)). replace (S k - S i) with 0 in IH by lia. cbn [firstn] in IH.
        unfold stream in *. cbn [filter fst snd map app] in *. rewrite Es. cbn [map snd]. f_equal. exact IH.
    + destruct (S k - i) as [|m] eqn:Em; cbn [firstn].
      * specialize (IH (S i)). replace (S k - S i) with 0 in IH by lia. cbn [firstn] in IH.
        unfold stream in *. cbn [filter fst snd map app] in *. rewrite Es. exact IH.
      * specialize (IH (S i)). replace (S k - S i) with m in IH by lia.
        unfold stream in *. cbn [filter fst snd map app] in *. rewrite Es. exact IH.
Qed.

Lemma clear_other p q k : String.eqb q p = false -> forall b i, stream p (clear_from i b q k) = stream p b.
Proof.
  intros Hq. induction b as [|[[s r] u] b IH]; intros i; cbn [clear_from]; [reflexivity|].
  destruct (String.eqb s q && Nat.leb i k) eqn:E.
  - apply andb_true_iff in E. destruct E as [E _]. apply String.eqb_eq in E. subst s.
    rewrite IH. unfold stream. cbn [filter fst snd]. rewrite Hq. reflexivity.
  - unfold stream in *. cbn [filter fst snd]. destruct (String.eqb s p); cbn [map]; [f_equal|]; apply IH.
Qed.

(* conservation: per sender, what was removed so far followed by what is still buffered is exactly what was added, in order *)
Theorem buffer_conservation p : forall os b,
  consumed_of p b os ++ stream p (fold_left bstep os b) = stream p b ++ added_of p os.
Proof.
  induction os as [|o os IH]; intros b; cbn [consumed_of fold_left added_of].
  - rewrite app_nil_r. reflexivity.
  - destruct o as [s r d|q k].
    + cbn [app]. rewrite IH. cbn [bstep]. unfold add. rewrite stream_app, stream_added, app_assoc. reflexivity.
    + rewrite <- app_assoc, IH. cbn [bstep]. destruct (String.eqb q p) eqn:E.
      * apply String.eqb_eq in E. subst q. rewrite app_assoc. f_equal. unfold removed.
        replace (S k) with (S k - 0) by lia. apply clear_split.
      * cbn [app]. rewrite (clear_other p q k E). reflexivity.
Qed.

Corollary buffer_exactly_once_in_order p os :
  consumed_of p [] os ++ stream p (fold_left bstep os []) = added_of p os.
Proof. rewrite buffer_conservation. reflexivity. Qed.

(* operations of other senders do not matter for a sender's stream *)
Fixpoint about (p : string) (os : list bop) : list bop :=
  match os with
  | [] => []
  | BAdd s r d :: os' => if String.eqb s p then BAdd s r d :: about p os' else about p os'
  | BClear q k :: os' => about p os'
  end.
Theorem added_only_own p os : added_of p (about p os) = added_of p os.
Proof.
  induction os as [|[s r d|q k] os IH]; cbn [about added_of]; auto.
  destruct (String.eqb s p) eqn:E; cbn [added_of]; rewrite ?E, IH; reflexivity.
Qed.

(* ---- the monitor ---- *)
Lemma is_prefix_spec a : forall b, is_prefix a b = true <-> exists c, b = a ++ c.
Proof.
  induction a as [|x a IH]; intros b; cbn [is_prefix].
  - split; [intros _; exists b; reflexivity | reflexivity].
  - destruct b as [|y b].
    + split; [discriminate|]. intros [c H]; discriminate.
    + rewrite andb_true_iff, IH, N.eqb_eq. split.
      * intros [-> [c ->]]. exists c. reflexivity.
      * intros [c H]. inversion H; subst. split; eauto.
Qed.

Theorem run_valid_spec r h c : run_valid r h c = true <->
  (exists w, lang msg msg macc r (h ++ w)) /\ (c = true -> lang msg msg macc r h).
Proof.
  unfold run_valid. rewrite andb_true_iff, orb_true_iff, negb_true_iff.
  rewrite (nonempty_spec msg macc String.eqb_eq).
  rewrite (nullable_spec msg msg macc).
  split.
  - intros [[w Hw] Hc]. split.
    + exists w. apply (derivs_spec msg macc). exact Hw.
    + intros ->. destruct Hc as [Hc|Hc]; [discriminate|]. apply (derivs_spec msg macc) in Hc. rewrite app_nil_r in Hc. exact Hc.
  - intros [[w Hw] Hc]. split.
    + exists w. apply (derivs_spec msg macc). exact Hw.
    + destruct c; [right|left; reflexivity]. apply (derivs_spec msg macc). rewrite app_nil_r. apply Hc. reflexivity.
Qed.

(* every earlier point of a valid run was valid too *)
Theorem run_valid_prefix_closed r h h' c : run_valid r (h ++ h') c = true -> run_valid r h false = true.
Proof.
  rewrite !run_valid_spec. intros [[w Hw] _]. split; [|discriminate]. exists (h' ++ w). rewrite app_assoc. exact Hw.
Qed.
