(* C20: the race between the forecast message types picks a longest complete match of a type that was still alive *)
From Coq Require Import List String NArith Bool Arith Lia.
From FV Require Import Base.Grammar Model.ProtocolM.
Import ListNotations.
Open Scope list_scope.

Section Choose.
Variables complete alive : table.
Variable cands : list string.

(* nt is still in the race when the k-th unit arrives / has a complete parse of exactly k units while still in the race *)
Definition alive_upto (nt : string) (k : nat) : bool := forallb (fun j => look alive nt j) (seq 1 (k - 1)).
Definition eligible (nt : string) (k : nat) : bool := look complete nt k && alive_upto nt k.

Lemma alive_upto_S nt k : 1 <= k -> alive_upto nt (S k) = alive_upto nt k && look alive nt k.
Proof.
  intros Hk. unfold alive_upto. replace (S k - 1) with (S (k - 1)) by lia.
  rewrite seq_S, forallb_app. cbn [forallb]. rewrite andb_true_r. replace (1 + (k - 1)) with k by lia. reflexivity.
Qed.

Lemma alive_upto_mono nt k k' : 1 <= k -> k <= k' -> alive_upto nt k' = true -> alive_upto nt k = true.
Proof.
  intros H1 Hle. induction Hle as [|m Hle IH]; auto. intros H. apply IH.
  rewrite alive_upto_S in H by lia. apply andb_true_iff in H. tauto.
Qed.

Lemma upd_best_in best nt k nt' k' : In (nt', k') (upd_best best nt k) -> (nt' = nt /\ k' = k) \/ In (nt', k') best.
Proof.
  unfold upd_best. destruct (existsb (fun p => String.eqb (fst p) nt) best) eqn:E.
  - intros H. apply in_map_iff in H. destruct H as ([a b] & Heq & Hin). cbn [fst] in Heq.
    destruct (String.eqb a nt); inversion Heq; subst; auto.
  - intros H. apply in_app_or in H. destruct H as [H|[H|[]]]; auto. inversion H; subst. left; auto.
Qed.

Lemma upd_best_has best nt k : In (nt, k) (upd_best best nt k).
Proof.
  unfold upd_best. destruct (existsb (fun p => String.eqb (fst p) nt) best) eqn:E.
  - apply existsb_exists in E. destruct E as ([a b] & Hin & Ha). cbn [fst] in Ha. apply String.eqb_eq in Ha. subst a.
    apply in_map_iff. exists (nt, b). split; auto. cbn [fst]. rewrite String.eqb_refl. reflexivity.
  - apply in_or_app. right. left. reflexivity.
Qed.

Lemma upd_best_keeps best nt k nt' k' : nt' <> nt -> In (nt', k') best -> In (nt', k') (upd_best best nt k).
Proof.
  intros Hne Hin. unfold upd_best. destruct (existsb (fun p => String.eqb (fst p) nt) best).
  - apply in_map_iff. exists (nt', k'). split; auto. cbn [fst].
    destruct (String.eqb nt' nt) eqn:E; auto. apply String.eqb_eq in E. contradiction.
  - apply in_or_app. left. exact Hin.
Qed.

Definition round_best (k : nat) (avail : list string) (best : list (string * nat)) :=
  fold_left (fun b nt => if look complete nt k then upd_best b nt k else b) avail best.

Lemma round_best_in k : forall avail best nt' k', In (nt', k') (round_best k avail best) ->
  (k' = k /\ In nt' avail /\ look complete nt' k = true) \/ In (nt', k') best.
Proof.
  induction avail as [|a avail IH]; intros best nt' k' H; cbn [round_best fold_left] in H; auto.
  apply IH in H. destruct H as [(-> & Hin & Hc)|H].
  - left. repeat split; auto. right; exact Hin.
  - destruct (look complete a k) eqn:Ec; auto.
    apply upd_best_in in H. destruct H as [[-> ->]|H]; auto.
    left. repeat split; auto. left; reflexivity.
Qed.

(* whoever has an entry keeps one, with a count that is not smaller *)
Lemma round_best_keeps k : forall avail best nt kb, In (nt, kb) best -> kb <= k -> exists kb', kb <= kb' /\ In (nt, kb') (round_best k avail best).
Proof.
  induction avail as [|a avail IH]; intros best nt kb Hin Hle; cbn [round_best fold_left]; [exists kb; auto|].
  destruct (look complete a k) eqn:Ec; [|apply IH; auto].
  destruct (string_dec nt a) as [->|Hne].
  - destruct (IH (upd_best best a k) a k (upd_best_has _ _ _) (le_n _)) as (kb' & H1 & H2). exists kb'. split; [lia|exact H2].
  - apply IH; auto. apply upd_best_keeps; auto.
Qed.

Lemma round_best_new k : forall avail best nt, In nt avail -> look complete nt k = true -> exists kb', k <= kb' /\ In (nt, kb') (round_best k avail best).
Proof.
  induction avail as [|a avail IH]; intros best nt Hin Hc; [destruct Hin|]. cbn [round_best fold_left].
  destruct Hin as [->|Hin].
  - rewrite Hc. apply round_best_keeps; [apply upd_best_has | lia].
  - apply IH; auto.
Qed.

Definition Inv (k : nat) (avail : list string) (best : list (string * nat)) : Prop :=
  1 <= k /\
  (forall nt, In nt avail <-> In nt cands /\ alive_upto nt k = true) /\
  (forall nt kb, In (nt, kb) best -> In nt cands /\ 1 <= kb < k /\ eligible nt kb = true) /\
  (forall nt k', In nt cands -> 1 <= k' < k -> eligible nt k' = true -> exists kb, k' <= kb /\ In (nt, kb) best).

Lemma inv_step k avail best : Inv k avail best ->
  Inv (S k) (filter (fun nt => look alive nt k) avail) (round_best k avail best).
Proof.
  intros (Hk & HA & HB & HC). split; [lia|]. split; [|split].
  - intros nt. rewrite filter_In, HA, alive_upto_S by lia. rewrite andb_true_iff. tauto.
  - intros nt kb Hin. apply round_best_in in Hin. destruct Hin as [(-> & Hav & Hc)|Hin].
    + apply HA in Hav. destruct Hav as [Hc1 Hal]. repeat split; auto; try lia.
      unfold eligible. rewrite Hc, Hal. reflexivity.
    + destruct (HB _ _ Hin) as (Hc1 & Hr & He). repeat split; auto; lia.
  - intros nt k' Hc Hr He. destruct (Nat.eq_dec k' k) as [->|Hne].
    + unfold eligible in He. apply andb_true_iff in He. destruct He as [Ec Ea].
      apply round_best_new; auto. apply HA. auto.
    + destruct (HC nt k' Hc ltac:(lia) He) as (kb & Hle & Hin).
      destruct (HB _ _ Hin) as (_ & Hr' & _).
      destruct (round_best_keeps k avail best nt kb Hin ltac:(lia)) as (kb' & H1 & H2). exists kb'. split; [lia|exact H2].
Qed.

Lemma race_inv : forall n k avail best, Inv k avail best ->
  let best' := race complete alive n k avail best in
  (forall nt kb, In (nt, kb) best' -> In nt cands /\ 1 <= kb < k + n /\ eligible nt kb = true) /\
  (forall nt k', In nt cands -> 1 <= k' < k + n -> eligible nt k' = true -> exists kb, k' <= kb /\ In (nt, kb) best').
Proof.
  induction n as [|n IH]; intros k avail best HI; cbn [race].
  - destruct HI as (Hk & HA & HB & HC). split.
    + intros nt kb Hin. destruct (HB _ _ Hin) as (H1 & H2 & H3). repeat split; auto; lia.
    + intros nt k' Hc Hr He. apply HC; auto. lia.
  - destruct avail as [|a avail].
    + destruct HI as (Hk & HA & HB & HC). split.
      * intros nt kb Hin. destruct (HB _ _ Hin) as (H1 & H2 & H3). repeat split; auto; lia.
      * intros nt k' Hc Hr He. destruct (Nat.lt_ge_cases k' k) as [Hlt|Hge]; [apply HC; auto; lia|].
        exfalso. unfold eligible in He. apply andb_true_iff in He. destruct He as [_ Ea].
        apply (alive_upto_mono nt k k' Hk Hge) in Ea. assert (X : In nt []) by (apply HA; auto). destruct X.
    + specialize (IH (S k) _ _ (inv_step _ _ _ HI)). cbn zeta in IH. destruct IH as [I1 I2]. split.
      * intros nt kb Hin. destruct (I1 _ _ Hin) as (H1 & H2 & H3). repeat split; auto; lia.
      * intros nt k' Hc Hr He. apply I2; auto. lia.
Qed.

Lemma pick_spec : forall best cur r, pick best cur = Some r ->
  (In r best \/ cur = Some r) /\ (forall p, In p best -> snd p <= snd r) /\ (forall c, cur = Some c -> snd c <= snd r).
Proof.
  induction best as [|[nt k] best IH]; intros cur r H; cbn [pick] in H.
  - subst cur. repeat split; auto. intros p []. intros c Hc; inversion Hc; subst; auto.
  - destruct cur as [[ntc kc]|].
    + destruct (Nat.ltb kc k) eqn:E.
      * apply Nat.ltb_lt in E. destruct (IH _ _ H) as ([H1|H1] & H2 & H3).
        -- repeat split; [left; right; exact H1| |].
           ++ intros p [<-|Hp]; [apply (H3 (nt, k)); reflexivity | apply H2; exact Hp].
           ++ intros c Hc; inversion Hc; subst. specialize (H3 _ eq_refl). cbn [snd] in *. lia.
        -- inversion H1; subst. repeat split; [left; left; reflexivity| |].
           ++ intros p [<-|Hp]; [cbn; lia | apply H2; exact Hp].
           ++ intros c Hc; inversion Hc; subst. cbn [snd]. lia.
      * apply Nat.ltb_ge in E. destruct (IH _ _ H) as ([H1|H1] & H2 & H3).
        -- repeat split; [left; right; exact H1| |].
           ++ intros p [<-|Hp]; [specialize (H3 _ eq_refl); cbn [snd] in *; lia | apply H2; exact Hp].
           ++ intros c Hc. apply H3. exact Hc.
        -- repeat split; [right; exact H1| |].
           ++ intros p [<-|Hp]; [inversion H1; subst; cbn [snd]; lia | apply H2; exact Hp].
           ++ intros c Hc. apply H3. exact Hc.
    + destruct (IH _ _ H) as ([H1|H1] & H2 & H3).
      * repeat split; [left; right; exact H1| |].
        -- intros p [<-|Hp]; [apply (H3 (nt, k)); reflexivity | apply H2; exact Hp].
        -- intros c Hc; discriminate.
      * inversion H1; subst. repeat split; [left; left; reflexivity| |].
        -- intros p [<-|Hp]; [cbn; lia | apply H2; exact Hp].
        -- intros c Hc; discriminate.
Qed.

Lemma pick_none : forall best cur, pick best cur = None -> best = [] /\ cur = None.
Proof.
  induction best as [|[nt k] best IH]; intros cur H; cbn [pick] in H; [auto|].
  destruct cur as [[ntc kc]|].
  - destruct (Nat.ltb kc k); apply IH in H; destruct H; discriminate.
  - apply IH in H. destruct H; discriminate.
Qed.

Lemma inv_init : Inv 1 cands [].
Proof.
  split; [lia|]. split; [|split].
  - intros nt. unfold alive_upto. cbn. tauto.
  - intros nt kb [].
  - intros nt k' _ Hr. lia.
Qed.

(* the accepted message is of a forecast type, is a complete parse of exactly k of the sender's units by a type that was still in the race,
   and no forecast type has a longer one *)
Theorem choose_longest n nt k : choose complete alive n cands = Some (nt, k) ->
  In nt cands /\ 1 <= k <= n /\ eligible nt k = true /\
  forall nt' k', In nt' cands -> 1 <= k' <= n -> eligible nt' k' = true -> k' <= k.
Proof.
  unfold choose. intros H. destruct (race_inv n 1 cands [] inv_init) as [I1 I2]. cbn zeta in *.
  destruct (pick_spec _ _ _ H) as ([Hin|Hc] & Hmax & _); [|discriminate].
  destruct (I1 _ _ Hin) as (H1 & H2 & H3). repeat split; auto; try lia.
  intros nt' k' Hc' Hr He. destruct (I2 nt' k' Hc' ltac:(lia) He) as (kb & Hle & Hinb).
  specialize (Hmax _ Hinb). cbn [snd] in Hmax. lia.
Qed.

(* no message is accepted exactly when no forecast type has a complete parse while in the race *)
Theorem choose_none n : choose complete alive n cands = None ->
  forall nt k, In nt cands -> 1 <= k <= n -> eligible nt k = false.
Proof.
  unfold choose. intros H nt k Hc Hr. destruct (race_inv n 1 cands [] inv_init) as [I1 I2]. cbn zeta in *.
  apply pick_none in H. destruct H as [Hb _].
  destruct (eligible nt k) eqn:E; auto. destruct (I2 nt k Hc ltac:(lia) E) as (kb & _ & Hin). rewrite Hb in Hin. destruct Hin.
Qed.
End Choose.
