(* Property C01 -- statements only; proofs in Proofs/C01.v and Proofs/C01Replace.v *)
From Coq Require Import List String.
From FV Require Import Base.Re Base.Grammar Model.FuzzM Model.ReplaceM Proofs.C01 Proofs.C01Replace.

(* the derivation checker used on implementation outputs decides [derives] *)
Theorem C01_checker_correct : forall G s t, derives_b G s t = true <-> derives G s t.
Proof. exact derives_b_spec. Qed.
Print Assumptions C01_checker_correct.

(* plain grammar fuzzing: every grammar, every budget/fuel, every decision tape *)
Theorem C01_fuzz_derives : forall G fuel s tape t, fuzz_start G fuel s tape = Some t -> derives G s t.
Proof. exact fuzz_derives. Qed.
Print Assumptions C01_fuzz_derives.

(* subtree replacement by any derivation with the same root symbol *)
Theorem C01_replace_derives : forall G fuel s t p v t',
  derives G s t -> valid G v -> replace1 fuel t p v = Some t' -> derives G s t'.
Proof. exact replace_derives. Qed.
Print Assumptions C01_replace_derives.

(* all sequences of search operators (fresh individuals, crossover, mutation, selection) *)
Theorem C01_search_derives : forall G s ops pop,
  Forall (derives G s) pop -> Forall (derives G s) (fold_left (step G s) ops pop).
Proof. exact search_derives. Qed.
Print Assumptions C01_search_derives.
