(* Property C02 -- statements only; proofs in Proofs/C02Arith.v and Proofs/C02.v *)
From Coq Require Import List String ZArith.
From FV Require Import Base.Grammar Model.SearchM Model.ConstraintM gen.EvalArith Model.C03Case Proofs.C02Arith Proofs.C02.
Import ListNotations.

(* arithmetic: acceptance implies that every constraint of both classes reported solved = total > 0
   and none raised; for all counts and totals below 2^16 *)
Theorem C02_accept_implies_all_solved : forall (hs rs : list (option (Z * Z))) soft,
  Forall wf_item hs -> Forall wf_item rs ->
  (Z.of_nat (List.length hs) < 65536)%Z -> (Z.of_nat (List.length rs) < 65536)%Z ->
  snd (evaluate_individual_m (Z.of_nat (List.length hs)) (Z.of_nat (List.length rs)) 0
         (class_fitness (res_of hs)) (class_fitness (res_of rs)) soft PrimFloat.one true) = true ->
  forallb ok_item hs = true /\ forallb ok_item rs = true.
Proof. exact accept_implies_all_solved. Qed.
Print Assumptions C02_accept_implies_all_solved.

(* every tree the evaluator yields validates against every hard constraint (lazy or eager) *)
Theorem C02_emitted_sound : forall F Q orc lazy hard rep,
  Forall wf_item (results F Q orc lazy hard) -> Forall wf_item rep ->
  (Z.of_nat (List.length hard) < 65536)%Z -> (Z.of_nat (List.length rep) < 65536)%Z ->
  accepts F Q orc lazy hard rep = true ->
  Forall (fun c => check_m F Q orc lazy c = VTrue) hard /\ forallb ok_item rep = true.
Proof. exact emitted_sound. Qed.
Print Assumptions C02_emitted_sound.

(* ... and therefore satisfies them in the documented meaning (C07) *)
Theorem C02_emitted_sound_documented : forall t0 orc hard rep,
  (forall id cb e, ask orc id cb e <> OMissing) ->
  Forall (fun c => all_clean t0 c [] [] = true) hard ->
  Forall wf_item (results (code_F t0) (code_Q t0) orc false hard) -> Forall wf_item rep ->
  (Z.of_nat (List.length hard) < 65536)%Z -> (Z.of_nat (List.length rep) < 65536)%Z ->
  accepts (code_F t0) (code_Q t0) orc false hard rep = true ->
  Forall (fun c => verdict_doc t0 orc c = VTrue) hard /\ forallb ok_item rep = true.
Proof. exact emitted_sound_documented. Qed.
Print Assumptions C02_emitted_sound_documented.

Theorem C02_nonvacuous :
  let t0 := Node "<s>" [Node "<a>" [Leaf (LPay (PStr [49%N]))]] in
  let c := KExpr 0 [("v", SRule "<a>")] in
  let orc := [(0, [("v", CTree (RPath [0]))], [], OTrue)] in
  accepts (code_F t0) (code_Q t0) orc false [c] [Some (2, 2)%Z] = true /\
  accepts (code_F t0) (code_Q t0) [(0, [("v", CTree (RPath [0]))], [], ORaise)] false [c] [] = false.
Proof. exact c02_nonvacuous. Qed.
Print Assumptions C02_nonvacuous.

(* ---- RepetitionBoundsConstraint.fitness (modelled in Model/RepBoundsM.v, tied by correspondence) ---- *)
From FV Require Import Model.RepBoundsM Proofs.C02RepBounds.

(* a count field is out of bounds for a repetition exactly when it lies after the repetition's anchor in document order *)
Theorem C02_in_bounds_is_document_order : forall m p, in_bounds m p = false <-> first_diff_lt m p.
Proof. exact in_bounds_spec. Qed.
Print Assumptions C02_in_bounds_is_document_order.

(* the bound is read from the last match in bounds *)
Theorem C02_bound_from_nearest_preceding_field : forall cands m v, bound_value (BSearch cands) m = Some v ->
  exists pre p post, cands = pre ++ (p, v) :: post /\ in_bounds m p = true /\ Forall (fun c => in_bounds m (fst c) = false) post.
Proof. exact bound_value_last. Qed.
Print Assumptions C02_bound_from_nearest_preceding_field.

(* solved = total exactly when every repetition instance is within its bounds *)
Theorem C02_repetition_bounds_success : forall bmin bmax g n, count_ok bmin bmax g = Some n ->
  (n = List.length g <-> Forall (fun e => group_ok bmin bmax (snd e) = Some true) g) /\ n <= List.length g.
Proof. exact count_ok_all. Qed.
Print Assumptions C02_repetition_bounds_success.
