(* Property C03 -- only statements closed by [exact]; see Proofs/C03.v *)
From Coq Require Import ZArith List.
From FV Require Import gen.EvalArith Proofs.C03.
Import ListNotations.

Theorem C03_accepts_solved : forall (hs rs : list Z) (soft : PrimFloat.float),
  Forall (fun t => 0 < t < 2^53)%Z hs -> Forall (fun t => 0 < t < 2^53)%Z rs ->
  (Z.of_nat (length hs) + Z.of_nat (length rs) < 2^53)%Z ->
  snd (evaluate_individual_m (Z.of_nat (length hs)) (Z.of_nat (length rs)) 0
         (class_fitness (solved_results hs)) (class_fitness (solved_results rs))
         soft PrimFloat.one true) = true.
Proof. exact accepts_solved_full. Qed.
Print Assumptions C03_accepts_solved.

Theorem C03_nonvacuous :
  evaluate_individual_m 1 5 0 (class_fitness (solved_results [3%Z]))
    (class_fitness (solved_results [1;2;3;4;5]%Z)) PrimFloat.zero PrimFloat.one true = (PrimFloat.one, true).
Proof. exact accepts_1_5. Qed.
Print Assumptions C03_nonvacuous.
