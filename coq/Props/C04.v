(* Property C04 -- statements only; proofs in Proofs/C04.v *)
From Coq Require Import List String NArith.
From FV Require Import Base.Grammar Model.EarleyM Proofs.C04.
Import ListNotations.

(* invariant of the chart: every admitted state is justified by a rule and its children spell the consumed
   part of that rule over exactly the input bits between its origin and its column -- for every compiled
   grammar, input, start symbol and amount of fuel *)
Theorem C04_chart_ok : forall g inp start, start <> startnt ->
  (forall nt nm alts alt, rlookup g nt = Some (nm, alts) -> In alt alts -> ~ In (SN startnt) alt) ->
  forall fuel, tab_ok g inp start (chart fuel g start inp).
Proof. exact chart_ok. Qed.
Print Assumptions C04_chart_ok.

(* every yielded tree spells the start symbol over the whole input *)
Theorem C04_chart_sound : forall g inp start, start <> startnt ->
  (forall nt nm alts alt, rlookup g nt = Some (nm, alts) -> In alt alts -> ~ In (SN startnt) alt) ->
  forall fuel t, In t (parse_raw fuel g start inp) ->
  exists kids, In t kids /\ ms g inp [SN start] kids 0 (8 * List.length (units inp)).
Proof. exact chart_sound. Qed.
Print Assumptions C04_chart_sound.

Theorem C04_chart_sound_named : forall g inp start, start <> startnt ->
  (forall nt nm alts alt, rlookup g nt = Some (nm, alts) -> In alt alts -> ~ In (SN startnt) alt) ->
  forall fuel t alts, rlookup g start = Some (true, alts) -> In t (parse_raw fuel g start inp) ->
  exists alt ks, t = Node start ks /\ In alt alts /\ ms g inp alt ks 0 (8 * List.length (units inp)).
Proof. exact chart_sound_named. Qed.
Print Assumptions C04_chart_sound_named.

(* the serialisation of a spelled child list is exactly the input (byte-level grammars) *)
Theorem C04_yield_is_input : forall g inp,
  (forall nt nm alts alt, rlookup g nt = Some (nm, alts) -> In alt alts -> forallb nobit_sy alt = true) ->
  (forall id w l, re_len (re_at inp) id w = Some l -> w + l <= List.length (units inp)) ->
  forall start kids, ms g inp [SN start] kids 0 (8 * List.length (units inp)) -> kid_units kids = units inp.
Proof. exact yield_is_input. Qed.
Print Assumptions C04_yield_is_input.

(* collapsing removes every helper symbol and keeps the leaves *)
Theorem C04_collapse_no_helper : forall t, forallb no_helper_node (collapse t) = true.
Proof. exact collapse_no_helper. Qed.
Print Assumptions C04_collapse_no_helper.

Theorem C04_collapse_keeps_leaves : forall t, flat_map leaves (collapse t) = leaves t.
Proof. exact collapse_keeps_leaves. Qed.
Print Assumptions C04_collapse_keeps_leaves.
