(* Property C05 -- statements only; proofs in Proofs/C05.v (PARTIAL: see the header there) *)
From Coq Require Import List String NArith Arith.
From FV Require Import Base.Grammar Model.EarleyM Model.C04Case Proofs.C05.
Import ListNotations.

Theorem C05_scan_literal_complete_partial : forall cf g inp t k s p,
  next_sym s = Some (ST (TLit p)) ->
  k mod 8 = 0 ->
  is_prefix (lit_units p) (skipn (k / 8) (units inp)) = true ->
  k + 8 * List.length (lit_units p) < List.length t ->
  exists s', In s' (col (step cf g inp t k s) (k + 8 * List.length (lit_units p))) /\
             st_eqb (adv s [Leaf (slice_leaf inp p (lit_units p))]) s' = true.
Proof. exact scan_literal_complete. Qed.
Print Assumptions C05_scan_literal_complete_partial.

Theorem C05_empty_regex_match_refuted :
  parse_m 50 g_empty_regex "<start>" {| units := [98%N]; is_bytes := false; re_at := [(0%N, 0, 0); (0%N, 1, 0)] |} = [].
Proof. exact empty_regex_match_refuted. Qed.
Print Assumptions C05_empty_regex_match_refuted.

Theorem C05_nullable_reprediction_refuted :
  parse_m 50 g_nullable "<start>" {| units := [120%N]; is_bytes := false; re_at := [] |} = [].
Proof. exact nullable_reprediction_refuted. Qed.
Print Assumptions C05_nullable_reprediction_refuted.

Theorem C05_nonvacuous :
  parse_m 50 [("<start>", (true, [[ST (TLit (PStr [97%N])); SN "<start>"]; [ST (TLit (PStr [98%N]))]]))] "<start>"
    {| units := [97%N; 97%N; 98%N]; is_bytes := false; re_at := [] |}
  = [Node "<start>" [Leaf (LPay (PStr [97%N])); Node "<start>" [Leaf (LPay (PStr [97%N])); Node "<start>" [Leaf (LPay (PStr [98%N]))]]]].
Proof. exact accepts_member. Qed.
Print Assumptions C05_nonvacuous.
