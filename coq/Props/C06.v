(* Property C06 -- statements only; proofs in Proofs/C06.v (PARTIAL: termination is established per run by the
   out-of-fuel flag; C06_terminated_is_stable says what the flag means) *)
From Coq Require Import List String NArith Arith.
From FV Require Import Base.Grammar Model.EarleyM Model.EarleyFuelM Proofs.C06.
Import ListNotations.

Theorem C06_terminated_is_stable_partial : forall fuel g start inp t,
  chart_x fuel g start inp = (t, false) -> forall d, chart_x (fuel + d) g start inp = (t, false).
Proof. exact terminated_is_stable. Qed.
Print Assumptions C06_terminated_is_stable_partial.

Theorem C06_nullable_loop_refuted_sampled :
  let inp := {| units := [97%N; 97%N]; is_bytes := false; re_at := [] |} in
  snd (work 30 g_opt_star "<start>" inp) = false /\ snd (work 60 g_opt_star "<start>" inp) = false /\
  snd (work 120 g_opt_star "<start>" inp) = false /\
  fst (work 30 g_opt_star "<start>" inp) < fst (work 60 g_opt_star "<start>" inp) /\
  fst (work 60 g_opt_star "<start>" inp) < fst (work 120 g_opt_star "<start>" inp).
Proof. exact nullable_loop_exhausts_any_fuel_sampled. Qed.
Print Assumptions C06_nullable_loop_refuted_sampled.

Theorem C06_nonvacuous :
  work 50 [("<start>", (true, [[ST (TLit (PStr [97%N])); SN "<start>"]; [ST (TLit (PStr [98%N]))]]))] "<start>"
    {| units := [97%N; 97%N; 98%N]; is_bytes := false; re_at := [] |} = (13, true).
Proof. exact ordinary_grammar_terminates. Qed.
Print Assumptions C06_nonvacuous.
