(* Property C07 -- statements only; proofs in Proofs/C07Search.v and Proofs/C07.v *)
From Coq Require Import List String NArith ZArith.
From FV Require Import Base.Grammar Model.ReplaceM Model.SearchM Model.ConstraintM Proofs.C07Search Proofs.C07.
Import ListNotations.

(* selectors: the code's find/find_direct computes the documented denotation *)
Theorem C07_find_is_documented : forall t0 sc s d m cur, compat d m ->
  desc_clean t0 sc s m cur = true -> find_m t0 sc s d cur = den t0 sc s m cur.
Proof. exact find_is_den. Qed.
Print Assumptions C07_find_is_documented.

(* verdicts: eager validation = the documented meaning, for every tree, constraint and oracle *)
Theorem C07_check_is_documented : forall t0 orc c,
  (forall id cb e, ask orc id cb e <> OMissing) -> all_clean t0 c [] [] = true ->
  check_code t0 orc false c = verdict_doc t0 orc c.
Proof. exact check_is_documented. Qed.
Print Assumptions C07_check_is_documented.

(* lazy = eager = documented whenever the documented verdict is an answer *)
Theorem C07_lazy_is_documented : forall t0 orc c,
  (forall id cb e, ask orc id cb e <> OMissing) -> all_clean t0 c [] [] = true ->
  verdict_doc t0 orc c <> VRaise -> check_code t0 orc true c = verdict_doc t0 orc c.
Proof. exact lazy_is_documented. Qed.
Print Assumptions C07_lazy_is_documented.

Theorem C07_lazy_eager_same : forall F Q orc c,
  check_m F Q orc false c = VTrue \/ check_m F Q orc false c = VFalse ->
  check_m F Q orc true c = check_m F Q orc false c.
Proof. exact lazy_eager_same. Qed.
Print Assumptions C07_lazy_eager_same.

(* the two recorded departures of the unchanged code, as theorems about the faithful model *)
Theorem C07_desc_includes_base_refuted :
  let t0 := Node "<s>" [Node "<e>" [Node "<e>" [Leaf (LPay (PStr [120%N]))]]] in
  find_m t0 [] (SDesc (SAttr (SRule "<s>") (SRule "<e>")) (SRule "<e>")) false (RPath [])
    = Some [CTree (RPath [0; 0]); CTree (RPath [0])]
  /\ den t0 [] (SDesc (SAttr (SRule "<s>") (SRule "<e>")) (SRule "<e>")) MTop (RPath [])
    = Some [CTree (RPath [0; 0])].
Proof. exact desc_includes_base. Qed.
Print Assumptions C07_desc_includes_base_refuted.

Theorem C07_lazy_refuted_when_selector_raises :
  let t0 := Node "<s>" [Node "<a>" []] in
  let c := KOr [KExpr 0 []; KExpr 1 [("x", SItem (SRule "<a>") (IAt 5%Z))]] in
  let orc := [(0, [], [], OTrue)] in
  check_code t0 orc false c = VRaise /\ check_code t0 orc true c = VTrue.
Proof. exact lazy_differs_when_selector_raises. Qed.
Print Assumptions C07_lazy_refuted_when_selector_raises.

Theorem C07_nonvacuous :
  let t0 := Node "<s>" [Node "<a>" [Leaf (LPay (PStr [49%N]))]; Node "<a>" [Leaf (LPay (PStr [50%N]))]] in
  let c := KAll (BNt "<x>") (SAttr (SRule "<s>") (SRule "<a>")) (KExpr 0 [("v", SRule "<x>")]) in
  let orc := [(0, [("v", CTree (RPath [0]))], [], OTrue); (0, [("v", CTree (RPath [1]))], [], OFalse)] in
  all_clean t0 c [] [] = true /\ check_code t0 orc false c = VFalse /\ verdict_doc t0 orc c = VFalse.
Proof. exact c07_nonvacuous. Qed.
Print Assumptions C07_nonvacuous.
