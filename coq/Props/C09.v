(* Property C09 -- statements only; proofs in Proofs/C09.v *)
From Coq Require Import List NArith.
From FV Require Import Base.Grammar Model.TreeValueM Proofs.C09.
Import ListNotations.

Theorem C09_value_nesting_irrelevant : forall t, value_m t = value_spec (leaves t).
Proof. exact value_nesting_irrelevant. Qed.
Print Assumptions C09_value_nesting_irrelevant.

Theorem C09_same_leaves_same_value : forall t1 t2, leaves t1 = leaves t2 -> value_m t1 = value_m t2.
Proof. exact same_leaves_same_value. Qed.
Print Assumptions C09_same_leaves_same_value.

Theorem C09_to_bits_is_leaf_concat : forall t a ys,
  value_m t = Ok a -> all_bits (leaves t) = Ok ys -> to_bits a = Ok ys.
Proof. exact to_bits_is_leaf_concat. Qed.
Print Assumptions C09_to_bits_is_leaf_concat.

Theorem C09_bytes_are_grouped_bits : forall a bs x, to_bytes a = Ok bs -> to_bits a = Ok x -> bits_of_bytes bs = x.
Proof. exact bytes_are_grouped_bits. Qed.
Print Assumptions C09_bytes_are_grouped_bits.

Theorem C09_string_view_is_latin1_of_bytes : forall a s bs,
  is_binary a = true -> pending_text_ascii a = true ->
  to_string a = Ok s -> to_bytes a = Ok bs -> s = latin1_decode bs.
Proof. exact string_view_is_latin1_of_bytes. Qed.
Print Assumptions C09_string_view_is_latin1_of_bytes.

Theorem C09_string_view_refuted :
  let a := {| tval := VStr [233%N]; tbits := [false; true; false; false; false; false; false; true] |} in
  to_string a = Ok [233%N; 65%N] /\ to_bytes a = Ok [195%N; 169%N; 65%N].
Proof. exact string_view_refuted. Qed.
Print Assumptions C09_string_view_refuted.

Theorem C09_leaf_value_never_mutated : forall e l,
  reduce e (leaf_tv l) = Ok (leaf_tv l) \/ reduce e (leaf_tv l) = Err EConv.
Proof. exact leaf_value_never_mutated. Qed.
Print Assumptions C09_leaf_value_never_mutated.
