(* Property C10 -- statements only; proofs in Proofs/C10.v *)
From Coq Require Import List.
From FV Require Import Model.HeapTreeM Proofs.C10.
Import ListNotations.

(* sizes, hash caches and parent links are consistent in every reachable state *)
Theorem C10_ops_preserve_wf : forall ops st, WF st -> WF (fold_left step ops st).
Proof. exact ops_preserve_wf. Qed.
Print Assumptions C10_ops_preserve_wf.

Theorem C10_reachable_wf : forall ops, WF (run ops).
Proof. exact reachable_wf. Qed.
Print Assumptions C10_reachable_wf.

(* equality (hash equality, hashes assumed collision-free) is structural equality *)
Theorem C10_eq_iff_structure : forall o1 o2, wf o1 -> wf o2 ->
  (snd (hash_fill o1) = snd (hash_fill o2) <-> abs o1 = abs o2).
Proof. exact eq_iff_structure. Qed.
Print Assumptions C10_eq_iff_structure.

(* copying, replacing and prefixing hand out new objects and leave the pool they read unchanged *)
Theorem C10_fresh_ops_leave_inputs : forall st o, is_fresh_op o = true ->
  pool (step st o) = pool st \/ exists c, pool (step st o) = pool st ++ [c].
Proof. exact fresh_ops_leave_inputs. Qed.
Print Assumptions C10_fresh_ops_leave_inputs.

Theorem C10_nonvacuous :
  let st := run [ONew 5 0 0 []; ONew 6 0 0 []; ONew 1 0 0 [0; 1]; ONew 6 0 0 []; OReplace 0 [1] 1 []] in
  map abs (pool st) = [A 1 0 0 [A 5 0 0 []; A 6 0 0 []]; A 6 0 0 []; A 1 0 0 [A 5 0 0 []; A 6 0 0 []]] /\ WF st.
Proof. exact replace_example. Qed.
Print Assumptions C10_nonvacuous.
