(* Property C11 -- statements only; proofs in Proofs/C11.v *)
From Coq Require Import List String NArith.
From FV Require Import Base.Grammar Model.SearchM Model.ConstraintM Model.CacheM Proofs.C11.
Import ListNotations.

(* any memo whose key is complete and collision-free is transparent, for every history of requests *)
Theorem C11_cache_transparent : forall (K V : Type) (keq : K -> K -> bool) (f : K -> V),
  (forall k k', keq k k' = true -> f k = f k') ->
  forall hist k, fst (ask K V keq f (run K V keq f hist) k) = f k.
Proof. exact cache_transparent. Qed.
Print Assumptions C11_cache_transparent.

(* the constraint caches of the model, keyed by (tree, scope, local variables) *)
Theorem C11_constraint_cache_transparent : forall orc lazy c hist k,
  fst (ask ckey res ckey_eqb (eval_key orc lazy c) (run ckey res ckey_eqb (eval_key orc lazy c) hist) k) = eval_key orc lazy c k.
Proof. exact constraint_cache_transparent. Qed.
Print Assumptions C11_constraint_cache_transparent.

Theorem C11_key_without_locals_refuted :
  let t0 := Node "<s>" [Node "<a>" [Leaf (LPay (PStr [49%N]))]] in
  let c := KExpr 0 [] in
  let orc := [(0, [], [("x", CTree (RPath [0]))], OTrue); (0, [], [("x", CTree (RPath []))], OFalse)] in
  let k1 : ckey := (t0, [], [("x", CTree (RPath [0]))]) in
  let k2 : ckey := (t0, [], [("x", CTree (RPath []))]) in
  fst (ask ckey res ckey_eqb_no_locals (eval_key orc false c) (run ckey res ckey_eqb_no_locals (eval_key orc false c) [k1]) k2)
    <> eval_key orc false c k2.
Proof. exact key_without_locals_refuted. Qed.
Print Assumptions C11_key_without_locals_refuted.
