(* Property C12 -- statements only; proofs in Proofs/C12.v *)
From Coq Require Import List.
From FV Require Import Base.Grammar Model.ParserCacheM Proofs.C12.
Import ListNotations.

Theorem C12_history_independent : forall forest hist k,
  fst (serve forest (run forest hist) (ParseAll k)) = forest k.
Proof. exact history_independent. Qed.
Print Assumptions C12_history_independent.

Theorem C12_history_independent_prefix : forall forest hist k n,
  fst (serve forest (run forest hist) (ParseSome k n)) = firstn n (forest k).
Proof. exact history_independent_prefix. Qed.
Print Assumptions C12_history_independent_prefix.

Theorem C12_nonvacuous :
  let forest := fun k : nat => [Leaf (LBit true); Leaf (LBit false); Leaf (LBit true)] in
  fst (serve forest (run forest [ParseSome 0 1]) (ParseAll 0)) = forest 0.
Proof. exact first_then_all. Qed.
Print Assumptions C12_nonvacuous.
