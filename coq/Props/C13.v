(* Property C13 -- statements only; proofs in Proofs/C13.v (PARTIAL: the scanner of literal terminals; the
   chart-level simulation between incremental and one-shot parsing is not proved, it is checked on all compositions) *)
From Coq Require Import List NArith.
From FV Require Import Model.EarleyM Model.IncrementalM Proofs.C13.
Import ListNotations.

Theorem C13_fragmentation_irrelevant_literal_partial : forall l frags, l <> [] ->
  feed_all l [] frags = is_prefix l (concat frags).
Proof. exact fragmentation_irrelevant_literal. Qed.
Print Assumptions C13_fragmentation_irrelevant_literal_partial.

Theorem C13_any_two_cuts_agree_partial : forall l f1 f2, l <> [] -> concat f1 = concat f2 ->
  feed_all l [] f1 = feed_all l [] f2.
Proof. exact any_two_cuts_agree. Qed.
Print Assumptions C13_any_two_cuts_agree_partial.

Theorem C13_nonvacuous :
  feed_all [97; 98; 99]%N [] [[97%N]; [98%N]; [99%N; 100%N]] = true /\ feed_all [97; 98; 99]%N [] [[97%N; 120%N]; [99%N]] = false.
Proof. exact cut_inside_literal. Qed.
Print Assumptions C13_nonvacuous.
