(* Property C15 -- statements only; proofs in Proofs/C15.v *)
From Coq Require Import List String NArith.
From FV Require Import Base.Re Base.Grammar Model.ReplaceM Model.SearchM Model.ConstraintM Model.PrinterM Model.C15Case Proofs.C15.
Import ListNotations.
Open Scope string_scope.

(* the normal form under which printed-and-re-read bodies are compared does not change the expansions of a body *)
Theorem C15_normal_form_same_expansions : forall G r kids, expands G (norm r) kids <-> expands G r kids.
Proof. exact norm_lang. Qed.
Print Assumptions C15_normal_form_same_expansions.

(* what the check evaluates: if it answers 1, the original and the re-read grammar have exactly the same derivations *)
Theorem C15_same_language : forall a b tab s t, c15_grammar (a, b) = 1 ->
  (derives {| rules := a; re_tab := tab |} s t <-> derives {| rules := b; re_tab := tab |} s t).
Proof.
  intros a b tab s t H. apply equiv_same_derivations. unfold c15_grammar in H.
  destruct (rules_equiv a b); [reflexivity|discriminate].
Qed.
Print Assumptions C15_same_language.

(* ... and if the exported constraints compare equal, all verdicts (documented meaning and the code's, lazy or eager) coincide on every tree *)
Theorem C15_same_verdicts : forall cs cs', c15_constr (cs, cs') = 1 ->
  forall t orc, map (verdict_doc t orc) cs = map (verdict_doc t orc) cs' /\
                forall lz, map (check_code t orc lz) cs = map (check_code t orc lz) cs'.
Proof. exact same_export_same_verdicts. Qed.
Print Assumptions C15_same_verdicts.

(* non-vacuity: ("a" "b")* printed with its group is recognised, printed without it is not *)
Definition la := Tm (TLit (PStr [97%N])).
Definition lb := Tm (TLit (PStr [98%N])).
Example C15_group_kept : c15_grammar ([("<s>", Rep (Cat [la; lb]) 0 None)], [("<s>", Alt [Cat [Rep (Alt [Cat [la; lb]]) 0 None]])]) = 1.
Proof. vm_compute. reflexivity. Qed.
Example C15_group_lost : c15_grammar ([("<s>", Rep (Cat [la; lb]) 0 None)], [("<s>", Cat [la; Rep lb 0 None])]) = 0.
Proof. vm_compute. reflexivity. Qed.
