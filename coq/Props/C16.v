(* Property C16 -- statements only; proofs in Proofs/C16.v *)
From Coq Require Import List String NArith.
From FV Require Import Model.GenFieldM Proofs.C16.
Import ListNotations.
Open Scope string_scope.

(* for every history of search operators, every generator-owned field of every individual carries a value the generator
   expression returned for exactly the argument values recorded with it *)
Theorem C16_fields_are_generator_output : forall g os d f,
  In d (pop (run g os)) -> In f d -> g (f_nt f) (f_args f) = Some (f_val f).
Proof. exact fields_are_generator_output. Qed.
Print Assumptions C16_fields_are_generator_output.

(* search operators never edit generated text: such attempts are refused and change nothing *)
Theorem C16_edits_refused : forall g s i k v,
  step g s (OEditInside i k v) = (s, Refused) /\ step g s (OAdopt i k v) = (s, Refused).
Proof. exact edits_refused. Qed.
Print Assumptions C16_edits_refused.

(* a changed argument re-runs the generator: the field then holds the value for the new arguments *)
Theorem C16_replaced_arg_reruns : forall g s i k a f v, get_field s i k = Some f -> g (f_nt f) a = Some v ->
  get_field (fst (step g s (OReplaceArg i k a))) i k = Some {| f_nt := f_nt f; f_args := a; f_val := v |}.
Proof. exact replaced_arg_reruns. Qed.
Print Assumptions C16_replaced_arg_reruns.

(* a generator value that does not fit the rule is an error, nothing is replaced *)
Theorem C16_misfit_is_error : forall g s i k a f, get_field s i k = Some f -> g (f_nt f) a = None ->
  step g s (OReplaceArg i k a) = (s, Error) /\ step g s (ORefuzzField i k a) = (s, Error).
Proof. exact misfit_is_error. Qed.
Print Assumptions C16_misfit_is_error.

(* non-vacuity: a concrete history with a dependent generator *)
Definition g0 : gen := fun nt a => match a with [(_, x)] => Some (x ++ x)%list | [] => Some [49%N] | _ => None end.
Example C16_nonvacuous :
  let s := run g0 [OFuzz [("<k>", []); ("<t>", [("<a>", [50%N])])]; OReplaceArg 0 1 [("<a>", [51%N])]; OAdopt 0 0 [53%N]] in
  map (map f_val) (pop s) = [[[49%N]; [51%N; 51%N]]].
Proof. vm_compute. reflexivity. Qed.
