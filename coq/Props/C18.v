(* Property C18 -- statements only; proofs in Proofs/C18.v *)
From Coq Require Import List.
From FV Require Import Model.IsolationM Proofs.C18.
Import ListNotations.

(* for every process (shared state, per-instance state, operations) and every schedule: if operations leave the shared state unchanged,
   what an instance yields is what it yields when it runs alone *)
Theorem C18_inert_shared_state_isolates : forall G L Op Out (step : G -> L -> Op -> G * L * Out),
  shared_inert G L Op Out step -> forall sch g ls b,
  run G L Op Out step g ls b sch = run G L Op Out step g ls b (only Op b sch).
Proof. exact inert_isolates. Qed.
Print Assumptions C18_inert_shared_state_isolates.

(* ... and likewise if no operation's effect on its instance, nor its output, depends on the shared state *)
Theorem C18_unread_shared_state_isolates : forall G L Op Out (step : G -> L -> Op -> G * L * Out),
  shared_unread G L Op Out step -> forall sch g g' ls ls' b, ls b = ls' b ->
  run G L Op Out step g ls b sch = run G L Op Out step g' ls' b (only Op b sch).
Proof. exact unread_isolates. Qed.
Print Assumptions C18_unread_shared_state_isolates.

(* the process-global repetition cap of the code is written by one instance's search and read by another's fuzzing and parsing *)
Theorem C18_cap_leaks_refuted :
  run nat unit cop nat cstep 20 (fun _ => tt) 1 [(0, CFuzz 8 5); (1, CFuzz 0 30)] <> run nat unit cop nat cstep 20 (fun _ => tt) 1 [(1, CFuzz 0 30)]
  /\ run nat unit cop nat cstep 20 (fun _ => tt) 1 [(0, CFuzz 8 5); (1, CParse 25)] <> run nat unit cop nat cstep 20 (fun _ => tt) 1 [(1, CParse 25)].
Proof. exact cap_leaks_refuted. Qed.
Print Assumptions C18_cap_leaks_refuted.
