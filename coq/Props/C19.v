(* Property C19 -- statements only; proofs in Proofs/C19.v *)
From Coq Require Import List String Bool.
From FV Require Import Base.Re Base.Grammar Model.ForecastM Model.SliceM Proofs.C19 Proofs.C19Slice.
Import ListNotations.
Open Scope string_scope.

(* for every message-level expression r and every history h: the forecast offers exactly the messages that can follow h in some
   interaction of the language, and reports "complete" exactly when h is an interaction.  Bounded and unbounded repetitions,
   options, alternatives and nesting are all constructors of r. *)
Theorem C19_forecast_exact : forall (r : mre) (h : list msg),
  (forall a, In a (fst (forecast msg macc r h)) <-> exists w, lang msg msg macc r (h ++ a :: w)) /\
  (snd (forecast msg macc r h) = true <-> lang msg msg macc r h).
Proof. intros r h. apply forecast_exact. apply String.eqb_eq. Qed.
Print Assumptions C19_forecast_exact.

(* non-vacuity: <a> ::= <d>? <e>* <c>{1,2} (<g> | <i>)  (tests/resources/forecaster.fan), after "d c c" only g and i remain *)
Definition fc : mre :=
  RCat _ (RRep _ (RAtom _ "d") 0 (Some 1)) (RCat _ (RRep _ (RAtom _ "e") 0 None)
       (RCat _ (RRep _ (RAtom _ "c") 1 (Some 2)) (RAlt _ (RAtom _ "g") (RAtom _ "i")))).
Example C19_nonvacuous :
  (nodup string_dec (fst (forecast msg macc fc ["d"; "c"; "c"])), snd (forecast msg macc fc ["d"; "c"; "c"])) = (["g"; "i"], false)
  /\ forecast msg macc fc ["d"; "c"; "c"; "g"] = ([], true).
Proof. split; vm_compute; reflexivity. Qed.

(* slicing to a subset of parties (the model of slice_parties that the correspondence check runs against the real one): every message
   left in the sliced protocol is sent by a kept party, and everything that is removed consists of messages of other parties only.
   Together with C19_forecast_exact (which holds for every expression, hence for the sliced one): no message of a party that was
   sliced away is ever offered. *)
Theorem C19_sliced_keeps_only_kept_parties : forall keep rules fuel r m,
  islice fuel (visible keep) rules r = Some (Some m) -> Forall (fun a => visible keep a = true) (atoms msg m).
Proof. intros keep rules. exact (islice_visible (visible keep) rules). Qed.
Print Assumptions C19_sliced_keeps_only_kept_parties.

Theorem C19_sliced_removes_only_other_parties : forall keep rules fuel r full,
  islice fuel (visible keep) rules r = Some None -> inline fuel rules r = Some full ->
  Forall (fun a => visible keep a = false) (atoms msg full).
Proof. intros keep rules. exact (islice_removed_invisible (visible keep) rules). Qed.
Print Assumptions C19_sliced_removes_only_other_parties.

(* every interaction of the sliced protocol is what the kept parties see of some interaction of the full protocol (hp: no member of a
   sequence is infeasible).  The converse does not hold and is not claimed: slicing DROPS an alternative made of other parties' messages
   only, it does not turn it into the empty sequence. *)
Theorem C19_sliced_interactions_are_visible_parts : forall keep rules fuel r m full,
  islice fuel (visible keep) rules r = Some (Some m) -> inline fuel rules r = Some full -> hp full = true ->
  forall w, lang msg msg macc m w -> exists w', lang msg msg macc full w' /\ filter (visible keep) w' = w.
Proof. intros keep rules. exact (islice_sound (visible keep) rules). Qed.
Print Assumptions C19_sliced_interactions_are_visible_parts.

(* non-vacuity: <start> ::= <A:B:x> (<C:A:y> | <C:B:z>) <t> ; <t> ::= <B:A:u>?   sliced to {A, B} *)
Example C19_slice_nonvacuous :
  islice 9 (visible ["A"; "B"]) [("<start>", Cat [Ref "A:B:<x>"; Alt [Ref "C:A:<y>"; Ref "C:B:<z>"]; Ref "<t>"]); ("<t>", Rep (Ref "B:A:<u>") 0 (Some 1))] (Ref "<start>")
  = Some (Some (RCat _ (RAtom _ "A:B:<x>") (RCat _ (RRep _ (RAtom _ "B:A:<u>") 0 (Some 1)) (REps _)))).
Proof. vm_compute. reflexivity. Qed.

Example C19_slice_sound_nonvacuous :
  option_map hp (inline 9 [("<start>", Cat [Ref "A:B:<x>"; Alt [Ref "C:A:<y>"; Ref "C:B:<z>"]; Ref "<t>"]); ("<t>", Rep (Ref "B:A:<u>") 0 (Some 1))] (Ref "<start>"))
  = Some true.
Proof. vm_compute. reflexivity. Qed.

(* the second mode of slice_parties (ignore_receivers=False: what truncate_invisible_packets does before a protocol run).  The three slicing
   theorems hold for EVERY visibility test, in particular for both modes (vis_mode); the two characterisations say what the tests mean for a
   message name "s:r:<n>": in the first mode a message stays iff its sender is kept, in the second iff it has no recipient or its sender or
   its recipient is kept *)
Theorem C19_sliced_modes : forall k rules fuel r,
  (forall m, islice fuel (vis_mode k) rules r = Some (Some m) -> Forall (fun a => vis_mode k a = true) (atoms msg m)) /\
  (forall full, islice fuel (vis_mode k) rules r = Some None -> inline fuel rules r = Some full ->
     Forall (fun a => vis_mode k a = false) (atoms msg full)) /\
  (forall m full, islice fuel (vis_mode k) rules r = Some (Some m) -> inline fuel rules r = Some full -> hp full = true ->
     forall w, lang msg msg macc m w -> exists w', lang msg msg macc full w' /\ filter (vis_mode k) w' = w).
Proof.
  intros k rules fuel r. split; [|split].
  - intros m. exact (islice_visible (vis_mode k) rules fuel r m).
  - intros full. exact (islice_removed_invisible (vis_mode k) rules fuel r full).
  - intros m full. exact (islice_sound (vis_mode k) rules fuel r m full).
Qed.
Print Assumptions C19_sliced_modes.

Theorem C19_visibility_meaning : forall keep s r n, nocolon s = true -> nocolon r = true ->
  vis_mode (true, keep) (mname s r n) = existsb (String.eqb s) keep /\
  vis_mode (false, keep) (mname s r n) = (String.eqb r "None" || existsb (String.eqb s) keep || existsb (String.eqb r) keep)%bool.
Proof. intros keep s r n Hs Hr. split; [exact (visible_mname keep s r n Hs) | exact (visible_io_mname keep s r n Hs Hr)]. Qed.
Print Assumptions C19_visibility_meaning.

(* non-vacuity: <start> ::= <A:B:x> (<C:D:y> | <C:B:z> | <C:None:v>) <D:C:w>?  sliced to {A, B} without ignoring receivers:
   C:D:y and D:C:w go, C:B:z stays (B receives it), C:None:v stays (no recipient) *)
Example C19_slice_io_nonvacuous :
  islice 9 (vis_mode (false, ["A"; "B"])) [("<start>", Cat [Ref "A:B:<x>"; Alt [Ref "C:D:<y>"; Ref "C:B:<z>"; Ref "C:None:<v>"]; Rep (Ref "D:C:<w>") 0 (Some 1)])] (Ref "<start>")
  = Some (Some (RCat _ (RAtom _ "A:B:<x>") (RCat _ (RAlt _ (RAtom _ "C:B:<z>") (RAlt _ (RAtom _ "C:None:<v>") (REmp _))) (REps _)))).
Proof. vm_compute. reflexivity. Qed.

(* slicing composed with forecasting, both modes: after ANY history, every message offered by the forecast of the sliced protocol passes
   the mode's visibility test -- in the first mode its sender is kept, in the second it has no recipient or its sender or recipient is kept
   (C19_visibility_meaning).  No message of a party that was sliced away is ever offered. *)
Theorem C19_sliced_forecast_offers_only_visible : forall k rules fuel r m h a,
  islice fuel (vis_mode k) rules r = Some (Some m) -> In a (fst (forecast msg macc m h)) -> vis_mode k a = true.
Proof. intros k rules fuel r m h a. exact (sliced_forecast_visible (vis_mode k) rules fuel r m h a). Qed.
Print Assumptions C19_sliced_forecast_offers_only_visible.
