(* Property C19 -- statements only; proofs in Proofs/C19.v *)
From Coq Require Import List String.
From FV Require Import Base.Re Model.ForecastM Proofs.C19.
Import ListNotations.
Open Scope string_scope.

(* for every message-level expression r and every history h: the forecast offers exactly the messages that can follow h in some
   interaction of the language, and reports "complete" exactly when h is an interaction.  Bounded and unbounded repetitions,
   options, alternatives and nesting are all constructors of r. *)
Theorem C19_forecast_exact : forall (r : mre) (h : list msg),
  (forall a, In a (fst (forecast msg macc r h)) <-> exists w, lang msg msg macc r (h ++ a :: w)) /\
  (snd (forecast msg macc r h) = true <-> lang msg msg macc r h).
Proof. intros r h. apply forecast_exact. apply String.eqb_eq. Qed.
Print Assumptions C19_forecast_exact.

(* non-vacuity: <a> ::= <d>? <e>* <c>{1,2} (<g> | <i>)  (tests/resources/forecaster.fan), after "d c c" only g and i remain *)
Definition fc : mre :=
  RCat _ (RRep _ (RAtom _ "d") 0 (Some 1)) (RCat _ (RRep _ (RAtom _ "e") 0 None)
       (RCat _ (RRep _ (RAtom _ "c") 1 (Some 2)) (RAlt _ (RAtom _ "g") (RAtom _ "i")))).
Example C19_nonvacuous :
  (nodup string_dec (fst (forecast msg macc fc ["d"; "c"; "c"])), snd (forecast msg macc fc ["d"; "c"; "c"])) = (["g"; "i"], false)
  /\ forecast msg macc fc ["d"; "c"; "c"; "g"] = ([], true).
Proof. split; vm_compute; reflexivity. Qed.
