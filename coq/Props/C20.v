(* Property C20 -- statements only; proofs in Proofs/C20.v *)
From Coq Require Import List String NArith.
From FV Require Import Base.Re Model.ForecastM Model.ProtocolM Proofs.C20.
Import ListNotations.
Open Scope string_scope.
Open Scope list_scope.

(* the receive buffer: for every interleaving of arrivals (any senders, any fragmentation) and removals, what was removed for a sender so far,
   followed by what is still buffered for it, is exactly what it sent, in order -- nothing lost, duplicated or reordered *)
Theorem C20_buffer_exactly_once_in_order : forall p os,
  consumed_of p [] os ++ stream p (fold_left bstep os []) = added_of p os.
Proof. exact buffer_exactly_once_in_order. Qed.
Print Assumptions C20_buffer_exactly_once_in_order.

(* ... and what a sender's stream is does not depend on the other senders' operations *)
Theorem C20_other_senders_irrelevant : forall p os, added_of p (about p os) = added_of p os.
Proof. exact added_only_own. Qed.
Print Assumptions C20_other_senders_irrelevant.

(* the monitor applied to recorded runs: it accepts a message sequence exactly when it is a prefix of an interaction of the spec's
   message-level language (a whole interaction if the run claims completeness); accepted runs were valid at every earlier step too *)
Theorem C20_monitor_exact : forall r h c, run_valid r h c = true <->
  (exists w, lang msg msg macc r (h ++ w)) /\ (c = true -> lang msg msg macc r h).
Proof. exact run_valid_spec. Qed.
Print Assumptions C20_monitor_exact.

Theorem C20_valid_at_every_step : forall r h h' c, run_valid r (h ++ h') c = true -> run_valid r h false = true.
Proof. exact run_valid_prefix_closed. Qed.
Print Assumptions C20_valid_at_every_step.

Example C20_nonvacuous :
  let os := [BAdd "E" "F" [1%N; 2%N]; BAdd "T" "F" [9%N]; BAdd "E" "F" [3%N]; BClear "E" 1; BAdd "E" "F" [4%N]] in
  (consumed_of "E" [] os, stream "E" (fold_left bstep os [])) = ([1%N; 2%N], [3%N; 4%N]).
Proof. vm_compute. reflexivity. Qed.

(* the choice of the next remote message (model of the race in parse_next_remote_packet): the accepted message is a complete parse of exactly k
   of the sender's units by a forecast type that could still continue, and no forecast type has a longer one; nothing is accepted exactly when
   no type has one.  With C20_buffer_exactly_once_in_order: exactly the accepted text leaves the buffer. *)
From FV Require Import Proofs.C20Choose.
Theorem C20_choose_longest : forall complete alive cands n nt k, choose complete alive n cands = Some (nt, k) ->
  In nt cands /\ 1 <= k <= n /\ eligible complete alive nt k = true /\
  forall nt' k', In nt' cands -> 1 <= k' <= n -> eligible complete alive nt' k' = true -> k' <= k.
Proof. exact choose_longest. Qed.
Print Assumptions C20_choose_longest.

Theorem C20_choose_none : forall complete alive cands n, choose complete alive n cands = None ->
  forall nt k, In nt cands -> 1 <= k <= n -> eligible complete alive nt k = false.
Proof. exact choose_none. Qed.
Print Assumptions C20_choose_none.
