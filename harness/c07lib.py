"""C07/C02/C11 support: export of fandango constraint/search objects to the
constraint IR, an independent Python evaluation of selectors on path-addressed
trees (used only to enumerate the oracle questions), direct evaluation of the
Python expressions (the oracle), and Coq printers."""
import itertools

from common import coq_Z, coq_list, coq_nat, coq_opt, coq_string


class Unsupported(Exception):
    pass


# ------------------------------------------------------------------ export

def export_search(s):
    from fandango.language import search as S
    if isinstance(s, S.AnnotatedSearch):
        return export_search(s.inner)
    if isinstance(s, S.RuleSearch):
        return ("rule", s.symbol.name())
    if isinstance(s, S.AttributeSearch):
        return ("attr", export_search(s.base), export_search(s.attribute))
    if isinstance(s, S.DescendantAttributeSearch):
        return ("desc", export_search(s.base), export_search(s.attribute))
    if isinstance(s, S.ItemSearch):
        sl = s.slices
        if isinstance(sl, (list, tuple)):
            if len(sl) != 1:
                raise Unsupported("multi-index item search")
            sl = sl[0]
        if isinstance(sl, slice):
            if sl.step not in (None, 1):
                raise Unsupported("slice step")
            for v in (sl.start, sl.stop):
                if v is not None and not isinstance(v, int):
                    raise Unsupported("slice bound")
            return ("item", export_search(s.base), ("slice", sl.start, sl.stop))
        if isinstance(sl, int) and not isinstance(sl, bool):
            return ("item", export_search(s.base), ("at", sl))
        raise Unsupported(f"index {sl!r}")
    if isinstance(s, S.StarSearch):
        return ("star", export_search(s.base))
    if isinstance(s, S.LengthSearch):
        return ("len", export_search(s.value))
    raise Unsupported(type(s).__name__)


class ConstraintExport:
    def __init__(self):
        self.atoms = []   # id -> constraint object (Expression/Comparison)

    def export(self, c):
        from fandango.constraints.expression import ExpressionConstraint
        from fandango.constraints.comparison import ComparisonConstraint
        from fandango.constraints.conjunction import ConjunctionConstraint
        from fandango.constraints.disjunct import DisjunctionConstraint
        from fandango.constraints.implication import ImplicationConstraint
        from fandango.constraints.forall import ForallConstraint
        from fandango.constraints.exists import ExistsConstraint
        from fandango.language.symbols.non_terminal import NonTerminal
        if isinstance(c, ExpressionConstraint):
            self.atoms.append(c)
            return ("expr", len(self.atoms) - 1, [(n, export_search(s)) for n, s in c.searches.items()])
        if isinstance(c, ComparisonConstraint):
            self.atoms.append(c)
            return ("cmp", len(self.atoms) - 1, [(n, export_search(s)) for n, s in c.searches.items()])
        if isinstance(c, ConjunctionConstraint):
            return ("and", [self.export(x) for x in c.constraints])
        if isinstance(c, DisjunctionConstraint):
            return ("or", [self.export(x) for x in c.constraints])
        if isinstance(c, ImplicationConstraint):
            return ("imp", self.export(c.antecedent), self.export(c.consequent))
        if isinstance(c, (ForallConstraint, ExistsConstraint)):
            b = ("nt", c.bound.name()) if isinstance(c.bound, NonTerminal) else ("var", str(c.bound))
            return ("all" if isinstance(c, ForallConstraint) else "any", b, export_search(c.search), self.export(c.statement))
        raise Unsupported(type(c).__name__)


# ------------------------------------------------------------------ selectors on path-addressed trees

class IndexErr(Exception):
    pass


class PT:
    """a real DerivationTree addressed by child-index paths"""

    def __init__(self, root):
        self.root = root

    def node(self, p):
        t = self.root
        for i in p:
            t = t.children[i]
        return t

    def label(self, p):
        t = self.node(p)
        return t.symbol.name() if t.symbol.is_non_terminal else None

    def kids(self, ref):
        if ref[0] == "p":
            return [ref[1] + (i,) for i in range(len(self.node(ref[1]).children))]
        return list(ref[1])

    def node_paths(self, p):
        """inner nodes below and including p, children before parents"""
        t = self.node(p)
        if not t.symbol.is_non_terminal:
            return []
        out = []
        for i in range(len(t.children)):
            out.extend(self.node_paths(p + (i,)))
        out.append(p)
        return out

    def occ(self, ref, nt, proper):
        if ref[0] == "p" and not proper:
            return [q for q in self.node_paths(ref[1]) if self.label(q) == nt]
        out = []
        for k in self.kids(ref):
            out.extend(q for q in self.node_paths(k) if self.label(q) == nt)
        return out

    def direct(self, ref, nt):
        return [k for k in self.kids(ref) if self.label(k) == nt]

    def getitem(self, ref, ix):
        ks = self.kids(ref)
        if ix[0] == "at":
            try:
                return ("p", ks[ix[1]])
            except IndexError:
                raise IndexErr()
        return ("s", tuple(ks[slice(ix[1], ix[2])]))

    def value(self, cont):
        from fandango.language.tree import SliceTree
        def rv(ref):
            if ref[0] == "p":
                return self.node(ref[1])
            return SliceTree([self.node(q) for q in ref[1]])
        k, x = cont
        if k == "tree":
            return rv(x)
        if k == "list":
            return [rv(r) for r in x]
        return len(x)


def trees_of(cont):
    return [cont[1]] if cont[0] == "tree" else list(cont[1])


def find(pt, s, mode, cur, scope, doc):
    """mode in top/direct/under.  doc=True: documented meaning (proper descendants for `..`);
    doc=False: inclusive reading."""
    k = s[0]
    if k == "rule":
        if s[1] in scope:
            return [("tree", scope[s[1]])]
        if mode == "direct":
            ps = pt.direct(cur, s[1])
        elif mode == "top" or not doc:
            ps = pt.occ(cur, s[1], proper=False)
        else:
            ps = pt.occ(cur, s[1], proper=True)
        return [("tree", ("p", p)) for p in ps]
    if k in ("attr", "desc"):
        out = []
        for c in find(pt, s[1], mode, cur, scope, doc):
            for t in trees_of(c):
                out.extend(find(pt, s[2], "direct" if k == "attr" else "under", t, scope, doc))
        return out
    if k == "item":
        return [("tree", pt.getitem(t, s[2])) for c in find(pt, s[1], mode, cur, scope, doc) for t in trees_of(c)]
    if k == "star":
        return [("list", tuple(t for c in find(pt, s[1], mode, cur, scope, doc) for t in trees_of(c)))]
    if k == "len":
        return [("len", tuple(t for c in find(pt, s[1], mode, cur, scope, doc) for t in trees_of(c)))]
    raise Unsupported(k)


def quantify(pt, s, scope, doc):
    if s[0] == "star":
        return [("tree", t) for c in find(pt, s[1], "top", ("p", ()), scope, doc) for t in trees_of(c)]
    return find(pt, s, "top", ("p", ()), scope, doc)


# ------------------------------------------------------------------ oracle

def eval_atom(pt, atom, combo, env):
    """direct evaluation of the Python expression(s) of an atomic constraint"""
    from fandango.constraints.comparison import ComparisonConstraint
    lv = dict(atom.local_variables)
    for name, cont in env:
        lv[name] = pt.value(cont)
    for name, cont in combo:
        lv[name] = pt.value(cont)
    if isinstance(atom, ComparisonConstraint):
        try:
            left = eval(atom._left, atom.global_variables, dict(lv))
            right = eval(atom._right, atom.global_variables, dict(lv))
        except Exception:
            return "ORaise"
        op = atom._operator.value
        try:
            r = {"==": lambda a, b: a == b, "!=": lambda a, b: a != b, ">": lambda a, b: a > b,
                 ">=": lambda a, b: a >= b, "<": lambda a, b: a < b, "<=": lambda a, b: a <= b}[op](left, right)
            return "OTrue" if bool(r) else "OFalse"
        except Exception:
            return "OCmpRaise"
    try:
        return "OTrue" if eval(atom.expression, atom.global_variables, lv) else "OFalse"
    except Exception:
        return "ORaise"


def collect(pt, atoms, c, scope, env, doc, table):
    """walk the constraint the way the reference semantics does and record every
    oracle question with its direct answer"""
    k = c[0]
    if k in ("expr", "cmp"):
        try:
            lists = [[(n, ct) for ct in find(pt, s, "top", ("p", ()), scope, doc)] for n, s in c[2]]
        except IndexErr:
            return
        for combo in itertools.product(*lists):
            key = (c[1], tuple(combo), tuple(env))
            if key not in table:
                table[key] = eval_atom(pt, atoms[c[1]], combo, env)
        return
    if k in ("and", "or"):
        for x in c[1]:
            collect(pt, atoms, x, scope, env, doc, table)
        return
    if k == "imp":
        collect(pt, atoms, c[1], scope, env, doc, table)
        collect(pt, atoms, c[2], scope, env, doc, table)
        return
    if k in ("all", "any"):
        try:
            conts = quantify(pt, c[2], scope, doc)
        except IndexErr:
            return
        for ct in conts:
            sc2, env2 = dict(scope), list(env)
            if c[1][0] == "nt":
                if ct[0] == "tree":
                    sc2[c[1][1]] = ct[1]
            else:
                env2 = [(c[1][1], ct)] + [(n, v) for n, v in env2 if n != c[1][1]]
            collect(pt, atoms, c[3], sc2, env2, doc, table)
        return
    raise Unsupported(k)


# ------------------------------------------------------------------ Coq printers

def coq_path(p):
    return coq_list([coq_nat(i) for i in p])


def coq_ref(r):
    return f"(RPath {coq_path(r[1])})" if r[0] == "p" else f"(RSlice {coq_list([coq_path(q) for q in r[1]])})"


def coq_cont(c):
    if c[0] == "tree":
        return f"(CTree {coq_ref(c[1])})"
    return f"({'CList' if c[0] == 'list' else 'CLen'} {coq_list([coq_ref(r) for r in c[1]])})"


def coq_search(s):
    k = s[0]
    if k == "rule":
        return f"(SRule {coq_string(s[1])})"
    if k == "attr":
        return f"(SAttr {coq_search(s[1])} {coq_search(s[2])})"
    if k == "desc":
        return f"(SDesc {coq_search(s[1])} {coq_search(s[2])})"
    if k == "item":
        ix = s[2]
        if ix[0] == "at":
            return f"(SItem {coq_search(s[1])} (IAt {coq_Z(ix[1])}))"
        return f"(SItem {coq_search(s[1])} (ISlice {coq_opt(None if ix[1] is None else coq_Z(ix[1]))} {coq_opt(None if ix[2] is None else coq_Z(ix[2]))}))"
    if k == "star":
        return f"(SStar {coq_search(s[1])})"
    if k == "len":
        return f"(SLen {coq_search(s[1])})"
    raise Unsupported(k)


def coq_bindings(bs):
    return coq_list([f"({coq_string(n)}, {coq_cont(c)})" for n, c in bs])


def coq_constr(c):
    k = c[0]
    if k in ("expr", "cmp"):
        ss = coq_list([f"({coq_string(n)}, {coq_search(s)})" for n, s in c[2]])
        return f"({'KExpr' if k == 'expr' else 'KCmp'} {coq_nat(c[1])} {ss})"
    if k in ("and", "or"):
        return f"({'KAnd' if k == 'and' else 'KOr'} {coq_list([coq_constr(x) for x in c[1]])})"
    if k == "imp":
        return f"(KImp {coq_constr(c[1])} {coq_constr(c[2])})"
    b = f"(BNt {coq_string(c[1][1])})" if c[1][0] == "nt" else f"(BVar {coq_string(c[1][1])})"
    return f"({'KAll' if k == 'all' else 'KAny'} {b} {coq_search(c[2])} {coq_constr(c[3])})"


def coq_oracle(table):
    return coq_list([f"({coq_nat(i)}, {coq_bindings(cb)}, {coq_bindings(env)}, {v})" for (i, cb, env), v in table.items()])


def impl_containers(conts):
    """fandango Container objects -> python conts addressed by paths (needs the root)"""
    raise NotImplementedError
