"""./check Cxx [--tier quick|thorough] [--replay file]   (DESIGN.md 1.5)"""
import argparse
import importlib
import json
import os
import sys
import traceback

import common
from common import Broken, Result


def main():
    ap = argparse.ArgumentParser()
    ap.add_argument("pid")
    ap.add_argument("--tier", default=os.environ.get("VERIF_TIER", "quick"))
    ap.add_argument("--replay")
    a = ap.parse_args()
    tier = a.tier if a.tier in ("quick", "thorough") else "quick"
    seed = int(os.environ.get("VERIF_SEED", "0") or 0)
    common.limit_memory(12)
    mod = importlib.import_module("props." + a.pid.lower())
    res = Result(a.pid, tier, seed)
    if a.replay:
        rp = json.load(open(a.replay))
        print(f"# replaying: {rp.get('what')}")
        rc = mod.replay(res, rp)
        if getattr(mod, "REPLAY_IS_EXACT", False):
            sys.exit(rc)
        # generators are deterministic in (property, tier, seed): re-run the check as it ran when the file was written
        import re as _re
        m = _re.search(r"_(quick|thorough)_(\d+)_\d+\.json$", a.replay)
        tier = rp.get("tier") or (m.group(1) if m else tier)
        seed = int(rp.get("seed") if rp.get("seed") is not None else (m.group(2) if m else seed))
        print(f"# re-running ./check {a.pid} --tier {tier} with VERIF_SEED={seed}")
        res = Result(a.pid, tier, seed)
    broken = None
    hits = common.scan_forbidden()
    if hits:
        broken = Broken("forbidden construct in the development", "\n".join(hits))
    # 1+2: tie by translation, proof obligations
    try:
        mod.obligations(res)
    except Broken as b:
        broken = broken or b
        print(f"# broken obligation: {b.what}\n{b.detail[-2500:]}")
    except Exception as e:  # a crash of the machinery is reported as a broken check
        broken = broken or Broken(f"obligation stage crashed: {e!r}", traceback.format_exc())
        print(traceback.format_exc())
    # 3: correspondence + property judged on implementation outputs
    try:
        mod.correspondence(res)
    except Broken as b:
        broken = broken or b
        print(f"# broken correspondence: {b.what}\n{b.detail[-2500:]}")
    except Exception as e:
        broken = broken or Broken(f"correspondence stage crashed: {e!r}", traceback.format_exc())
        print(traceback.format_exc())
    # 4: failing-input search when something no longer checks
    if broken and not res.violations:
        try:
            mod.search(res)
        except Exception as e:
            print(f"# search crashed: {e!r}")
            print(traceback.format_exc())
        if not res.violations:
            res.violation(f"no longer checks: {broken.what}",
                          {"broken": broken.what, "detail": broken.detail[-4000:]}, no_input=True)
    if broken:
        res.coverage["discharged"] = min(res.coverage["discharged"], max(0, res.coverage["obligations"] - 1))
    sys.exit(res.finish())


if __name__ == "__main__":
    main()
