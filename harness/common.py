"""Shared machinery of the check driver: Coq build, Print Assumptions parsing,
generated case files, known findings, evidence.  See DESIGN.md section 1."""
import fcntl
import hashlib
import json
import os
import re
import subprocess
import sys
import time
from concurrent.futures import ThreadPoolExecutor

ROOT = os.path.dirname(os.path.dirname(os.path.abspath(__file__)))
COQ = os.path.join(ROOT, "coq")
GEN = os.path.join(COQ, "gen")
REPO = os.environ.get("VERIF_REPO", "/repo")
SRC = os.path.join(REPO, "src/fandango")
NCPU = 16

# axioms the trusted base allows (DESIGN.md section 2); anything else fails a check
STDLIB_AXIOMS = {
    "ClassicalDedekindReals.sig_not_dec",
    "ClassicalDedekindReals.sig_forall_dec",
    "FunctionalExtensionality.functional_extensionality_dep",
    "Classical_Prop.classic",
}
PRIM_PREFIXES = ("PrimFloat.", "FloatAxioms.", "Uint63.", "PrimInt63.", "FloatOps.",
                 "Uint63Axioms.", "FloatClass.", "Sint63.")

FORBIDDEN = re.compile(
    r"\b(Admitted|admit|Axiom|Axioms|Parameter|Parameters|Conjecture|Hypothesis|Variable|Variables|Hypotheses)\b"
    r"|Unset\s+Guard|bypass_check|type-in-type|impredicative-set|Admit\s+Obligations|native_compute")


class Broken(Exception):
    """A proof obligation or a tie no longer checks."""

    def __init__(self, what, detail=""):
        super().__init__(what)
        self.what = what
        self.detail = detail


def sh(cmd, timeout=600, cwd=None, env=None, input=None):
    p = subprocess.run(cmd, shell=isinstance(cmd, str), cwd=cwd, env=env, input=input,
                       stdout=subprocess.PIPE, stderr=subprocess.STDOUT, text=True,
                       timeout=timeout)
    return p.returncode, p.stdout


class Lock:
    def __enter__(self):
        self.f = open(os.path.join(ROOT, ".lock"), "w")
        fcntl.flock(self.f, fcntl.LOCK_EX)
        return self

    def __exit__(self, *a):
        fcntl.flock(self.f, fcntl.LOCK_UN)
        self.f.close()


def write_if_changed(path, text):
    os.makedirs(os.path.dirname(path), exist_ok=True)
    try:
        if open(path).read() == text:
            return False
    except FileNotFoundError:
        pass
    with open(path, "w") as f:
        f.write(text)
    return True


def coq_sources():
    out = []
    for d in ("Base", "Model", "Proofs", "Props"):
        p = os.path.join(COQ, d)
        for fn in sorted(os.listdir(p)):
            if fn.endswith(".v"):
                out.append(os.path.join(d, fn))
    return out


def scan_forbidden():
    """grep the committed development (not generated case files) for escape hatches."""
    hits = []
    for rel in coq_sources() + [os.path.join("gen", f) for f in sorted(os.listdir(GEN))
                                if f.endswith(".v") and not f.startswith("cases_")]:
        txt = open(os.path.join(COQ, rel)).read()
        txt = re.sub(r"\(\*.*?\*\)", "", txt, flags=re.S)
        in_section = 0
        for i, line in enumerate(txt.split("\n"), 1):
            if re.match(r"\s*Section\b", line):
                in_section += 1
            if re.match(r"\s*End\b", line) and in_section:
                in_section -= 1
            m = FORBIDDEN.search(line)
            if m:
                if m.group(0) in ("Variable", "Variables", "Hypothesis", "Hypotheses") and in_section:
                    continue
                hits.append(f"{rel}:{i}: {line.strip()}")
    return hits


def make(targets=None, timeout=1500):
    """full .vo build of the development (never -vos)."""
    with Lock():
        proj = os.path.join(COQ, "_CoqProject")
        mk = os.path.join(COQ, "Makefile.coq")
        if (not os.path.exists(mk)) or os.path.getmtime(mk) < os.path.getmtime(proj):
            rc, out = sh("coq_makefile -f _CoqProject -o Makefile.coq", cwd=COQ, timeout=60)
            if rc != 0:
                raise Broken("coq_makefile", out)
        tg = " ".join(targets) if targets else ""
        rc, out = sh(f"timeout {timeout} make -f Makefile.coq -j{NCPU} {tg}", cwd=COQ,
                     timeout=timeout + 30)
        return rc, out


def vo(rel):
    return rel[:-2] + ".vo" if rel.endswith(".v") else rel + ".vo"


COQ_FLAGS = "-R . FV"


def coqc(rel, timeout=600):
    rc, out = sh(f"timeout {timeout} coqc {COQ_FLAGS} {rel}", cwd=COQ, timeout=timeout + 30)
    return rc, out


def parse_assumptions(out):
    """Parse the output of `Print Assumptions` commands: returns list of axiom sets
    in order of appearance (one per command)."""
    res = []
    cur = None
    for line in out.split("\n"):
        if line.startswith("Closed under the global context"):
            res.append(set())
            cur = None
        elif line.startswith("Axioms:"):
            cur = set()
            res.append(cur)
        elif cur is not None:
            m = re.match(r"^([A-Za-z_][\w.']*)\s*:", line)
            if m:
                cur.add(m.group(1))
            elif line.strip() == "" :
                pass
    return res


def check_props(pid, extra_allowed=()):
    """Recompile Props/<pid>.v (it only contains `exact lemma` theorems and Print
    Assumptions) and validate the axioms.  Returns (n_theorems, sorted axioms)."""
    rel = f"Props/{pid}.v"
    src = open(os.path.join(COQ, rel)).read()
    nthm = len(re.findall(r"^\s*(Theorem|Lemma|Example|Corollary)\b", src, flags=re.M))
    nprint = len(re.findall(r"^\s*Print Assumptions\b", src, flags=re.M))
    rc, out = coqc(rel)
    if rc != 0:
        raise Broken(f"coqc {rel} failed", out[-3000:])
    sets = parse_assumptions(out)
    if len(sets) != nprint or nprint == 0:
        raise Broken(f"{rel}: expected {nprint} Print Assumptions answers, got {len(sets)}", out[-2000:])
    allax = set().union(*sets) if sets else set()
    bad = [a for a in allax if a not in STDLIB_AXIOMS and a not in extra_allowed
           and not a.startswith(PRIM_PREFIXES)]
    if bad:
        raise Broken(f"{rel}: axioms outside the trusted base: {sorted(bad)}")
    return nthm, sorted(allax)


def count_obligations(files):
    n = 0
    for rel in files:
        try:
            src = open(os.path.join(COQ, rel)).read()
        except FileNotFoundError:
            continue
        src = re.sub(r"\(\*.*?\*\)", "", src, flags=re.S)
        n += len(re.findall(r"^\s*(?:Local\s+|Global\s+)?(Theorem|Lemma|Example|Corollary|Fact|Proposition|Remark)\b", src, flags=re.M))
    return n


# ---------------------------------------------------------------- case files

def _run_one(args):
    name, text, timeout = args
    path = os.path.join(GEN, name + ".v")
    with open(path, "w") as f:
        f.write(text)
    rc, out = sh(f"ulimit -s unlimited; timeout {timeout} coqc {COQ_FLAGS} gen/{name}.v", cwd=COQ,
                 timeout=timeout + 30)
    for ext in (".vo", ".vok", ".vos", ".glob"):
        try:
            os.remove(os.path.join(GEN, name + ext))
        except FileNotFoundError:
            pass
    try:
        os.remove(os.path.join(GEN, "." + name + ".aux"))
    except FileNotFoundError:
        pass
    return rc, out


def run_case_codes(pid, tag, header, case_terms, evaluator, chunk=300, timeout=900, keep=False, ctype=None):
    """case_terms: list of Coq terms (strings) of one type; evaluator: Coq function
    name of type  case -> nat.  Returns the list of codes (None if the file failed)."""
    os.makedirs(GEN, exist_ok=True)
    if not case_terms:
        return []
    jobs = []
    chunks = [case_terms[i:i + chunk] for i in range(0, len(case_terms), chunk)]
    for ci, ch in enumerate(chunks):
        body = [header, ""]
        body.append(f"Definition cases : list {ctype} := [" if ctype else "Definition cases := [")
        body.append(";\n".join("  " + c for c in ch))
        body.append("].")
        body.append(f"Definition results : list nat := List.map {evaluator} cases.")
        body.append("Eval vm_compute in results.")
        jobs.append((f"cases_{pid}_{tag}_{ci}", "\n".join(body) + "\n", timeout))
    results = []
    with ThreadPoolExecutor(max_workers=NCPU) as ex:
        outs = list(ex.map(_run_one, jobs))
    for (rc, out), ch, job in zip(outs, chunks, jobs):
        if rc != 0:
            sys.stderr.write(f"[cases] {job[0]} failed rc={rc}:\n{out[-1500:]}\n")
            print(f"# case file {job[0]} failed (rc={rc}): {out[-400:]}")
            results.extend([None] * len(ch))
            keep = True
            continue
        m = re.search(r"=\s*\[(.*?)\]\s*:\s*list nat", out, flags=re.S)
        if not m:
            results.extend([None] * len(ch))
            continue
        vals = [v.strip().replace("%nat", "") for v in m.group(1).split(";") if v.strip()]
        if len(vals) != len(ch):
            results.extend([None] * len(ch))
            continue
        results.extend([int(v) for v in vals])
    if not keep:
        for job in jobs:
            try:
                os.remove(os.path.join(GEN, job[0] + ".v"))
            except FileNotFoundError:
                pass
    return results


def run_case_files(pid, tag, header, case_terms, evaluator, chunk=300, timeout=900, keep=False):
    """evaluator : case -> bool.  Returns list of True/False (None if the file failed)."""
    codes = run_case_codes(pid, tag, header, case_terms, f"(fun c => if {evaluator} c then 1%nat else 0%nat)",
                           chunk=chunk, timeout=timeout, keep=keep)
    return [None if v is None else (v == 1) for v in codes]


def eval_terms(pid, tag, header, exprs, timeout=600):
    """Evaluate a list of Coq expressions; returns the raw printed value strings."""
    os.makedirs(GEN, exist_ok=True)
    body = [header, ""]
    for e in exprs:
        body.append(f"Eval vm_compute in ({e}).")
    rc, out = _run_one((f"cases_{pid}_{tag}", "\n".join(body) + "\n", timeout))
    try:
        os.remove(os.path.join(GEN, f"cases_{pid}_{tag}.v"))
    except FileNotFoundError:
        pass
    if rc != 0:
        raise Broken(f"evaluation file {tag} failed", out[-2000:])
    vals = re.findall(r"^\s*=\s*(.*?)\n\s*:\s", out, flags=re.S | re.M)
    return [re.sub(r"\s+", " ", v).strip() for v in vals]


# ---------------------------------------------------------------- Coq term printers

def coq_string(s):
    assert all(32 <= ord(c) < 127 for c in s), s
    return '"' + s.replace('"', '""') + '"'


def coq_list(items):
    return "[" + "; ".join(items) + "]"


def coq_N(n):
    return f"{int(n)}%N"


def coq_Z(n):
    n = int(n)
    return f"({n})%Z" if n < 0 else f"{n}%Z"


def coq_nat(n):
    assert 0 <= n < 5000
    return f"{int(n)}%nat"


def coq_bool(b):
    return "true" if b else "false"


def coq_opt(x):
    return "None" if x is None else f"(Some {x})"


def coq_cps(s):
    """Python str -> list N of code points"""
    return coq_list([coq_N(ord(c)) for c in s])


def coq_bytes(b):
    return coq_list([coq_N(x) for x in b])


# ---------------------------------------------------------------- known findings

def load_known(pid):
    known, fixed = [], []
    path = os.path.join(ROOT, "known_findings.jsonl")
    if os.path.exists(path):
        for line in open(path):
            line = line.strip()
            if not line or line.startswith("#"):
                continue
            e = json.loads(line)
            if e.get("property") != pid:
                continue
            (fixed if e.get("status") == "fixed" else known).append(e)
    return known, fixed


# ---------------------------------------------------------------- result object

class Result:
    def __init__(self, pid, tier, seed):
        self.pid, self.tier, self.seed = pid, tier, seed
        self.t0 = time.time()
        self.violations = []      # (description, replay dict)
        self.known_hits = []      # strings
        self.coverage = {"evaluations": 0, "distinct_nontrivial": 0, "rule": "", "samples": [],
                         "obligations": 0, "discharged": 0, "checker_cmd": "", "trusted_base": [],
                         "traces_validated_against_impl": 0}
        self.assumptions = []
        self._distinct = set()
        self.hist = {}

    def count(self, case_key, nontrivial=True):
        self.coverage["evaluations"] += 1
        if nontrivial:
            h = hashlib.sha1(repr(case_key).encode()).hexdigest()
            if h not in self._distinct:
                self._distinct.add(h)
                self.coverage["distinct_nontrivial"] = len(self._distinct)

    def bump(self, key, n=1):
        self.hist[key] = self.hist.get(key, 0) + n

    def sample(self, s, cap=6):
        if len(self.coverage["samples"]) < cap:
            self.coverage["samples"].append(s)

    def violation(self, desc, replay, no_input=False):
        self.violations.append((desc, replay, no_input))

    def known(self, text):
        if text not in self.known_hits:
            self.known_hits.append(text)

    def finish(self):
        os.makedirs(os.path.join(ROOT, "evidence"), exist_ok=True)
        os.makedirs(os.path.join(ROOT, "replays"), exist_ok=True)
        self.coverage["histogram"] = self.hist
        for k in self.known_hits:
            print(f"KNOWN-FINDING: property={self.pid} {k}")
        rc = 0
        for i, (desc, replay, no_input) in enumerate(self.violations):
            path = os.path.join(ROOT, "replays", f"{self.pid}_{self.tier}_{self.seed}_{i}.json")
            with open(path, "w") as f:
                json.dump({"property": self.pid, "what": desc, "replay": replay, "tier": self.tier, "seed": self.seed,
                           "no_failing_input_found": no_input}, f, indent=1, default=str)
            tail = " no-failing-input-found" if no_input else ""
            print(f"# {desc}")
            print(f"VIOLATION property={self.pid} replay={path}{tail}")
            rc = 1
        ev = {"property_id": self.pid, "tier": self.tier, "seed": self.seed, "level": "proof",
              "coverage": self.coverage, "assumptions": self.assumptions,
              "wall_s": round(time.time() - self.t0, 2), "violations": len(self.violations),
              "known_findings_reported": self.known_hits}
        with open(os.path.join(ROOT, "evidence", f"{self.pid}.json"), "w") as f:
            json.dump(ev, f, indent=1, default=str)
        return rc


# ---------------------------------------------------------------- guards for implementation runs
class ImplTimeout(BaseException):      # not an Exception: fandango swallows those in places
    pass


def guarded(fn, seconds=20):
    """run fn() but give up after `seconds` (never a verdict: the caller counts it as skipped)"""
    import signal

    def handler(signum, frame):
        raise ImplTimeout()
    old = signal.signal(signal.SIGALRM, handler)
    signal.setitimer(signal.ITIMER_REAL, seconds)
    try:
        return fn()
    finally:
        signal.setitimer(signal.ITIMER_REAL, 0)
        signal.signal(signal.SIGALRM, old)


def limit_memory(gb=10):
    import resource
    try:
        resource.setrlimit(resource.RLIMIT_AS, (gb << 30, gb << 30))
    except Exception:
        pass
