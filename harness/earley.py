"""Shared by C04/C05/C06/C12/C13: export of the implementation's compiled parser rules and
of inputs, for the chart model (coq/Model/EarleyM.v)."""
import re as pyre

import export
from common import coq_N, coq_bool, coq_list, coq_nat, coq_string


class Unsupported(Exception):
    pass


def iter_parser(grammar):
    return grammar._parser._iter_parser


class RulesExport:
    def __init__(self, grammar, start="<start>"):
        from fandango.language.symbols.non_terminal import NonTerminal
        self.ip = iter_parser(grammar)
        if self.ip._context_rules:
            pass  # context rules (computed repetitions) are outside the model; reachable ones raise below
        self.regexes = []        # Terminal objects (regex)
        self.start = start
        rules, implicit = self.ip._rules, self.ip._implicit_rules
        # reachable closure from the start symbol
        seen, todo = [], [NonTerminal(start)]
        while todo:
            nt = todo.pop()
            if nt in seen:
                continue
            seen.append(nt)
            if nt in self.ip._context_rules:
                raise Unsupported("context rule (computed repetition)")
            alts = rules.get(nt) if nt in rules else implicit.get(nt)
            if alts is None:
                raise Unsupported(f"no rule for {nt}")
            for alt in alts:
                for sym, params in alt:
                    if sym.is_non_terminal and sym not in seen:
                        todo.append(sym)
        self.reach = set(seen)
        out = []
        for table, named in ((rules, True), (implicit, False)):
            for nt, alts in table.items():
                if nt not in self.reach:
                    continue
                alts_t = coq_list([coq_list([self.sym(s) for s, _ in alt]) for alt in alts])
                out.append(f"({coq_string(export.nt_name(nt))}, ({coq_bool(named)}, {alts_t}))")
        self.term = coq_list(out)
        self.n_rules = len(out)

    def sym(self, s):
        if s.is_non_terminal:
            return f"(SN {coq_string(export.nt_name(s))})"
        tv = s.value()
        if s.is_regex:
            if s not in self.regexes:
                self.regexes.append(s)
            return f"(ST (TRe {coq_N(self.regexes.index(s))}))"
        v, bits = tv._value, tv._trailing_bits
        if v is None and len(bits) == 1:
            return f"(ST (TBit {coq_bool(bits[0])}))"
        if bits:
            raise Unsupported("terminal with trailing bits")
        return f"(ST (TLit {export.payload_of_value(v)}))"

    def input_term(self, word):
        """word: str | bytes.  re_at: what re.match(...).group(0) gives at every unit position"""
        units = [ord(c) for c in word] if isinstance(word, str) else list(word)
        tab = []
        for i, t in enumerate(self.regexes):
            pat = t.value()._value
            for w in range(len(word) + 1):
                rest = word[w:]
                # Terminal.check: a bytes regex is applied to bytes input as bytes; otherwise both sides as str (latin-1)
                if isinstance(pat, bytes) and isinstance(rest, bytes):
                    m = pyre.match(pat, rest)
                else:
                    p = pat.decode("latin-1") if isinstance(pat, bytes) else pat
                    r = rest.decode("latin-1") if isinstance(rest, bytes) else rest
                    m = pyre.match(p, r)
                if m:
                    tab.append(f"({coq_N(i)}, {coq_nat(w)}, {coq_nat(len(m.group(0)))})")
        return ("{| units := " + coq_list([coq_N(u) for u in units]) + "; is_bytes := " + coq_bool(isinstance(word, bytes))
                + "; re_at := " + coq_list(tab) + " |}")


def forest(grammar, word, start="<start>"):
    """the implementation's complete-mode forest (collapsed trees)"""
    return list(grammar.parse_forest(word, start))


# ------------------------------------------------------------------ static grammar facts (for generators / finding signatures)

def nullable_map(grammar, regex_nullable=False):
    """which nonterminals / nodes of a Grammar can derive the empty string (fixpoint)"""
    from fandango.language.grammar.nodes.alternative import Alternative
    from fandango.language.grammar.nodes.concatenation import Concatenation
    from fandango.language.grammar.nodes.repetition import Repetition
    from fandango.language.grammar.nodes.non_terminal import NonTerminalNode
    from fandango.language.grammar.nodes.terminal import TerminalNode
    nul = {nt: False for nt in grammar.rules}

    def node_nullable(n):
        if isinstance(n, Alternative):
            return any(node_nullable(a) for a in n.alternatives)
        if isinstance(n, Concatenation):
            return all(node_nullable(a) for a in n.nodes)
        if isinstance(n, Repetition):
            return n.min == 0 or node_nullable(n.node)
        if isinstance(n, NonTerminalNode):
            return nul.get(n.symbol, False)
        if isinstance(n, TerminalNode):
            s = n.symbol
            v = s.value()._value
            if s.is_regex:
                # for the parser a regex terminal never derives the empty string: scan_regex treats a zero-length match as no match
                if not regex_nullable:
                    return False
                try:
                    return pyre.fullmatch(v, v[:0]) is not None
                except Exception:
                    return True
            return v is not None and len(v) == 0
        return True
    changed = True
    while changed:
        changed = False
        for nt, node in grammar.rules.items():
            if not nul[nt] and node_nullable(node):
                nul[nt] = True
                changed = True
    return nul, node_nullable


def nonterminating_signature(grammar, start="<start>"):
    """the recorded C06 finding: a * or + whose body can derive the empty string, or a
    nonterminal that can derive itself while everything around it derives the empty string (unit cycle),
    reachable from the start symbol"""
    from fandango.language.grammar.nodes.alternative import Alternative
    from fandango.language.grammar.nodes.concatenation import Concatenation
    from fandango.language.grammar.nodes.repetition import Repetition
    from fandango.language.grammar.nodes.non_terminal import NonTerminalNode
    from fandango.language.symbols.non_terminal import NonTerminal
    nul, node_nullable = nullable_map(grammar)
    # reachable nonterminals
    reach, todo = set(), [NonTerminal(start)]

    def refs(n, out):
        if isinstance(n, NonTerminalNode):
            out.append(n.symbol)
        for c in (n.children() if hasattr(n, "children") else []):
            refs(c, out)
    while todo:
        nt = todo.pop()
        if nt in reach or nt not in grammar.rules:
            continue
        reach.add(nt)
        out = []
        refs(grammar.rules[nt], out)
        todo.extend(out)

    from fandango.language.grammar.nodes.repetition import Star, Plus

    def has_nullable_rep(n):
        # only the true loops (X -> eps | body X) of * and + ; {n,m} and {n,} compile into finite chains
        if isinstance(n, (Star, Plus)) and node_nullable(n.node):
            return True
        return any(has_nullable_rep(c) for c in (n.children() if hasattr(n, "children") else []))

    # unit-reachability: A -> B when B occurs in A's body with everything else nullable
    def unit_targets(n):
        """nonterminals X such that n =>* X (alone)"""
        if isinstance(n, NonTerminalNode):
            return {n.symbol}
        if isinstance(n, Alternative):
            return set().union(*[unit_targets(a) for a in n.alternatives])
        if isinstance(n, Concatenation):
            out = set()
            for i, a in enumerate(n.nodes):
                if all(node_nullable(b) for j, b in enumerate(n.nodes) if j != i):
                    out |= unit_targets(a)
            return out
        if isinstance(n, Repetition):
            return unit_targets(n.node) if (n.internal_max is None or n.internal_max >= 1) else set()
        return set()
    unit = {nt: unit_targets(grammar.rules[nt]) for nt in reach}
    for nt in reach:
        seen, todo = set(), list(unit[nt])
        while todo:
            x = todo.pop()
            if x == nt:
                return "unit-cycle"
            if x in seen or x not in unit:
                continue
            seen.add(x)
            todo.extend(unit[x])
    for nt in reach:
        if has_nullable_rep(grammar.rules[nt]):
            return "nullable-repetition-body"
    return None


def left_recursive(grammar, start="<start>"):
    """is some nonterminal reachable from the start symbol left-recursive (A =>+ A ...), skipping empty-deriving prefixes?"""
    from fandango.language.grammar.nodes.alternative import Alternative
    from fandango.language.grammar.nodes.concatenation import Concatenation
    from fandango.language.grammar.nodes.repetition import Repetition
    from fandango.language.grammar.nodes.non_terminal import NonTerminalNode
    nul, node_nullable = nullable_map(grammar)

    def firsts(n):
        if isinstance(n, NonTerminalNode):
            return {n.symbol}
        if isinstance(n, Alternative):
            return set().union(*[firsts(a) for a in n.alternatives])
        if isinstance(n, Concatenation):
            out = set()
            for a in n.nodes:
                out |= firsts(a)
                if not node_nullable(a):
                    break
            return out
        if isinstance(n, Repetition):
            return firsts(n.node)
        return set()
    f = {nt: firsts(node) for nt, node in grammar.rules.items()}
    for nt in f:
        seen, todo = set(), list(f[nt])
        while todo:
            x = todo.pop()
            if x == nt:
                return True
            if x in seen or x not in f:
                continue
            seen.add(x)
            todo.extend(f[x])
    return False
