"""Read-only exporters: fandango objects -> Coq terms of the shared IR
(coq/Base/Grammar.v).  Fail closed on anything unknown.  DESIGN.md 1.2."""
import re as pyre

from common import coq_N, coq_bool, coq_list, coq_nat, coq_opt, coq_string


class ExportError(Exception):
    pass


def payload_of_value(v):
    """str|bytes -> Coq payload"""
    if isinstance(v, str):
        return "(PStr " + coq_list([coq_N(ord(c)) for c in v]) + ")"
    if isinstance(v, (bytes, bytearray)):
        return "(PBytes " + coq_list([coq_N(x) for x in v]) + ")"
    raise ExportError(f"payload {type(v)}")


def leaf_raw(tree):
    """terminal DerivationTree -> ('s', str) | ('b', bytes) | ('bit', 0/1)"""
    tv = tree.symbol.value()
    v, bits = tv._value, tv._trailing_bits
    if v is None:
        if len(bits) != 1:
            raise ExportError(f"terminal with {len(bits)} bits")
        return ("bit", int(bits[0]))
    if bits:
        raise ExportError("terminal with value and trailing bits")
    if isinstance(v, str):
        return ("s", v)
    if isinstance(v, bytes):
        return ("b", v)
    raise ExportError(f"terminal value {type(v)}")


def leaf_term(raw):
    k, v = raw
    if k == "bit":
        return f"(LBit {coq_bool(v)})"
    return f"(LPay {payload_of_value(v)})"


def nt_name(sym):
    n = sym.name() if hasattr(sym, "name") else str(sym)
    if not all(32 <= ord(c) < 127 for c in n):
        raise ExportError(f"non-ascii nonterminal {n!r}")
    return n


def export_tree(t):
    if t.symbol.is_terminal:
        return f"(Leaf {leaf_term(leaf_raw(t))})"
    return f"(Node {coq_string(nt_name(t.symbol))} {coq_list([export_tree(c) for c in t.children])})"


def tree_py(t):
    """python-side structural form (for hashing / samples)"""
    if t.symbol.is_terminal:
        return leaf_raw(t)
    return (nt_name(t.symbol), tuple(tree_py(c) for c in t.children))


def tree_leaves_raw(t, out=None):
    out = [] if out is None else out
    if t.symbol.is_terminal:
        out.append(leaf_raw(t))
    else:
        for c in t.children:
            tree_leaves_raw(c, out)
    return out


class GrammarExport:
    """Exports Grammar.rules; regex terminals get ids; `re_tab` is filled from the
    payloads the caller announces (each checked with Python's re.fullmatch)."""

    def __init__(self, grammar):
        from fandango.language.grammar.nodes.alternative import Alternative
        from fandango.language.grammar.nodes.concatenation import Concatenation
        from fandango.language.grammar.nodes.repetition import Repetition
        from fandango.language.grammar.nodes.non_terminal import NonTerminalNode
        from fandango.language.grammar.nodes.terminal import TerminalNode
        self.K = (Alternative, Concatenation, Repetition, NonTerminalNode, TerminalNode)
        self.grammar = grammar
        self.regexes = []      # (pattern(str|bytes))
        self.rules = []
        self.has_generators = bool(getattr(grammar, "generators", {}))
        for nt, node in grammar.rules.items():
            self.rules.append((nt_name(nt), self.node(node)))
        self.candidates = set()

    def regex_id(self, pat):
        if pat not in self.regexes:
            self.regexes.append(pat)
        return self.regexes.index(pat)

    def node(self, n):
        Alternative, Concatenation, Repetition, NonTerminalNode, TerminalNode = self.K
        if isinstance(n, Alternative):
            return "(Alt " + coq_list([self.node(a) for a in n.alternatives]) + ")"
        if isinstance(n, Concatenation):
            return "(Cat " + coq_list([self.node(a) for a in n.nodes]) + ")"
        if isinstance(n, Repetition):
            if n.bounds_constraint is not None:
                mn, mx = 0, None      # computed bound: judged by the repetition-bound constraint (C02)
            else:
                mn, mx = n.min, n.internal_max
            return f"(Rep {self.node(n.node)} {coq_nat(mn)} {coq_opt(None if mx is None else coq_nat(mx))})"
        if isinstance(n, NonTerminalNode):
            return f"(Ref {coq_string(nt_name(n.symbol))})"
        if isinstance(n, TerminalNode):
            s = n.symbol
            tv = s.value()
            if s.is_regex:
                pat = tv._value
                if tv._trailing_bits or not isinstance(pat, (str, bytes)):
                    raise ExportError("regex terminal shape")
                return f"(Tm (TRe {coq_N(self.regex_id(pat))}))"
            v, bits = tv._value, tv._trailing_bits
            if v is None and len(bits) == 1:
                return f"(Tm (TBit {coq_bool(bits[0])}))"
            if bits:
                raise ExportError("literal with trailing bits")
            return f"(Tm (TLit {payload_of_value(v)}))"
        raise ExportError(f"unknown node class {type(n).__name__}")

    def announce(self, raw_leaf):
        if raw_leaf[0] in ("s", "b"):
            self.candidates.add(raw_leaf)

    def announce_tree(self, t):
        for l in tree_leaves_raw(t):
            self.announce(l)

    def term(self):
        tab = []
        for i, pat in enumerate(self.regexes):
            ok = []
            for k, v in sorted(self.candidates, key=repr):
                if isinstance(pat, str) != isinstance(v, str):
                    # str and bytes are identified through Latin-1 (as Terminal.check does)
                    try:
                        vv = v.decode("latin-1") if isinstance(v, bytes) else v.encode("latin-1")
                    except Exception:
                        continue
                    if pyre.fullmatch(pat, vv):
                        ok.append(payload_of_value(v))
                    continue
                if pyre.fullmatch(pat, v):
                    ok.append(payload_of_value(v))
            tab.append(f"({coq_N(i)}, {coq_list(ok)})")
        rules = coq_list([f"({coq_string(n)}, {r})" for n, r in self.rules])
        return "{| rules := " + rules + "; re_tab := " + coq_list(tab) + " |}"
