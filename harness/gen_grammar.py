"""Random spec (.fan text) generator shared by several properties (DESIGN.md C01
'Generator').  Everything derives from the rng passed in."""
import random

LITS = ['"a.c"', '"[ab]"', '"a"', '"b"', '"c"', '"0"', '"1"', '"ab"', '""', '"x y"', '"\u00e9"', '"\'"', "'\"'", '"\\\\"']
BLITS = ['b"a"', 'b"b"', 'b"\\x00"', 'b"\\xff"', 'b"ab"', 'b"z"']


ASCII_ONLY = False      # set by callers that serialise to bytes: a non-ASCII str literal in a binary grammar is UTF-8 encoded


def lit(rng, kind):
    if kind == "bytes":
        return rng.choice(BLITS)
    return rng.choice([x for x in LITS if x.isascii()] if ASCII_ONLY else LITS)


REGEXES = ["a.c", "[ab]", "a*", "[0-9]+", "(a|b)c?", "x{1,3}", "[a-c][0-1]", "\\d"]


def body(rng, nts, depth, kinds, allow_ref=True):
    r = rng.random()
    if depth <= 0 or r < 0.25:
        k = rng.random()
        if allow_ref and k < 0.45:
            return rng.choice(nts)
        if k < 0.55 and "regex" in kinds:
            return 'r"' + rng.choice(REGEXES) + '"'
        if k < 0.65 and "bits" in kinds:
            return rng.choice(["0", "1"])
        if k < 0.75 and "bytes" in kinds:
            return lit(rng, "bytes")
        return lit(rng, "str")
    if r < 0.45:
        n = rng.randint(2, 3)
        return "(" + " | ".join(body(rng, nts, depth - 1, kinds, allow_ref) for _ in range(n)) + ")"
    if r < 0.7:
        n = rng.randint(2, 3)
        return " ".join(body(rng, nts, depth - 1, kinds, allow_ref) for _ in range(n))
    inner = body(rng, nts, depth - 1, kinds, allow_ref)
    if " " in inner or "|" in inner:
        inner = "(" + inner + ")"
    op = rng.choice(["*", "+", "?", "{2}", "{1,3}", "{0,2}", "{2,}", "{3}"])
    return inner + op


def gen_spec(rng, kinds=("str", "regex"), n_nt=None, depth=3):
    global ASCII_ONLY
    ASCII_ONLY = any(k in ("bytes", "bits") for k in kinds)
    """returns spec text; <start> first; every nonterminal has a terminating
    alternative so that prime() and fuzzing terminate."""
    n = n_nt or rng.randint(2, 6)
    nts = ["<start>"] + [f"<n{i}>" for i in range(1, n)]
    lines = []
    for i, nt in enumerate(nts):
        later = nts[i + 1:] or nts[-1:]
        alts = []
        for _ in range(rng.randint(1, 3)):
            alts.append(body(rng, nts, rng.randint(1, depth), kinds))
        # guaranteed finite alternative: only later nonterminals / terminals
        if i + 1 < len(nts):
            fin = body(rng, later, 1, kinds)
        else:
            fin = body(rng, nts, 0, kinds, allow_ref=False)
        alts.append(fin)
        rng.shuffle(alts)
        lines.append(f"{nt} ::= " + " | ".join(alts))
    return "\n".join(lines) + "\n"


NULLABLE_TEMPLATES = [
    '<start> ::= <ws> <ws> "!"\n<ws> ::= " "{0,2}\n',
    '<start> ::= <f>{2,3} "!"\n<f> ::= <c>{0,2}\n<c> ::= "x"\n',
    '<start> ::= (<a>?){3} "b"\n<a> ::= "a"\n',
    '<start> ::= <p> <p> <q>\n<p> ::= "x" | ""\n<q> ::= "y" | <p> "z"\n',
    '<start> ::= <o> <o> <o>\n<o> ::= "a"? "b"?\n',
    '<start> ::= <h> ":" <h>\n<h> ::= <e> <e> "k"?\n<e> ::= "" | "e"\n',
    '<start> ::= <b8>{2} <t>\n<b8> ::= <z>{0,1}\n<z> ::= b"z"\n<t> ::= b"t" | b""\n',
]


def gen_nullable_spec(rng):
    """grammars in which the same empty-deriving symbol occurs several times in a row"""
    return rng.choice(NULLABLE_TEMPLATES)
