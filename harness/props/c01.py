"""C01 -- every generated tree is a derivation of the spec's grammar."""
import logging
import random

import common
import export
import gen_grammar
from common import Broken, coq_list, coq_nat, coq_string

FILES = ["Base/Re.v", "Base/Grammar.v", "Model/FuzzM.v", "Model/ReplaceM.v", "Model/C01Case.v",
         "Proofs/C01.v", "Proofs/C01Replace.v", "Props/C01.v"]
HEADER = ("From Coq Require Import List String NArith Bool Arith.\n"
          "From FV Require Import Base.Re Base.Grammar Model.FuzzM Model.ReplaceM Model.C01Case.\n"
          "Import ListNotations.\nOpen Scope string_scope.\nOpen Scope list_scope.\n")


def obligations(res):
    rc, out = common.make([common.vo(f) for f in FILES])
    res.coverage["obligations"] = common.count_obligations(FILES)
    res.coverage["checker_cmd"] = "coqc (make -f Makefile.coq) + Print Assumptions in Props/C01.v"
    if rc != 0:
        raise Broken("C01 theorems (Proofs/C01.v, Proofs/C01Replace.v) no longer compile", out)
    n, ax = common.check_props("C01")
    res.coverage["discharged"] = res.coverage["obligations"]
    res.coverage["trusted_base"] = ax or ["Closed under the global context (no axioms)"]
    res.assumptions += [
        "Coq 8.16.1 kernel + vm_compute",
        "harness/export.py (grammar/tree exporters) and the decision recorder are trusted; Python's re.fullmatch is the oracle for regex-terminal instances",
        "modelled: Grammar.fuzz/Node.fuzz (as a function of a decision tape), DerivationTree.replace_multiple without generators, crossover/mutation as replace; "
        "repetition-bound repairs and generators are covered only by the verified checker derives_b on implementation outputs",
    ]


# ------------------------------------------------------------------ decision recorder

class Recorder:
    def __init__(self):
        self.tape = []
        self.stack = []

    def install(self):
        import fandango.language.grammar.nodes.alternative as alt_mod
        import fandango.language.grammar.nodes.repetition as rep_mod
        import fandango.language.grammar.nodes.terminal as term_mod
        rec = self
        self.saved = (alt_mod.Alternative.fuzz, rep_mod.Repetition.fuzz, term_mod.TerminalNode.fuzz, random.choice)
        o_alt, o_rep, o_term, o_choice = self.saved

        def alt_fuzz(self, *a, **k):
            rec.stack.append(self)
            try:
                return o_alt(self, *a, **k)
            finally:
                if rec.stack and rec.stack[-1] is self:
                    rec.stack.pop()

        def choice(seq):
            r = o_choice(seq)
            if rec.stack and isinstance(rec.stack[-1], alt_mod.Alternative):
                top = rec.stack.pop()
                idx = next((i for i, x in enumerate(top.alternatives) if x is r), None)
                rec.tape.append(("alt", idx if idx is not None else 10 ** 3))
            return r

        class Proxy:
            def __init__(self, real):
                self.__dict__["_real"] = real
                self.__dict__["_count"] = 0

            def fuzz(self, *a, **k):
                self.__dict__["_count"] += 1
                return self._real.fuzz(*a, **k)

            def __getattr__(self, name):
                return getattr(self.__dict__["_real"], name)

        def rep_fuzz(self, *a, **k):
            saved = self.node
            real = getattr(saved, "_real", saved)
            px = Proxy(real)
            slot = len(rec.tape)
            rec.tape.append(None)
            self.node = px
            try:
                return o_rep(self, *a, **k)
            finally:
                self.node = saved
                rec.tape[slot] = ("rep", px.__dict__["_count"])

        def term_fuzz(self, parent, *a, **k):
            n0 = len(parent.children)
            r = o_term(self, parent, *a, **k)
            if self.symbol.is_regex:
                for c in parent.children[n0:]:
                    rec.tape.append(("re", export.leaf_raw(c)))
            return r

        alt_mod.Alternative.fuzz = alt_fuzz
        rep_mod.Repetition.fuzz = rep_fuzz
        term_mod.TerminalNode.fuzz = term_fuzz
        random.choice = choice
        self.mods = (alt_mod, rep_mod, term_mod)

    def uninstall(self):
        alt_mod, rep_mod, term_mod = self.mods
        alt_mod.Alternative.fuzz, rep_mod.Repetition.fuzz, term_mod.TerminalNode.fuzz, random.choice = self.saved


def tape_term(tape):
    out = []
    for k, v in tape:
        if k == "alt":
            out.append(f"DAlt {coq_nat(min(v, 4000))}")
        elif k == "rep":
            out.append(f"DRep {coq_nat(min(v, 4000))}")
        else:
            out.append(f"DRe {export.payload_of_value(v[1])}" if v[0] != "bit" else "DAlt 4001%nat")
    return coq_list(out)


def quiet():
    from fandango.logger import LOGGER
    LOGGER.setLevel(logging.CRITICAL)


KINDS = [("str",), ("str", "regex"), ("str", "regex", "bytes"), ("str", "bits"), ("str", "regex", "bytes", "bits")]


SWEEP_SPECS = [
    ('<start> ::= <d>{4} <body>\n<body> ::= <w>{2,3} "."\n<w> ::= <d>{2} " "\n<d> ::= "0" | "1"\n', ["<start>", "<body>", "<w>"]),
    ('<start> ::= <h> <x>{3,5} <t>?\n<h> ::= "#" | "##"\n<x> ::= "a" <y>{2,}\n<y> ::= "b" | "c"\n<t> ::= "!"\n', ["<start>", "<x>"]),
    ('<start> ::= (<p> <q>){2} <r>{3}\n<p> ::= "p"\n<q> ::= "q" | "qq"\n<r> ::= <p> | <q>\n', ["<start>"]),
]
_SWEEP = {}


def _sweep_fandango(spec):
    from fandango import Fandango
    if spec not in _SWEEP:
        _SWEEP[spec] = Fandango(spec)
    return _SWEEP[spec]


def gen_case(rng):
    from fandango import Fandango
    for _ in range(50):
        spec = gen_grammar.gen_spec(rng, kinds=rng.choice(KINDS), depth=rng.randint(2, 4))
        try:
            fan = Fandango(spec)
            return spec, fan
        except Exception:
            continue
    raise RuntimeError("could not generate a spec")


def tree_size(t):
    return 1 + sum(tree_size(c) for c in t.children)


def tree_depth(t):
    return 1 + max([tree_depth(c) for c in t.children], default=0)


def correspondence(res):
    quiet()
    rng = random.Random(res.seed * 1000003 + 1)
    n_fuzz = 240 if res.tier == "quick" else 480
    n_repl = 120 if res.tier == "quick" else 240
    n_e2e = 24 if res.tier == "quick" else 48
    fuzz_terms, fuzz_info, repl_terms, repl_info = [], [], [], []
    der_terms, der_info = [], []
    i = 0
    while len(fuzz_terms) < n_fuzz:
        spec, fan = gen_case(rng)
        g = fan.grammar
        try:
            gx = export.GrammarExport(g)
        except export.ExportError:
            continue
        trees = []
        for k in range(8):
            rec = Recorder()
            random.seed(rng.randrange(1 << 30))
            budget = rng.choice([1, 2, 3, 4, 5, 7, 10, 14, 20, 50, 100])
            rec.install()
            try:
                t = g.fuzz("<start>", max_nodes=budget)
            except Exception as e:
                rec.uninstall()
                res.bump("fuzz_raised_" + type(e).__name__)
                continue
            rec.uninstall()
            if tree_size(t) > 400:
                res.bump("skipped_large")
                continue
            gx.announce_tree(t)
            trees.append((t, rec.tape, budget))
        for t, tape, budget in trees:
            fuel = min(tree_depth(t) + 2, 4000)
            fuzz_terms.append(f"({gx.term()}, {coq_string('<start>')}, {coq_nat(fuel)}, {tape_term(tape)}, {export.export_tree(t)})")
            fuzz_info.append({"spec": spec, "budget": budget, "tree": export.tree_py(t), "tape": [list(map(str, x)) for x in tape]})
            kinds = {x[0] for x in tape}
            res.count(("fuzz", spec, export.tree_py(t)), nontrivial=tree_size(t) >= 6 and len(kinds) >= 2)
            res.bump("fuzz_size_%s" % ("<6" if tree_size(t) < 6 else "<30" if tree_size(t) < 30 else ">=30"))
        # replace / crossover cases on real trees
        if len(trees) >= 2 and len(repl_terms) < n_repl:
            for _ in range(2):
                (a, _, _), (b, _, _) = rng.sample(trees, 2)
                nodes_a = [a] + list(a.descendants())
                nodes_b = [b] + list(b.descendants())
                na = rng.choice(nodes_a)
                same = [x for x in nodes_b if x.symbol == na.symbol]
                nb = rng.choice(same) if same and rng.random() < 0.8 else rng.choice(nodes_b)
                try:
                    out = a.replace(g, na, nb)
                except Exception as e:
                    res.bump("replace_raised_" + type(e).__name__)
                    continue
                p = path_of(a, na)
                fuel = min(tree_depth(a) + tree_depth(nb) + 3, 4000)
                repl_terms.append(f"({export.export_tree(a)}, {coq_list([coq_nat(x) for x in p])}, {export.export_tree(nb)}, {coq_nat(fuel)}, {export.export_tree(out)})")
                repl_info.append({"spec": spec, "tree": export.tree_py(a), "path": p, "new": export.tree_py(nb), "impl": export.tree_py(out)})
                res.count(("replace", export.tree_py(a), tuple(p), export.tree_py(nb)), nontrivial=len(p) >= 1)
                res.bump("replace_same_symbol" if nb.symbol == na.symbol else "replace_other_symbol")
                gx.announce_tree(out)
                der_terms.append(f"({gx.term()}, {coq_string('<start>')}, {export.export_tree(out)})")
                der_info.append({"kind": "replace-result", "spec": spec, "tree": export.tree_py(out)})
    # budget sweep: bounded repetitions entered with every small budget (directly as the rule of the fuzzed symbol, and behind / before siblings)
    for spec, starts in SWEEP_SPECS:
        fan = _sweep_fandango(spec)
        g = fan.grammar
        gx = export.GrammarExport(g)
        trees = []
        for st in starts:
            for budget in range(0, 31 if res.tier == "quick" else 61):
                rec = Recorder()
                random.seed(rng.randrange(1 << 30))
                rec.install()
                try:
                    t = g.fuzz(st, max_nodes=budget)
                except Exception as e:
                    rec.uninstall()
                    res.bump("fuzz_raised_" + type(e).__name__)
                    continue
                rec.uninstall()
                gx.announce_tree(t)
                trees.append((t, rec.tape, budget, st))
        for t, tape, budget, st in trees:
            fuel = min(tree_depth(t) + 2, 4000)
            fuzz_terms.append(f"({gx.term()}, {coq_string(st)}, {coq_nat(fuel)}, {tape_term(tape)}, {export.export_tree(t)})")
            fuzz_info.append({"spec": spec, "start": st, "budget": budget, "tree": export.tree_py(t), "tape": [list(map(str, x)) for x in tape]})
            res.count(("fuzz-sweep", spec, st, budget), nontrivial=tree_size(t) >= 4)
            res.bump("fuzz_budget_sweep")
    # replace_multiple with two simultaneous replacements (what constraint-driven repair does), often nested
    multi_terms, multi_info = [], []
    rng2 = random.Random(res.seed * 37 + 11)
    pool_specs = list(MULTI_SPECS)
    _multi_cache = {}
    from fandango import Fandango as _F
    while len(multi_terms) < (80 if res.tier == "quick" else 160):
        spec = rng2.choice(pool_specs)
        if spec not in _multi_cache:
            _multi_cache[spec] = _F(spec)
        fan = _multi_cache[spec]
        g = fan.grammar
        gx = export.GrammarExport(g)
        random.seed(rng2.randrange(1 << 30))
        try:
            ts = [g.fuzz("<start>", max_nodes=rng2.choice([10, 30])) for _ in range(3)]
        except RecursionError:
            res.bump("multi_fuzz_recursion_limit")
            continue
        if any(tree_size(t) > 200 for t in ts):
            continue
        a = ts[0]
        nodes_a = [a] + list(a.descendants())
        n1 = rng2.choice(nodes_a)
        inner = [x for x in n1.descendants()] or nodes_a
        n2 = rng2.choice(inner) if rng2.random() < 0.7 else rng2.choice(nodes_a)
        if n1 is n2:
            continue
        donors = [x for t in ts[1:] for x in [t] + list(t.descendants())]
        def donor(n):
            same = [x for x in donors if x.symbol == n.symbol]
            return rng2.choice(same) if same and rng2.random() < 0.85 else rng2.choice(donors)
        v1, v2 = donor(n1), donor(n2)
        try:
            out = a.replace_multiple(g, [(n1, v1), (n2, v2)])
        except Exception as e:
            res.bump("replace_multiple_raised_" + type(e).__name__)
            continue
        p1, p2 = path_of(a, n1), path_of(a, n2)
        fuel = min(tree_depth(a) + tree_depth(v1) + tree_depth(v2) + 4, 4000)
        reps = coq_list([f"({coq_list([coq_nat(x) for x in p])}, {export.export_tree(v)})" for p, v in ((p1, v1), (p2, v2))])
        multi_terms.append(f"({export.export_tree(a)}, {reps}, {coq_nat(fuel)}, {export.export_tree(out)})")
        multi_info.append({"spec": spec, "tree": export.tree_py(a), "replacements": [(p1, export.tree_py(v1)), (p2, export.tree_py(v2))],
                           "impl": export.tree_py(out)})
        res.count(("replace_multiple", export.tree_py(a), tuple(p1), tuple(p2)), nontrivial=True)
        res.bump("replace_multiple_nested" if p2[:len(p1)] == p1 else "replace_multiple_disjoint")
        gx.announce_tree(out)
        der_terms.append(f"({gx.term()}, {coq_string('<start>')}, {export.export_tree(out)})")
        der_info.append({"kind": "replace_multiple-result", "spec": spec, "tree": export.tree_py(a),
                         "replacements": [(p1, export.tree_py(v1)), (p2, export.tree_py(v2))], "result": export.tree_py(out)})
    if fuzz_info:
        res.sample({"fuzz_case": fuzz_info[0]})
    if repl_info:
        res.sample({"replace_case": repl_info[0]})
    ok = common.run_case_files("C01", "fuzz", HEADER, fuzz_terms, "c01_fuzz_ok", chunk=120)
    okr = common.run_case_files("C01", "repl", HEADER, repl_terms, "c01_replace_ok", chunk=150)
    okm = common.run_case_files("C01", "multi", HEADER, multi_terms, "c01_replace_multi_ok", chunk=100)
    bad = [i for i, v in enumerate(ok) if v is not True]
    badr = [i for i, v in enumerate(okr) if v is not True]
    badm = [i for i, v in enumerate(okm) if v is not True]
    res.coverage["traces_validated_against_impl"] = (len(ok) - len(bad)) + (len(okr) - len(badr)) + (len(okm) - len(badm))
    res.coverage["rule"] = ("random specs (2-6 nonterminals, all body kinds, str/bytes/bit/regex terminals, recursion); real Grammar.fuzz under a "
                            "decision recorder vs fuzz_start on the exported grammar and tape (identical tree required); real "
                            "DerivationTree.replace vs replace1; every tree the evolutionary search evaluates or emits judged by derives_b. "
                            "non-trivial = tree of >= 6 nodes using >= 2 decision kinds (fuzz) / non-root path (replace); distinct by (spec, tree)")
    first_broken = None
    if bad:
        first_broken = Broken(f"correspondence fuzz: model and Grammar.fuzz differ on {len(bad)}/{len(ok)} cases", repr(fuzz_info[bad[0]]))
        # is the implementation's tree still a derivation?  judged by the verified checker
        judge(res, [(fuzz_terms[i], fuzz_info[i]) for i in bad[:40]], from_fuzz=True)
    if badr and not first_broken:
        first_broken = Broken(f"correspondence replace: model and DerivationTree.replace differ on {len(badr)}/{len(okr)} cases", repr(repl_info[badr[0]]))
    if badm and not first_broken:
        first_broken = Broken(f"correspondence replace_multiple: model and implementation differ on {len(badm)}/{len(okm)} cases", repr(multi_info[badm[0]]))
    # property judged on implementation outputs
    okd = common.run_case_files("C01", "der", HEADER, der_terms, "c01_derives_ok", chunk=150)
    for i, v in enumerate(okd):
        if v is not True:
            res.violation("tree returned by DerivationTree.replace / replace_multiple is not a derivation of the grammar", der_info[i])
            break
    end_to_end(res, n_e2e)
    if first_broken:
        raise first_broken


def judge(res, pairs, from_fuzz):
    """re-judge implementation trees from disagreeing fuzz cases with derives_b"""
    terms = []
    for term, info in pairs:
        # term = (G, s, fuel, tape, tree) -> (G, s, tree)
        inner = term[1:-1]
        # split at top level commas
        parts = split_top(inner)
        terms.append(f"({parts[0]}, {parts[1]}, {parts[4]})")
    ok = common.run_case_files("C01", "judge", HEADER, terms, "c01_derives_ok", chunk=100)
    for (term, info), v in zip(pairs, ok):
        if v is not True:
            res.violation("Grammar.fuzz produced a tree that is not a derivation of the grammar (derives_b = false)", info)
            return


def split_top(s):
    parts, depth, cur, instr = [], 0, "", False
    i = 0
    while i < len(s):
        c = s[i]
        if instr:
            cur += c
            if c == '"':
                if i + 1 < len(s) and s[i + 1] == '"':
                    cur += '"'
                    i += 1
                else:
                    instr = False
        elif c == '"':
            instr = True
            cur += c
        elif c in "([{":
            depth += 1
            cur += c
        elif c in ")]}":
            depth -= 1
            cur += c
        elif c == "," and depth == 0:
            parts.append(cur.strip())
            cur = ""
        else:
            cur += c
        i += 1
    parts.append(cur.strip())
    return parts


def path_of(root, node):
    p = []
    cur = node
    while cur is not root and cur.parent is not None:
        par = cur.parent
        idx = next(i for i, c in enumerate(par.children) if c is cur)
        p.insert(0, idx)
        cur = par
    return p


MULTI_SPECS = [
    """<start> ::= <pair> <pair>?
<pair> ::= <a> <b> | <b> <c> | "(" <pair> ")"
<a> ::= "x" | "z"
<b> ::= "y" | "z" | <a> <a>
<c> ::= "w" | <b>
""",
    """<start> ::= <item>+ <tail>
<item> ::= "a" | "b" | "[" <item>* "]"
<tail> ::= "t" | "u" | <item>
""",
]

E2E_FIXED = [
    """<start> ::= <pair>
<pair> ::= <a> <b> | <b> <c>
<a> ::= "x" | "z"
<b> ::= "y" | "z"
<c> ::= "w"
where str(<pair>) == "zw"
where str(<a>) == "z"
""",
    """<start> ::= <len> <item>{int(<len>)} <tail>
<len> ::= "1" | "2" | "3" | "4"
<item> ::= "a" | "b"
<tail> ::= "t" | "u"
where str(<tail>) == "u"
""",
    """<start> ::= <len> <item>{int(<len>)} <tail> <tail>
<len> ::= "1" | "2" | "3"
<item> ::= "a" | "b" | <d>
<d> ::= "0" | "1"
<tail> ::= "t" | "u" | "v"
where str(<tail>) == "v"
where str(<d>) == "1"
""",
    # computed repetitions whose body puts several children under the parent per round (repairs insert / delete whole rounds)
    """<start> ::= <n> ":" (<a> <b>){1,int(<n>)}
<n> ::= "1" | "2" | "3"
<a> ::= "x"
<b> ::= "y"
where int(<n>) < 3
""",
    """<start> ::= <n> (<a> <b> <a>){int(<n>)} "." <t>
<n> ::= "1" | "2" | "3" | "4"
<a> ::= "x" | "z"
<b> ::= "y"
<t> ::= "p" | "q"
where int(<n>) <= 2
where str(<t>) == "q"
""",
    """<start> ::= <rec>{1,2}
<rec> ::= <n> "=" (<k> ":" <v> ";"){int(<n>),3}
<n> ::= "1" | "2" | "3"
<k> ::= "a" | "b"
<v> ::= "0" | "1"
where int(<n>) >= 2
""",
]

CONSTRAINTS = [
    "where len(str(<start>)) >= {k}",
    "where len(str(<start>)) <= {k2}",
    "where len(str(<start>)) == {k3}",
    "where str(<n1>) == str(<n1>)[::-1]",
    "where len(str(<n1>)) > 1",
    "where str(<start>).count('a') >= {k}",
    "where str(<n1>) != 'a'",
]


def end_to_end(res, n):
    """Real evolutionary runs; every individual the search evaluates (initial
    population, crossover, mutation, repair results) and every emitted solution is
    exported and judged by derives_b."""
    from fandango import Fandango
    from fandango.evolution.evaluation import Evaluator
    rng = random.Random(res.seed * 31 + 7)
    seen = []
    orig = Evaluator.evaluate_individual

    def wrapped(self, individual):
        seen.append(individual)
        return (yield from orig(self, individual))

    terms, infos = [], []
    Evaluator.evaluate_individual = wrapped
    try:
        for i in range(n):
            fixed = E2E_FIXED[(i // 2) % len(E2E_FIXED)] if i % 2 == 0 else None
            spec = fixed or gen_grammar.gen_spec(rng, kinds=("str", "regex"), depth=rng.randint(2, 3))
            cons = rng.sample(CONSTRAINTS, rng.randint(1, 2))
            if rng.random() < 0.5:
                spec = spec.replace("<start> ::= ", "<start> ::= <c> <x>{int(<c>)} | ", 1) + "<c> ::= '1' | '2' | '3'\n<x> ::= 'x' | 'a'\n"
            ctext = "\n".join(c.format(k=rng.randint(1, 6), k2=rng.randint(4, 12), k3=rng.randint(2, 8)) for c in cons)
            if "<n1>" not in spec:
                ctext = ctext.replace("<n1>", "<start>")
            full = spec + ctext + "\n"
            if fixed:
                full = fixed
            try:
                fan = Fandango(full)
                gx = export.GrammarExport(fan.grammar)
            except Exception:
                res.bump("e2e_spec_rejected")
                continue
            del seen[:]
            random.seed(rng.randrange(1 << 30))
            kw = dict(desired_solutions=rng.choice([3, 8]), max_generations=rng.choice([5, 12]),
                      population_size=rng.choice([8, 20]), max_nodes=rng.choice([30, 100]))
            try:
                sols = common.guarded(lambda: fan.fuzz(**kw), 15)
            except common.ImplTimeout:
                res.bump("e2e_gave_up_after_15s")      # termination is C06's subject; never a verdict here
                sols = []
            except (Exception, MemoryError) as e:
                res.bump("e2e_raised_" + type(e).__name__)
                sols = []
            pool = {}
            for t in list(seen) + list(sols):
                try:
                    key = export.tree_py(t)
                except export.ExportError:
                    res.bump("e2e_unexportable_tree")
                    continue
                if key not in pool and tree_size(t) <= 300:
                    pool[key] = t
            for key, t in list(pool.items())[:60]:
                gx.announce_tree(t)
            gterm = gx.term()
            for key, t in list(pool.items())[:60]:
                terms.append(f"({gterm}, {coq_string('<start>')}, {export.export_tree(t)})")
                infos.append({"kind": "e2e", "spec": full, "tree": key})
                res.count(("e2e", full, key), nontrivial=tree_size(t) >= 6)
            res.bump("e2e_runs")
            res.bump("e2e_solutions", len(sols))
            if i == 0 and sols:
                res.sample({"e2e_spec": full, "first_solution": str(export.tree_py(sols[0]))[:300]})
    finally:
        Evaluator.evaluate_individual = orig
    ok = common.run_case_files("C01", "e2e", HEADER, terms, "c01_derives_ok", chunk=150)
    res.bump("e2e_trees_judged", len(ok))
    for i, v in enumerate(ok):
        if v is not True:
            res.violation("the evolutionary search produced a tree that is not a derivation of the grammar (derives_b = false)", infos[i])
            break


def search(res):
    if not res.violations:
        end_to_end(res, 120)


def replay(res, rp):
    print("replay: re-run ./check C01 with the same VERIF_SEED; case:", str(rp.get("replay"))[:400])
    return 0
