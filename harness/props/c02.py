"""C02 -- emitted solutions satisfy every hard constraint."""
import logging
import random

import common
import export
import c07lib as L
from common import Broken, coq_Z, coq_bool, coq_list, coq_nat, coq_opt
from props import c07

FILES = ["gen/EvalArith.v", "Base/Re.v", "Base/Grammar.v", "Model/ReplaceM.v", "Model/SearchM.v", "Model/ConstraintM.v",
         "Model/C03Case.v", "Model/C07Case.v", "Model/C02Case.v", "Proofs/C03.v", "Proofs/C07Search.v", "Proofs/C07.v",
         "Proofs/C02Arith.v", "Proofs/C02.v", "Model/RepBoundsM.v", "Proofs/C02RepBounds.v", "Props/C02.v"]
HEADER = ("From Coq Require Import List String ZArith NArith Bool Arith.\n"
          "From FV Require Import Base.Re Base.Grammar Model.ReplaceM Model.SearchM Model.ConstraintM Model.C07Case Model.C02Case.\n"
          "Import ListNotations.\nOpen Scope string_scope.\nOpen Scope list_scope.\n")
CT = "(tree * list constr * oracle * list (option (Z * Z)) * list (option (Z * Z)) * bool)"
PT = "(tree * list constr * oracle)"

REP_SCHEMA = ("""<start> ::= <b>{1,3}
<b> ::= <n> <x>{int(<n>)} ";"
<n> ::= "1" | "2" | "3"
<x> ::= "p" | "q" | <d>
<d> ::= "0" | "5"
""", ["<start>", "<b>", "<n>", "<x>", "<d>"],
              "forall <q> in <b>: len([y for y in *<q>.<x>]) == int(<q>.<n>)")


# the same records under a common wrapper nonterminal (several computed repetitions that share the first path step)
REP_SCHEMA2 = ("""<start> ::= <m>
<m> ::= <b> <b> <b>?
<b> ::= <n> <x>{int(<n>)} ";"
<n> ::= "1" | "2" | "3"
<x> ::= "p" | "q" | <d>
<d> ::= "0" | "5"
""", ["<start>", "<m>", "<b>", "<n>", "<x>", "<d>"],
               "forall <q> in <b>: len([y for y in *<q>.<x>]) == int(<q>.<n>)")

c07.EXTRA_SCHEMAS.append((REP_SCHEMA[0], REP_SCHEMA[1]))
c07.EXTRA_SCHEMAS.append((REP_SCHEMA2[0], REP_SCHEMA2[1]))


def obligations(res):
    import translate_eval
    try:
        translate_eval.run()
    except translate_eval.TranslateError as e:
        raise Broken(f"translator: evaluation arithmetic not recognised: {e}")
    rc, out = common.make([common.vo(f) for f in FILES])
    res.coverage["obligations"] = common.count_obligations(FILES)
    res.coverage["checker_cmd"] = "coqc (make -f Makefile.coq) + Print Assumptions in Props/C02.v"
    if rc != 0:
        raise Broken("C02 theorems (Proofs/C02Arith.v, Proofs/C02.v) no longer compile against the translated arithmetic / constraint model", out)
    n, ax = common.check_props("C02")
    res.coverage["discharged"] = res.coverage["obligations"]
    res.coverage["trusted_base"] = ax
    res.assumptions += [
        "Coq kernel + vm_compute; Flocq and the stdlib real-number axioms (arithmetic half); translator harness/translate_eval.py",
        "counts and per-constraint totals below 2^16 (stated in the theorems); expected_fitness = 1.0 (default); no soft constraints",
        "constraint semantics = the C07 model (hand-written, tied by correspondence); Python expressions = oracle tables; "
        "RepetitionBoundsConstraint.fitness is modelled separately (Model/RepBoundsM.v: grouping by origin_repetitions tags, anchor of a repetition, "
        "in-bounds test, nearest preceding count field) and compared with the real method on fuzzed and crossover-stirred trees; in the evaluator "
        "model its (solved,total) results are inputs, and computed repetition bounds of emitted trees are also judged through an equivalent "
        "explicit forall-constraint in the documented semantics",
    ]


def fit_pair(c, tree):
    try:
        f = c.fitness(tree)
        return (int(f.solved), int(f.total))
    except Exception:
        return None


def coq_pairs(ps):
    return coq_list([coq_opt(None if p is None else f"({coq_Z(p[0])}, {coq_Z(p[1])})") for p in ps])


def run_worker(args):
    seed, n_specs, trees_per = args
    import sys
    sys.stderr = open("/dev/null", "w")
    res = c07.MiniRes()
    out = gen_cases(res, seed, n_specs, trees_per)
    return out, res.hist, res.counts, res.samples


def make_spec(rng):
    if rng.random() < 0.35:
        spec, nts, judge = REP_SCHEMA if rng.random() < 0.5 else REP_SCHEMA2
    else:
        spec, nts = rng.choice(c07.SCHEMAS)
        judge = None
    texts = [c07.gen_formula(rng, nts, depth=rng.choice([0, 1, 1, 2])) for _ in range(rng.choice([1, 1, 2, 3]))]
    return spec, nts, judge, texts


def gen_cases(res, seed, n_specs, trees_per):
    """correspondence cases: real Evaluator vs the model"""
    from fandango import Fandango
    from fandango.evolution.evaluation import Evaluator
    from fandango.constraints.repetition_bounds import RepetitionBoundsConstraint
    c07.quiet()
    rng = random.Random(seed * 13 + 5)
    terms, infos = [], []
    attempts = 0
    while len(terms) < n_specs * trees_per and attempts < n_specs * 25:
        attempts += 1
        spec, nts, judge, texts = make_spec(rng)
        full = spec + "".join(f"where {t}\n" for t in texts)
        try:
            fan = Fandango(full)
            ex = L.ConstraintExport()
            hard = [c for c in fan.constraints if not isinstance(c, RepetitionBoundsConstraint)]
            reps = [c for c in fan.constraints if isinstance(c, RepetitionBoundsConstraint)]
            irs = [ex.export(c) for c in hard]
        except L.Unsupported:
            res.bump("unsupported")
            continue
        except Exception:
            res.bump("rejected_by_front_end")
            continue
        g = fan.grammar
        for k in range(trees_per):
            random.seed(rng.randrange(1 << 30))
            try:
                t = g.fuzz("<start>", max_nodes=rng.choice([5, 15, 40]))
            except Exception:
                continue
            if t.size() > 100:
                continue
            pt = L.PT(t)
            table = {}
            try:
                for ir in irs:
                    L.collect(pt, ex.atoms, ir, {}, [], True, table)
                    L.collect(pt, ex.atoms, ir, {}, [], False, table)
            except Exception as e:
                res.bump("oracle_failed_" + type(e).__name__)
                continue
            if len(table) > 300:
                continue
            ires = [fit_pair(c, t) for c in hard]
            rres = [fit_pair(c, t) for c in reps]
            ev = Evaluator(g, list(fan.constraints), 1.0, 0, 0.0)
            gen = ev.evaluate_individual(t)
            yielded = False
            try:
                while True:
                    next(gen)
                    yielded = True
            except StopIteration:
                pass
            terms.append(f"({export.export_tree(t)}, {coq_list([L.coq_constr(i) for i in irs])}, {L.coq_oracle(table)}, "
                         f"{coq_pairs(ires)}, {coq_pairs(rres)}, {coq_bool(yielded)})")
            infos.append({"spec": full, "tree": str(export.tree_py(t))[:300], "impl_results": ires, "impl_rep_results": rres,
                          "impl_yielded": yielded})
            res.count(("evaluator", full, export.tree_py(t)), nontrivial=len(ires) + len(rres) >= 2)
            res.bump("yielded" if yielded else "not_yielded")
            if any(x is None for x in ires + rres):
                res.bump("with_raising_constraint")
    if infos:
        res.sample(infos[0])
    return terms, infos


RB_HEADER = ("From Coq Require Import List Arith Bool ZArith.\nFrom FV Require Import Model.RepBoundsM.\nImport ListNotations.\nOpen Scope list_scope.\n")
RB_T = "(tt * bound * bound * option (nat * nat))"
RB_SPECS = [REP_SCHEMA[0], REP_SCHEMA2[0],
            '<start> ::= <n> ":" (<a> <b>){1,int(<n>)}\n<n> ::= "1" | "2" | "3"\n<a> ::= "x"\n<b> ::= "y"\n',
            '<start> ::= <rec>{1,3}\n<rec> ::= <n> "=" (<k> ":" <v> ";"){int(<n>),3} "."\n<n> ::= "1" | "2" | "3"\n<k> ::= "a" | "b"\n<v> ::= "0" | "1"\n',
            '<start> ::= <m> <m>?\n<m> ::= <h> <b>+\n<h> ::= "#"\n<b> ::= <n> <x>{int(<n>)} <y>{1,int(<n>)+1} ";"\n<n> ::= "1" | "2"\n<x> ::= "p"\n<y> ::= "q"\n']


def rb_tt(t, rid):
    tags = [(it, rd) for (r_, it, rd) in t.origin_repetitions if r_ == rid]
    tg = coq_list([f"({coq_nat(a)}, {coq_nat(b)})" for a, b in tags])
    return f"(TT {'true' if t.symbol.is_non_terminal else 'false'} {tg} {coq_list([rb_tt(c, rid) for c in t.children])})"


def rb_bound(c, expr_data, root):
    """the bound expression as the model sees it: a constant, or (path of the match, value) for every match of its search, in search order"""
    from fandango.language.tree import ChildStep
    expr, _, searches = expr_data
    if len(searches) == 0:
        return f"(BConst {coq_Z(int(eval(expr, c.global_variables, c.local_variables.copy())))})"
    name, search = next(iter(searches.items()))
    cands = []
    for container in search.find(root):
        n = container.evaluate()
        steps = n.get_choices_path()
        if not all(isinstance(st, ChildStep) for st in steps):
            raise ValueError("source step")
        loc = c.local_variables.copy()
        loc[name] = n
        v = int(eval(expr, c.global_variables, loc))
        cands.append(f"({coq_list([coq_nat(st.index) for st in steps])}, {coq_Z(v)})")
    return f"(BSearch {coq_list(cands)})"


def rb_worker(args):
    """RepetitionBoundsConstraint.fitness of the real code vs the model, on fuzzed trees and on trees whose tags were stirred by crossover"""
    seed, n = args
    import sys
    sys.stderr = open("/dev/null", "w")
    from fandango import Fandango
    from fandango.constraints.repetition_bounds import RepetitionBoundsConstraint
    c07.quiet()
    res = c07.MiniRes()
    rng = random.Random(seed * 313 + 1)
    terms, infos = [], []
    for _ in range(n):
        spec = rng.choice(RB_SPECS)
        try:
            fan = Fandango(spec)
        except Exception:
            res.bump("rb_spec_rejected")
            continue
        g = fan.grammar
        reps = [c for c in fan.constraints if isinstance(c, RepetitionBoundsConstraint)]
        trees = []
        for _k in range(4):
            random.seed(rng.randrange(1 << 30))
            try:
                trees.append(g.fuzz("<start>", max_nodes=rng.choice([10, 30, 60])))
            except Exception:
                pass
        # crossover between the fuzzed trees: same-symbol subtrees swapped (tags of different parents meet in one tree)
        for _k in range(3):
            if len(trees) < 2:
                break
            a, b = rng.sample(trees[:4], 2)
            na = rng.choice([a] + list(a.descendants()))
            same = [x for x in [b] + list(b.descendants()) if x.symbol == na.symbol and x.symbol.is_non_terminal]
            if not same or na.parent is None:
                continue
            try:
                trees.append(a.replace(g, na, rng.choice(same)))
            except Exception:
                pass
        for t in trees:
            if t.size() > 120:
                continue
            for c in reps:
                c.cache = {}
                real = fit_pair(c, t)
                try:
                    term = (f"({rb_tt(t, c.repetition_id)}, {rb_bound(c, c.expr_data_min, t)}, {rb_bound(c, c.expr_data_max, t)}, "
                            f"{coq_opt(None if real is None else f'({coq_nat(real[0])}, {coq_nat(real[1])})')})")
                except Exception as e:
                    res.bump("rb_export_failed_" + type(e).__name__)
                    continue
                terms.append(term)
                infos.append({"spec": spec, "tree": str(t), "repetition": c.repetition_id, "implementation_solved_total": real,
                              "tags": [(str(x.symbol), [tg for tg in x.origin_repetitions if tg[0] == c.repetition_id]) for x in t.flatten()
                                       if any(tg[0] == c.repetition_id for tg in x.origin_repetitions)][:20]})
                res.count(("rb", spec, str(t), c.repetition_id), nontrivial=real is not None and real[1] >= 1)
                res.bump("rb_raises" if real is None else ("rb_all_in_bounds" if real[0] == real[1] else "rb_some_out_of_bounds"))
    return (terms, infos), res.hist, res.counts, res.samples


def e2e_worker(args):
    seed, n_runs = args
    import sys
    sys.stderr = open("/dev/null", "w")
    res = c07.MiniRes()
    out = gen_e2e(res, seed, n_runs)
    return out, res.hist, res.counts, res.samples


def gen_e2e(res, seed, n_runs):
    """real fuzz() runs in production mode; every emitted solution becomes a property case"""
    from fandango import Fandango
    from fandango.constraints.repetition_bounds import RepetitionBoundsConstraint
    c07.quiet()
    rng = random.Random(seed * 17 + 3)
    terms, infos = [], []
    for i in range(n_runs):
        spec, nts, judge, texts = make_spec(rng)
        full = spec + "".join(f"where {t}\n" for t in texts)
        try:
            if rng.random() < 0.3:
                # the same constraints given as extra (command-line style) constraints instead of `where` lines
                k_ = rng.randint(0, len(texts) - 1)
                fan = Fandango(spec + "".join(f"where {t}\n" for t in texts[:k_]), constraints=list(texts[k_:]))
                res.bump("e2e_extra_constraints")
            else:
                fan = Fandango(full)
            ex = L.ConstraintExport()
            irs = [ex.export(c) for c in fan.constraints if not isinstance(c, RepetitionBoundsConstraint)]
            if len(irs) != len(texts):
                res.bump("e2e_constraint_count_mismatch")
                terms.append("(Leaf (LBit true), [KAnd [KOr []]], [])")
                infos.append({"spec": full, "problem": f"{len(texts)} constraints given, {len(irs)} in force"})
                continue
            if judge:
                fj = Fandango(spec + f"where {judge}\n")
                irs += [ex.export(c) for c in fj.constraints if not isinstance(c, RepetitionBoundsConstraint)]
        except Exception:
            res.bump("e2e_spec_rejected")
            continue
        random.seed(rng.randrange(1 << 30))
        try:
            kw = dict(desired_solutions=rng.choice([2, 5]), max_generations=rng.choice([4, 10]), population_size=rng.choice([10, 25]))
            sols = common.guarded(lambda: fan.fuzz(**kw), 15)
        except (Exception, common.ImplTimeout) as e:
            res.bump("e2e_raised_" + type(e).__name__)
            continue
        res.bump("e2e_runs")
        res.bump("e2e_solutions", len(sols))
        seen = set()
        for t in sols:
            key = export.tree_py(t)
            if key in seen or t.size() > 150:
                continue
            seen.add(key)
            pt = L.PT(t)
            table = {}
            try:
                for ir in irs:
                    L.collect(pt, ex.atoms, ir, {}, [], True, table)
                    L.collect(pt, ex.atoms, ir, {}, [], False, table)
            except Exception as e:
                res.bump("oracle_failed_" + type(e).__name__)
                continue
            if len(table) > 400:
                continue
            terms.append(f"({export.export_tree(t)}, {coq_list([L.coq_constr(i) for i in irs])}, {L.coq_oracle(table)})")
            infos.append({"spec": full, "judge_constraint_for_repetitions": judge, "emitted": str(key)[:300]})
            res.count(("emitted", full, key), nontrivial=True)
    if infos:
        res.sample(infos[0])
    return terms, infos


def parallel(res, fn, jobs):
    import multiprocessing as mp
    with mp.get_context("fork").Pool(len(jobs)) as pool:
        outs = pool.map(fn, jobs)
    terms, infos = [], []
    for ((t, i), hist, counts, samples) in outs:
        terms.extend(t)
        infos.extend(i)
        for k, v in hist.items():
            res.bump(k, v)
        for key, nt in counts:
            res.count(key, nt)
        for smp in samples[:1]:
            res.sample(smp, cap=4)
    return terms, infos


def correspondence(res):
    W = 14
    n = 120 if res.tier == "quick" else 360
    terms, infos = parallel(res, run_worker, [(res.seed * 100 + w, max(1, n // W), 3) for w in range(W)])
    codes = common.run_case_codes("C02", "corr", HEADER, terms, "c02_corr", chunk=80, ctype=CT)
    bad = [i for i, v in enumerate(codes) if v != 1]
    res.coverage["traces_validated_against_impl"] = len(codes) - len(bad)
    res.coverage["rule"] = ("specs = schema grammar (incl. one with computed repetitions) x 1-3 generated where-constraints (incl. raising ones); "
                            "correspondence: real Evaluator.evaluate_individual + constraint.fitness vs the model (per-constraint solved/total and the "
                            "yield decision); property: every solution emitted by real fuzz() runs judged in Coq against the documented meaning of "
                            "every constraint (computed repetition bounds through an equivalent explicit forall-constraint). "
                            "non-trivial = >= 2 constraints; distinct by (spec, tree)")
    broken = None
    if bad:
        broken = Broken(f"correspondence evaluator: model and implementation differ (or oracle incomplete) on {len(bad)}/{len(codes)} cases",
                        repr(infos[bad[0]]))
    # RepetitionBoundsConstraint.fitness vs its model
    nrb = 56 if res.tier == "quick" else 280
    rterms, rinfos = parallel(res, rb_worker, [(res.seed * 100 + 80 + w, max(1, nrb // W)) for w in range(W)])
    rcodes = common.run_case_codes("C02", "rb", RB_HEADER, rterms, "c02_rb", chunk=80, ctype=RB_T)
    rbad = [i for i, v in enumerate(rcodes) if v != 1]
    res.coverage["repetition_bounds_cases_validated"] = len(rcodes) - len(rbad)
    if rbad:
        raise Broken(f"correspondence: RepetitionBoundsConstraint.fitness differs from its model on {len(rbad)}/{len(rcodes)} (tree, constraint) pairs",
                     repr(rinfos[rbad[0]]))
    e2e(res, 70 if res.tier == "quick" else 210)
    if broken:
        raise broken


def e2e(res, n):
    W = 14
    terms, infos = parallel(res, e2e_worker, [(res.seed * 100 + 50 + w, max(1, n // W)) for w in range(W)])
    codes = common.run_case_codes("C02", "prop", HEADER, terms, "c02_prop", chunk=80, ctype=PT)
    known, _ = common.load_known("C07")
    sigs = {k["signature"] for k in known}
    res.bump("emitted_judged", len(codes))
    for i, v in enumerate(codes):
        if v == 1:
            continue
        if v == 2 and "desc-includes-base" in sigs:
            res.known("desc-includes-base (see C07): emitted solution violates a constraint only in the documented reading of `..`")
        elif v in (4, None):
            raise Broken("property evaluation inconclusive (oracle entry missing / case file failed)", repr(infos[i]))
        else:
            if len(res.violations) < 3:
                res.violation("emitted solution does not satisfy a constraint of its spec (documented meaning, judged in Coq)", infos[i])


def search(res):
    if not res.violations:
        e2e(res, 400)


def replay(res, rp):
    print("replay: re-run ./check C02 with the same VERIF_SEED; case:", str(rp.get("replay"))[:600])
    return 0
