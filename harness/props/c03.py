"""C03 -- a tree that satisfies all constraints is accepted as a solution."""
import random

import common
from common import Broken, coq_Z, coq_bool, coq_list, coq_opt

FILES = ["gen/EvalArith.v", "Model/C03Case.v", "Proofs/C03.v", "Props/C03.v"]
HEADER = ("From Coq Require Import ZArith List Bool PrimFloat.\nFrom FV Require Import gen.EvalArith Model.C03Case.\n"
          "Import ListNotations.\nOpen Scope float_scope.\n")


def obligations(res):
    import translate_eval
    try:
        translate_eval.run()
    except translate_eval.TranslateError as e:
        raise Broken(f"translator: evaluation arithmetic not recognised: {e}")
    rc, out = common.make([common.vo(f) for f in FILES])
    res.coverage["obligations"] = common.count_obligations(FILES)
    res.coverage["checker_cmd"] = "coqc (make -f Makefile.coq) + Print Assumptions in Props/C03.v"
    if rc != 0:
        raise Broken("theorem C03_accepts_solved (Proofs/C03.v) no longer compiles against the translated model", out)
    n, ax = common.check_props("C03")
    res.coverage["discharged"] = res.coverage["obligations"]
    res.coverage["trusted_base"] = ax
    res.assumptions += [
        "Coq 8.16.1 kernel + vm_compute; Flocq 4 (Binary/PrimFloat bridge) and the stdlib real-number axioms it uses",
        "harness/translate_eval.py (Python ast -> Gallina) is trusted; CPython float arithmetic = IEEE-754 binary64 round-to-nearest-even",
        "counts below 2^53 (stated in the theorem)",
    ]


# ------------------------------------------------------------------ real evaluator under stubs

def _mk():
    from fandango.constraints.constraint import Constraint
    from fandango.constraints.fitness import ConstraintFitness
    from fandango.constraints.repetition_bounds import RepetitionBoundsConstraint
    from fandango.constraints.failing_tree import NopSuggestion

    class StubMixin:
        def _init(self, spec):
            self._spec = spec
            self.searches, self.local_variables, self.global_variables = {}, {}, {}
            self.cache = {}

        def fitness(self, tree, scope=None, local_variables=None):
            if self._spec is None:
                raise ValueError("stub raises")
            s, t = self._spec
            return ConstraintFitness(s, t, s == t, NopSuggestion(), [])

        def accept(self, v):
            pass

        def format_as_spec(self):
            return "stub"

        def invert(self):
            return self

    class StubHard(StubMixin, Constraint):
        def __init__(self, spec):
            self._init(spec)

    class StubRep(StubMixin, RepetitionBoundsConstraint):
        def __init__(self, spec):
            self._init(spec)

    return StubHard, StubRep


def run_real(hs, rs):
    """hs, rs: lists of (solved,total) or None (raises).  Returns (fitness, yielded)."""
    import logging
    from fandango.evolution.evaluation import Evaluator
    from fandango.language.tree import DerivationTree
    from fandango.language.symbols.non_terminal import NonTerminal
    from fandango.logger import LOGGER
    LOGGER.setLevel(logging.CRITICAL)
    StubHard, StubRep = _mk()
    ev = Evaluator(None, [StubHard(x) for x in hs] + [StubRep(x) for x in rs], 1.0, 0, 0.0)
    t = DerivationTree(NonTerminal("<start>"), [])
    g = ev.evaluate_individual(t)
    yielded = False
    try:
        while True:
            next(g)
            yielded = True
    except StopIteration as st:
        fit = st.value[0]
    return float(fit), yielded


def case_term(hs, rs, fit, acc):
    def one(x):
        return coq_opt(None if x is None else f"({coq_Z(x[0])}, {coq_Z(x[1])})")
    return f"({coq_list([one(x) for x in hs])}, {coq_list([one(x) for x in rs])}, {float(fit).hex()}, {coq_bool(acc)})"


def gen_results(rng, n):
    out = []
    for _ in range(n):
        k = rng.random()
        if k < 0.55:
            t = rng.randint(1, 12)
            out.append((t, t))
        elif k < 0.9:
            t = rng.randint(0, 12)
            out.append((rng.randint(0, t), t))
        else:
            out.append(None)
    return out


def correspondence(res):
    rng = random.Random(res.seed * 7919 + 3)
    n = 600 if res.tier == "quick" else 6000
    cases, terms = [], []
    for i in range(n):
        h = rng.choice([0, 1, 1, 2, 3, 5, 7, rng.randint(0, 40)])
        r = rng.choice([0, 0, 1, 2, 5, 6, rng.randint(0, 40)])
        hs, rs = gen_results(rng, h), gen_results(rng, r)
        fit, acc = run_real(hs, rs)
        cases.append((hs, rs, fit, acc))
        terms.append(case_term(hs, rs, fit, acc))
        solved = all(x is not None and x[0] == x[1] and x[1] > 0 for x in hs + rs)
        res.count((hs, rs), nontrivial=(h + r) >= 2)
        res.bump("all_solved" if solved else "some_unsolved_or_raising")
        if solved and not acc:
            res.violation(f"fully solved tree not accepted: h={h} r={r}", {"kind": "stub", "hard": hs, "rep": rs, "fitness": fit})
    res.sample({"hard": cases[0][0], "rep": cases[0][1], "impl_fitness": cases[0][2].hex(), "impl_yielded": cases[0][3]})
    ok = common.run_case_files("C03", "corr", HEADER, terms, "c03_case_ok")
    bad = [i for i, v in enumerate(ok) if v is not True]
    res.coverage["traces_validated_against_impl"] = len(ok) - len(bad)
    res.coverage["rule"] = ("random mixes of solved / partly solved / raising stub constraints (h,r<=40) on the real "
                            "Evaluator.evaluate_individual, fitness compared bit-exactly with the translated model; "
                            "exhaustive all-solved grid; end-to-end specs monitored at every evaluation. "
                            "non-trivial = at least two constraints; distinct by (results) tuple")
    if bad:
        i = bad[0]
        raise Broken(f"correspondence: translated arithmetic and real Evaluator differ on {len(bad)} cases",
                     repr(cases[i]))
    grid(res, 40 if res.tier == "quick" else 128)
    end_to_end(res, 10 if res.tier == "quick" else 80)


def grid(res, N):
    rng = random.Random(res.seed + 11)
    fails = []
    for h in range(0, N + 1):
        for r in range(0, N + 1):
            hs = [(t, t) for t in (rng.randint(1, 9) for _ in range(h))]
            rs = [(t, t) for t in (rng.randint(1, 9) for _ in range(r))]
            fit, acc = run_real(hs, rs)
            res.coverage["evaluations"] += 1
            if not acc:
                fails.append((h, r, fit))
    res.bump("grid_points", (N + 1) ** 2)
    res.coverage["grid_exhaustive_upto"] = N
    if fails:
        h, r, fit = fails[0]
        res.violation(f"fully solved tree not accepted for (h,r)=({h},{r}) (+{len(fails) - 1} more pairs): fitness {fit!r} < 1.0",
                      {"kind": "grid", "h": h, "r": r, "fitness": fit, "all_failing_pairs": fails[:200]})


def end_to_end(res, n):
    """Real specs: h where-clauses, r computed repetitions; every evaluation is
    monitored: if all constraint objects report success, the tree must be yielded."""
    import logging
    from fandango import Fandango
    from fandango.evolution.evaluation import Evaluator
    from fandango.logger import LOGGER
    LOGGER.setLevel(logging.CRITICAL)
    rng = random.Random(res.seed + 5)
    orig = Evaluator.evaluate_individual
    missed = []

    def wrapped(self, individual):
        key = hash((individual.get_root(), individual))
        cached = key in self._fitness_cache
        seen = key in self._solution_set
        g = orig(self, individual)
        yielded = False
        try:
            while True:
                x = next(g)
                yielded = True
                yield x
        except StopIteration as st:
            ret = st.value
        if not cached and not self._soft_constraints:
            try:
                sat = all(c.fitness(individual).success for c in
                          list(self._hard_constraints) + list(self._repetition_bounds_constraints))
            except Exception:
                sat = False
            if sat and not yielded and not seen:
                missed.append((str(individual), ret[0]))
        return ret

    Evaluator.evaluate_individual = wrapped
    try:
        for i in range(n):
            h = rng.choice([0, 1, 1, 2, 3])
            r = rng.choice([1, 2, 3, 5, 5, 6, 7])
            spec = "<start> ::= " + " ".join(f"<b{k}>" for k in range(r)) + "\n<d> ::= 'x' | 'y'\n"
            # a computed repetition may also be absent from a tree: in an alternative not taken ("alt") or with count 0 ("zero")
            variants = [rng.choice(["plain", "plain", "alt", "zero"]) if i % 3 else "plain" for _k in range(r)]
            for k in range(r):
                if variants[k] == "alt":
                    spec += f"<b{k}> ::= 'L' <n{k}> <d>{{int(<n{k}>)}} | 'S'\n<n{k}> ::= '1' | '2' | '3'\n"
                elif variants[k] == "zero":
                    spec += f"<b{k}> ::= <n{k}> <d>{{int(<n{k}>)}}\n<n{k}> ::= '0' | '0' | '1' | '2'\n"
                else:
                    spec += f"<b{k}> ::= <n{k}> <d>{{int(<n{k}>)}}\n<n{k}> ::= '1' | '2' | '3'\n"
            if any(v != "plain" for v in variants):
                res.bump("e2e_with_absent_repetitions")
            for j in range(h):
                spec += f"where len(str(<start>)) >= {rng.randint(0, 3)}\n"
            random.seed(res.seed + i)
            fan = Fandango(spec)
            seeds = []
            if i % 2 == 1:
                # a seed corpus in which every tree satisfies all constraints: each seed is a solution the first time it is seen
                k_seeds = rng.choice([2, 4, 6])
                for _try in range(400):
                    if len(seeds) >= k_seeds:
                        break
                    w = ""
                    for _k in range(r):
                        if variants[_k] == "alt" and rng.random() < 0.5:
                            w += "S"
                            continue
                        nn = rng.randint(0, 2) if variants[_k] == "zero" else rng.randint(1, 3)
                        w += ("L" if variants[_k] == "alt" else "") + str(nn) + "".join(rng.choice("xy") for _ in range(nn))
                    if len(w) >= 3 and w not in seeds:      # the where-clauses ask for at most 3 characters
                        seeds.append(w)
                k_seeds = len(seeds)
                psize = max(2, rng.choice([k_seeds, k_seeds, 3 * k_seeds]))
                kw = dict(desired_solutions=k_seeds + 3, max_generations=6, population_size=psize, initial_population=list(seeds))
                res.bump("e2e_with_seed_corpus")
            else:
                kw = dict(desired_solutions=3, max_generations=15, population_size=12)
            try:
                sols = common.guarded(lambda: fan.fuzz(**kw), 30)
            except common.ImplTimeout:
                res.bump("e2e_gave_up_30s")
                continue
            if seeds:
                got = {str(x) for x in sols}
                lost = [w for w in seeds if w not in got]
                if lost:
                    res.violation(f"end-to-end: seeds of the initial population that satisfy all {h}+{r} constraints were never reported as solutions",
                                  {"kind": "e2e-seeds", "spec": spec, "seeds": seeds, "population_size": kw["population_size"], "lost": lost,
                                   "reported": sorted(got)[:12]})
                    break

            res.count(("e2e", spec), nontrivial=True)
            res.bump("e2e_specs")
            if i == 0:
                res.sample({"e2e_spec": spec, "solutions": [str(s) for s in sols]})
            if missed:
                res.violation(f"end-to-end: tree satisfying all {h}+{r} constraints evaluated but not reported (fitness {missed[0][1]!r})",
                              {"kind": "e2e", "spec": spec, "seed": res.seed + i, "tree": missed[0][0]})
                break
    finally:
        Evaluator.evaluate_individual = orig


def search(res):
    if not res.violations:
        grid(res, 128)
    if not res.violations:
        end_to_end(res, 60)


REPLAY_IS_EXACT = True


def replay(res, rp):
    r = rp["replay"]
    if r.get("kind") in ("grid", "stub"):
        hs = r.get("hard") or [(1, 1)] * r["h"]
        rs = r.get("rep") or [(1, 1)] * r["r"]
        fit, acc = run_real([tuple(x) for x in hs], [tuple(x) for x in rs])
        print(f"replay: fitness={fit!r} accepted={acc}")
        if not acc:
            print(f"VIOLATION property=C03 replay={r}")
            return 1
    return 0
