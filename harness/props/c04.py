"""C04 -- parsing is sound: every yielded tree derives exactly the input."""
import random

import common
import earley
import export
import gen_grammar
from common import Broken, coq_list, coq_nat, coq_string

FILES = ["Base/Re.v", "Base/Grammar.v", "Model/ReplaceM.v", "Model/C01Case.v", "Model/EarleyM.v", "Model/C04Case.v",
         "Model/SearchM.v", "Model/ConstraintM.v", "Model/C07Case.v", "Proofs/C04.v", "Props/C04.v"]
API_HEADER = ("From Coq Require Import List String ZArith NArith Bool Arith.\n"
              "From FV Require Import Base.Re Base.Grammar Model.ReplaceM Model.SearchM Model.ConstraintM Model.C07Case.\n"
              "Import ListNotations.\nOpen Scope string_scope.\nOpen Scope list_scope.\n")
API_T = "(tree * list constr * oracle)"
HEADER = ("From Coq Require Import List String NArith Bool Arith.\n"
          "From FV Require Import Base.Re Base.Grammar Model.ReplaceM Model.C01Case Model.EarleyM Model.C04Case.\n"
          "Import ListNotations.\nOpen Scope string_scope.\nOpen Scope list_scope.\n")
CT = "(crules * string * input * nat * list tree)"
PT = "(grammar * string * input * list tree)"
FUEL = 600


def obligations(res):
    rc, out = common.make([common.vo(f) for f in FILES])
    res.coverage["obligations"] = common.count_obligations(FILES)
    res.coverage["checker_cmd"] = "coqc (make -f Makefile.coq) + Print Assumptions in Props/C04.v"
    if rc != 0:
        raise Broken("C04 theorems (Proofs/C04.v) no longer compile", out)
    n, ax = common.check_props("C04")
    res.coverage["discharged"] = res.coverage["obligations"]
    res.coverage["trusted_base"] = ax or ["Closed under the global context (no axioms)"]
    res.assumptions += [
        "Coq kernel + vm_compute; no axioms",
        "hand-written chart model of IterativeParser (COMPLETE mode, one consume, no computed repetitions); the compiled rules "
        "(_rules/_implicit_rules) are exported from the implementation and are inputs of the model; regex answers are an oracle table (Python re.match)",
        "partial: the theorems are about the compiled rule set; that the compiled rules describe the source grammar (visit* compilation) is not proved -- "
        "every tree the implementation yields is instead judged by the verified derivation checker derives_b against the source grammar",
        "place_repetition_shortcut and incomplete states are not modelled (no influence on complete-mode forests: compared as sets)",
    ]


def mutate(rng, w):
    if not w:
        return w + (w[:0] + (b"a" if isinstance(w, bytes) else "a"))
    i = rng.randrange(len(w))
    k = rng.random()
    alphabet = b"ab01xy\x00\xff" if isinstance(w, bytes) else "ab01xy()"
    c = alphabet[rng.randrange(len(alphabet)):][:1]
    if k < 0.35:
        return w[:i] + w[i + 1:]
    if k < 0.7:
        return w[:i] + c + w[i:]
    return w[:i] + c + w[i + 1:]


def words_for(rng, g, is_bytes, n):
    out = []
    for _ in range(n * 3):
        if len(out) >= n:
            break
        random.seed(rng.randrange(1 << 30))
        try:
            t = g.fuzz("<start>", max_nodes=rng.choice([3, 8, 20]))
            w = bytes(t) if is_bytes else str(t)
        except Exception:
            continue
        if len(w) > 10:
            continue
        out.append(w)
        if rng.random() < 0.6:
            out.append(mutate(rng, w)[:10])
    if rng.random() < 0.3:
        out.append(b"" if is_bytes else "")
    return out[:n + 2]


# a literal and a regular expression spelled alike, in one interpreter, asked in both orders (terminal matching must not depend on what was asked before)
TWINS = [('<start> ::= r"a.c" <x>*\n<x> ::= r"[ab]" | "q"\n', ["abc", "a.c", "abcaq", "a.cb", "axc[ab]", "ab"]),
         ('<start> ::= "a.c" <x>*\n<x> ::= "[ab]" | "q"\n', ["abc", "a.c", "a.c[ab]q", "a.cb", "axc[ab]", "a.ca"]),
         ('<start> ::= "a.c" <x>* r"a.c"\n<x> ::= r"[ab]" | "[ab]"\n', ["a.cabc", "abca.c", "a.c[ab]aa.c", "a.cbaxc", "abcabc"])]


def gen_worker(args):
    seed, n_specs, per_spec = args
    import sys
    sys.stderr = open("/dev/null", "w")
    from fandango import Fandango
    from props import c07
    c07.quiet()
    res = c07.MiniRes()
    rng = random.Random(seed * 101 + 7)
    corr, prop, infos = [], [], []
    tries = 0
    fixed = {0: list(TWINS), 1: list(reversed(TWINS))}.get(seed % 1000, [])
    while fixed or (len(infos) < n_specs * per_spec and tries < n_specs * 12):
        tries += 1
        twin = fixed.pop(0) if fixed else None
        is_bytes = rng.random() < 0.35
        kinds = rng.choice([("bytes",), ("bytes", "bits"), ("bits",)]) if is_bytes else rng.choice([("str",), ("str", "regex"), ("str", "regex")])
        spec = gen_grammar.gen_spec(rng, kinds=kinds, depth=rng.randint(1, 3), n_nt=rng.randint(1, 4))
        if rng.random() < 0.2:
            spec = gen_grammar.gen_nullable_spec(rng)
            is_bytes = 'b"' in spec
        if twin:
            spec, is_bytes = twin[0], False
        try:
            fan = Fandango(spec)
            g = fan.grammar
            sig = earley.nonterminating_signature(g)
            if sig:
                res.bump("spec_skipped_C06_signature_" + sig)     # parsing may not terminate there (known finding of C06)
                continue
            rx = earley.RulesExport(g)
            gx = export.GrammarExport(g)
            nullable_nts = sorted(k.name() for k, v in earley.nullable_map(g)[0].items() if v and not k.name().startswith("<_"))
        except Exception as e:
            res.bump("spec_skipped_" + type(e).__name__)
            continue
        for w in (twin[1] if twin else words_for(rng, g, is_bytes, per_spec)):
            try:
                forest = common.guarded(lambda: earley.forest(g, w), 1.5)
            except common.ImplTimeout:
                res.bump("impl_gave_up_1.5s")        # termination is C06's subject
                break                                # the interrupted parser object is not reused
            except Exception as e:
                res.bump("impl_raised_" + type(e).__name__)
                continue
            try:
                trees = [export.export_tree(t) for t in forest]
            except export.ExportError:
                res.bump("unexportable_tree")
                continue
            for t in forest:
                gx.announce_tree(t)
            inp = rx.input_term(w)
            corr.append(f"({rx.term}, {coq_string('<start>')}, {inp}, {coq_nat(FUEL)}, {coq_list(trees)})")
            prop.append(f"({gx.term()}, {coq_string('<start>')}, {inp}, {coq_list(trees)})")
            infos.append({"spec": spec, "word": repr(w), "impl_forest_size": len(forest), "empty_deriving_nonterminals": nullable_nts,
                          "impl_forest": [str(export.tree_py(t))[:300] for t in forest[:6]]})
            res.count(("parse", spec, repr(w)), nontrivial=len(w) >= 2 and rx.n_rules >= 3)
            res.bump("accepted" if forest else "rejected")
            if len(forest) > 1:
                res.bump("ambiguous")
            res.bump("bytes_input" if is_bytes else "str_input")
    if infos:
        res.sample(infos[0])
    return (corr, prop, infos), res.hist, res.counts, res.samples


def generate(res, n_specs, per_spec, W=14):
    import multiprocessing as mp
    jobs = [(res.seed * 1000 + w, max(1, n_specs // W), per_spec) for w in range(W)]
    with mp.get_context("fork").Pool(W) as pool:
        outs = pool.map(gen_worker, jobs)
    corr, prop, infos = [], [], []
    for ((c, p, i), hist, counts, samples) in outs:
        corr.extend(c)
        prop.extend(p)
        infos.extend(i)
        for k, v in hist.items():
            res.bump(k, v)
        for key, nt in counts:
            res.count(key, nt)
        for smp in samples[:1]:
            res.sample(smp, cap=3)
    return corr, prop, infos


def correspondence(res):
    n_specs = 70 if res.tier == "quick" else 280
    corr, prop, infos = generate(res, n_specs, 6)
    cc = common.run_case_codes("C04", "corr", HEADER, corr, "c04_corr", chunk=40, ctype=CT)
    pc = common.run_case_codes("C04", "prop", HEADER, prop, "c04_prop", chunk=60, ctype=PT)
    res.coverage["rule"] = ("random grammars (1-4 nonterminals, all body kinds; str+regex or bytes+bits terminals, recursion) x words from the grammar's own "
                            "fuzzer, one-edit near-misses and the empty word (<= 10 units); real Grammar.parse_forest vs the chart model on the exported "
                            "compiled rules (forests compared as sets), and every implementation tree judged by derives_b / yield / no-helper. "
                            "non-trivial = word of >= 2 units and >= 3 reachable compiled rules; distinct by (spec, word)")
    # forests are compared as sets; with empty-deriving nonterminals the implementation and the chart model may enumerate different subsets of the
    # (valid) empty derivations -- completeness is C05's subject, every implementation tree is still judged by c04_prop below
    bad = [i for i, v in enumerate(cc) if v not in (1, 5)]
    soft = [i for i in bad if infos[i].get("empty_deriving_nonterminals")]
    if soft:
        mc = common.run_case_codes("C04", "corr_me", HEADER, [corr[i] for i in soft], "c04_corr_modulo_empty", chunk=40, ctype=CT)
        same = {i for i, v in zip(soft, mc) if v in (1, 5)}
        res.bump("forest_differs_only_in_empty_derivations", len(same))
        bad = [i for i in bad if i not in same]
    res.bump("model_out_of_fuel", sum(1 for v in cc if v == 5))
    res.coverage["traces_validated_against_impl"] = sum(1 for v in cc if v == 1)
    for i, v in enumerate(pc):
        if v is None:
            raise Broken("property evaluation failed (case file)", repr(infos[i]))
        if v != 1 and len(res.violations) < 3:
            res.violation("a yielded tree is not a derivation of the grammar for exactly the input (derives_b / yield / helper symbols)", infos[i])
    api_clause(res)
    res.coverage["rule"] += (" Public API: Fandango.parse() on schema grammars with 1-3 generated constraints x words fuzzed from the bare grammar; every yielded "
                             "tree must spell out the word and satisfy every constraint in the documented meaning (judged in Coq).")
    if bad:
        detail = dict(infos[bad[0]])
        try:
            parts = split_top(corr[bad[0]][1:-1])
            detail["model_forest"] = common.eval_terms("C04", "dbg", HEADER, [f"parse_m {parts[3]} {parts[0]} {parts[1]} {parts[2]}"])[0][:1500]
        except Exception as e:
            detail["model_forest"] = f"(could not evaluate: {e!r})"
        raise Broken(f"correspondence forest: chart model and implementation differ on {len(bad)}/{len(cc)} cases", repr(detail))


from props.c01 import split_top


def api_worker(args):
    """the public API: Fandango.parse() on specs with constraints; every yielded tree becomes a case for the constraint model"""
    seed, n = args
    import sys
    sys.stderr = open("/dev/null", "w")
    from fandango import Fandango
    from fandango.constraints.repetition_bounds import RepetitionBoundsConstraint
    from props import c02, c07
    import c07lib as L
    c07.quiet()
    res = c07.MiniRes()
    rng = random.Random(seed * 443 + 9)
    terms, infos = [], []
    for _ in range(n):
        spec, nts, judge, texts = c02.make_spec(rng)
        full = spec + "".join(f"where {t}\n" for t in texts)
        try:
            fan = Fandango(full)
            ex = L.ConstraintExport()
            irs = [ex.export(c) for c in fan.constraints if not isinstance(c, RepetitionBoundsConstraint)]
            if judge:
                fj = Fandango(spec + f"where {judge}\n")
                irs += [ex.export(c) for c in fj.constraints if not isinstance(c, RepetitionBoundsConstraint)]
        except Exception:
            res.bump("api_spec_rejected")
            continue
        for _w in range(6):
            random.seed(rng.randrange(1 << 30))
            try:
                word = str(fan.grammar.fuzz("<start>", max_nodes=rng.choice([5, 15, 30])))
                if len(word) > 40:
                    continue
                trees = common.guarded(lambda: list(fan.parse(word)), 10)
            except (Exception, common.ImplTimeout) as e:
                res.bump("api_parse_raised_" + type(e).__name__)
                continue
            res.bump("api_words")
            res.bump("api_words_accepted" if trees else "api_words_rejected")
            for t in trees[:3]:
                if str(t) != word:
                    terms.append(None)
                    infos.append({"spec": full, "word": word, "yielded": str(t), "problem": "the tree yielded by Fandango.parse() does not spell out the input"})
                    continue
                pt = L.PT(t)
                table = {}
                try:
                    for ir in irs:
                        L.collect(pt, ex.atoms, ir, {}, [], True, table)
                        L.collect(pt, ex.atoms, ir, {}, [], False, table)
                except Exception as e:
                    res.bump("api_oracle_failed_" + type(e).__name__)
                    continue
                if len(table) > 400 or t.size() > 150:
                    continue
                terms.append(f"({export.export_tree(t)}, {coq_list([L.coq_constr(i) for i in irs])}, {L.coq_oracle(table)})")
                infos.append({"spec": full, "judge_constraint_for_repetitions": judge, "word": word})
                res.count(("api", full, word), nontrivial=True)
    return (terms, infos), res.hist, res.counts, res.samples


CONVERTER_SPEC = ('<start> ::= <enc>\n<enc> ::= <digit>+ := str(int(<raw>) * 2)\n<raw> ::= <digit>+ := str(int(<enc>) // 2)\n'
                  '<digit> ::= "0" | "1" | "2" | "3" | "4" | "5" | "6" | "7" | "8" | "9"\nwhere int(<raw>) > 5\n')


def api_converter_probe(res):
    """a constraint on a nonterminal that exists only as a generator argument (derived through a converter when parsing):
    the API must judge it on the tree WITH its derived arguments.  Oracle: plain arithmetic."""
    from fandango import Fandango
    fan = Fandango(CONVERTER_SPEC)
    rng = random.Random(res.seed + 77)
    words = [str(i) for i in range(0, 16)] + ["007", "020"] + [str(rng.randrange(0, 400)) for _ in range(12)]
    for w in words:
        want = int(w) // 2 > 5
        try:
            got = any(str(t) == w for t in common.guarded(lambda: list(fan.parse(w)), 10))
        except common.ImplTimeout:
            continue
        except Exception:
            got = False
        res.count(("api-converter", w), nontrivial=True)
        res.bump("api_converter_words")
        if got != want and len(res.violations) < 3:
            res.violation("Fandango.parse() " + ("yields a tree for an input outside" if got else "yields no tree for an input inside") +
                          " the constrained language (constraint on a generator argument derived by a converter)",
                          {"spec": CONVERTER_SPEC, "word": w, "raw_derived_by_converter": int(w) // 2, "constraint": "int(<raw>) > 5"})


def api_clause(res):
    from props import c02
    api_converter_probe(res)
    W = 14
    n = 56 if res.tier == "quick" else 224
    terms, infos = c02.parallel(res, api_worker, [(res.seed * 1000 + 700 + w, max(1, n // W)) for w in range(W)])
    idx = [i for i, t in enumerate(terms) if t is not None]
    codes = common.run_case_codes("C04", "api", API_HEADER, [terms[i] for i in idx], "c07_all_hold", chunk=80, ctype=API_T)
    known, _ = common.load_known("C07")
    sigs = {k["signature"] for k in known}
    for i, t in enumerate(terms):
        if t is None and len(res.violations) < 3:
            res.violation(infos[i]["problem"], infos[i])
    for i, v in zip(idx, codes):
        if v == 1:
            continue
        if v == 2 and "desc-includes-base" in sigs:
            res.known("desc-includes-base (see C07): a tree yielded by the API violates a constraint only in the documented reading of `..`")
        elif v in (4, None):
            raise Broken("API clause inconclusive (oracle entry missing / case file failed)", repr(infos[i]))
        elif len(res.violations) < 3:
            res.violation("Fandango.parse() yielded a tree that does not satisfy a constraint of its spec (documented meaning, judged in Coq)", infos[i])
    res.coverage["api_trees_judged"] = len(codes)


def search(res):
    pass


def replay(res, rp):
    print("replay: re-run ./check C04 with the same VERIF_SEED; case:", str(rp.get("replay"))[:600])
    return 0
