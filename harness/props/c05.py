"""C05 -- what Fandango generates, Fandango parses back; every word of the language is accepted."""
import random

import common
import earley
import export
import gen_grammar
from common import Broken, coq_bool, coq_nat, coq_string

FILES = ["Base/Re.v", "Base/Grammar.v", "Model/ReplaceM.v", "Model/C01Case.v", "Model/EarleyM.v", "Model/C04Case.v", "Model/C05Case.v",
         "Proofs/C04.v", "Proofs/C05.v", "Props/C05.v"]
HEADER = ("From Coq Require Import List String NArith Bool Arith.\n"
          "From FV Require Import Base.Re Base.Grammar Model.ReplaceM Model.C01Case Model.EarleyM Model.C04Case Model.C05Case.\n"
          "Import ListNotations.\nOpen Scope string_scope.\nOpen Scope list_scope.\n")
CT = "(grammar * crules * string * input * tree * bool * nat)"
FUEL = 600

KNOWN = {
    2: ("empty-regex-match", "a regex terminal that matches the empty string at the current position is treated as 'no match' by scan_regex: "
                             "words whose derivation uses the empty instance are rejected (e.g. <start> ::= r\"a*\" \"b\" rejects \"b\")"),
    3: ("nullable-reprediction", "an empty-deriving nonterminal that is predicted again in a column after its empty completion was processed is never "
                                 "completed again (e.g. <a> ::= <e>; <b> ::= <e>; <e> ::= \"\"; <start> ::= <a> <b> \"x\" rejects \"x\")"),
}


def obligations(res):
    rc, out = common.make([common.vo(f) for f in FILES])
    res.coverage["obligations"] = common.count_obligations(FILES)
    res.coverage["checker_cmd"] = "coqc (make -f Makefile.coq) + Print Assumptions in Props/C05.v"
    if rc != 0:
        raise Broken("C05 theorems (Proofs/C05.v) no longer compile", out)
    n, ax = common.check_props("C05")
    res.coverage["discharged"] = res.coverage["obligations"]
    res.coverage["trusted_base"] = ax or ["Closed under the global context (no axioms)"]
    res.assumptions += [
        "Coq kernel + vm_compute; no axioms",
        "PARTIAL: Earley completeness of the chart model is not proved (only one-step scanner completeness and the two _refuted witnesses); "
        "the property is decided by search: members of the language are certified in Coq by the verified checker derives_b on a witness tree "
        "(from Fandango's own generator and from an independent derivation sampler), the implementation must accept them; a rejection that the "
        "faithful chart model reproduces and that carries a recorded signature is a known finding, any other rejection is a violation",
        "repetition cap: words are kept within the cap the parser was built with (docs: repetitions are limited by --max-repetitions)",
    ]


# ------------------------------------------------------------------ independent derivation sampler (not fandango's fuzzer)

REGEX_INSTANCES = {"a.c": ["abc", "a.c", "a c"], "[ab]": ["a", "b"], "a*": ["", "a", "aaa"], "[0-9]+": ["7", "42"], "(a|b)c?": ["a", "bc"],
                   "x{1,3}": ["x", "xxx"], "[a-c][0-1]": ["a0", "c1"], "\\d": ["5"]}


def sample(rng, g, node, depth):
    """returns a list of (real) DerivationTree children spelling one expansion of `node`"""
    from fandango.language.grammar.nodes.alternative import Alternative
    from fandango.language.grammar.nodes.concatenation import Concatenation
    from fandango.language.grammar.nodes.repetition import Repetition
    from fandango.language.grammar.nodes.non_terminal import NonTerminalNode
    from fandango.language.grammar.nodes.terminal import TerminalNode
    from fandango.language.tree import DerivationTree
    from fandango.language.symbols.terminal import Terminal
    if depth > 12:
        raise RecursionError()
    if isinstance(node, Alternative):
        alts = list(node.alternatives)
        rng.shuffle(alts)
        last = None
        for a in alts:
            try:
                return sample(rng, g, a, depth + 1)
            except RecursionError as e:
                last = e
        raise last
    if isinstance(node, Concatenation):
        out = []
        for a in node.nodes:
            out.extend(sample(rng, g, a, depth + 1))
        return out
    if isinstance(node, Repetition):
        mx = node.internal_max
        hi = (node.min + 2) if mx is None else mx
        n = rng.randint(node.min, min(hi, node.min + 2))
        out = []
        for _ in range(n):
            out.extend(sample(rng, g, node.node, depth + 1))
        return out
    if isinstance(node, NonTerminalNode):
        return [DerivationTree(node.symbol, sample(rng, g, g.rules[node.symbol], depth + 1))]
    if isinstance(node, TerminalNode):
        s = node.symbol
        if s.is_regex:
            pat = s.value()._value
            key = pat.decode("latin-1") if isinstance(pat, bytes) else pat
            inst = rng.choice(REGEX_INSTANCES.get(key, [None]))
            if inst is None:
                raise KeyError(key)
            return [DerivationTree(Terminal(inst.encode("latin-1") if isinstance(pat, bytes) else inst))]
        return [DerivationTree(s)]
    raise TypeError(type(node))


def serialise(t, is_bytes):
    return bytes(t) if is_bytes else str(t)


def gen_worker(args):
    seed, n_specs, per_spec = args
    import sys
    sys.stderr = open("/dev/null", "w")
    sys.setrecursionlimit(4000)
    from fandango import Fandango
    from fandango.language.tree import DerivationTree
    from fandango.language.symbols.non_terminal import NonTerminal
    from props import c07
    c07.quiet()
    res = c07.MiniRes()
    rng = random.Random(seed * 131 + 17)
    terms, infos = [], []
    tries = 0
    while len(infos) < n_specs * per_spec and tries < n_specs * 12:
        tries += 1
        is_bytes = rng.random() < 0.3
        kinds = rng.choice([("bytes",), ("bytes", "bits")]) if is_bytes else rng.choice([("str",), ("str", "regex"), ("str", "regex")])
        spec = gen_grammar.gen_spec(rng, kinds=kinds, depth=rng.randint(1, 3), n_nt=rng.randint(1, 4))
        if rng.random() < 0.2:
            spec = gen_grammar.gen_nullable_spec(rng)
            is_bytes = 'b"' in spec
        try:
            fan = Fandango(spec)
            g = fan.grammar
            if earley.nonterminating_signature(g):
                res.bump("spec_skipped_C06_signature")
                continue
            rx = earley.RulesExport(g)
            gx = export.GrammarExport(g)
        except Exception as e:
            res.bump("spec_skipped_" + type(e).__name__)
            continue
        for j in range(per_spec):
            try:
                if j % 2 == 0:
                    random.seed(rng.randrange(1 << 30))
                    wt = g.fuzz("<start>", max_nodes=rng.choice([3, 8, 20]))
                    src = "fandango-fuzz"
                else:
                    wt = DerivationTree(NonTerminal("<start>"), sample(rng, g, g.rules[NonTerminal("<start>")], 0))
                    src = "independent-sampler"
                w = serialise(wt, is_bytes)
            except Exception as e:
                res.bump("witness_failed_" + type(e).__name__)
                continue
            if len(w) > 12:
                continue
            try:
                forest = common.guarded(lambda: earley.forest(g, w), 1.5)
            except common.ImplTimeout:
                res.bump("impl_gave_up_1.5s")
                break
            except (Exception, common.ImplTimeout) as e:
                res.bump("impl_raised_" + type(e).__name__)
                forest = []
            same = [t for t in forest if serialise(t, is_bytes) == w]
            acc = len(same) > 0
            gx.announce_tree(wt)
            terms.append(f"({gx.term()}, {rx.term}, {coq_string('<start>')}, {rx.input_term(w)}, {export.export_tree(wt)}, {coq_bool(acc)}, {coq_nat(FUEL)})")
            infos.append({"spec": spec, "word": repr(w), "witness_from": src, "witness": str(export.tree_py(wt))[:300], "impl_accepts": acc,
                          "has_regex": len(rx.regexes) > 0})
            res.count(("member", spec, repr(w)), nontrivial=len(w) >= 2)
            res.bump(src)
            res.bump("impl_accepts" if acc else "impl_rejects")
    if infos:
        res.sample(infos[0])
    return (terms, infos), res.hist, res.counts, res.samples


CONSTRAINED = [
    ('<start> ::= <k> "=" <v>\n<k> ::= <c>+\n<v> ::= <d>{1,3}\n<c> ::= "a" | "b"\n<d> ::= "0" | "1"\nwhere len(str(<k>)) == 2\nwhere int(<v>) >= 1\n'),
    ('<start> ::= <n> <x>{int(<n>)} ";"\n<n> ::= "1" | "2" | "3"\n<x> ::= "p" | "q"\nwhere str(<start>).count("p") >= 1\n'),
    ('<start> ::= <e>\n<e> ::= "(" <e> ")" | <t>\n<t> ::= <d> | <d> <d>\n<d> ::= "0" | "1" | "2"\nwhere str(<t>) != "00"\n'),
    # ambiguous words of which only one derivation satisfies the constraint (the separator is an element of the repetitions around it)
    ('<start> ::= <key> "=" <value> ";"\n<key> ::= <char>+\n<value> ::= <char>+\n<char> ::= "a" | "b" | "="\nwhere not str(<value>).startswith("=")\n'),
    ('<start> ::= <key> "=" <value> ";"\n<key> ::= <char>*\n<value> ::= <char>+\n<char> ::= "a" | "="\nwhere not str(<key>).endswith("=")\nwhere len(str(<value>)) >= 2\n'),
]


def sep_words(rng, k):
    """words of the two separator grammars and whether SOME derivation satisfies the constraints (brute force over the cut)"""
    out = []
    for _ in range(k):
        body = "".join(rng.choice("aa=b===") for _ in range(rng.randint(2, 8)))
        out.append(body + ";")
    return out


def sep_expected(spec_index, w):
    if not w.endswith(";"):
        return False
    body = w[:-1]
    alpha = "ab=" if spec_index == 3 else "a="
    if any(c not in alpha for c in body):
        return False
    for i, c in enumerate(body):
        if c != "=":
            continue
        key, value = body[:i], body[i + 1:]
        if spec_index == 3:
            if key and value and not value.startswith("="):
                return True
        else:
            if value and not key.endswith("=") and len(value) >= 2:
                return True
    return False


def roundtrip_constrained(res, n):
    """the --validate contract: every solution of a constrained spec parses back (API parse, constraints included)"""
    from fandango import Fandango
    from props import c07
    c07.quiet()
    rng = random.Random(res.seed * 7 + 1)
    for i in range(n):
        spec = CONSTRAINED[i % len(CONSTRAINED)]
        fan = Fandango(spec)
        random.seed(rng.randrange(1 << 30))
        try:
            sols = common.guarded(lambda: fan.fuzz(desired_solutions=5, max_generations=10, population_size=15), 20)
        except (Exception, common.ImplTimeout) as e:
            res.bump("validate_run_raised_" + type(e).__name__)
            continue
        for s in sols:
            w = str(s)
            try:
                back = list(common.guarded(lambda: fan.parse(w), 5))
            except (Exception, common.ImplTimeout) as e:
                back = []
            ok = any(str(t) == w for t in back)
            res.count(("validate", spec, w), nontrivial=True)
            res.bump("validate_ok" if ok else "validate_failed")
            if not ok and len(res.violations) < 3:
                res.violation("a solution emitted by fuzz() is not parsed back by the same spec (API parse with constraints)",
                              {"spec": spec, "solution": w, "parse_back": [str(t) for t in back][:3]})
        si = i % len(CONSTRAINED)
        if si in (3, 4):
            # independently enumerated words: accepted through the API exactly when some derivation satisfies the constraints
            for w in sep_words(rng, 200):
                want = sep_expected(si, w)
                try:
                    got = any(str(t) == w for t in common.guarded(lambda: list(fan.parse(w)), 5))
                except common.ImplTimeout:
                    continue
                except Exception:
                    got = False
                res.count(("validate-enumerated", spec, w), nontrivial=True)
                res.bump("enumerated_accepted" if got else "enumerated_rejected")
                if want and not got and len(res.violations) < 3:
                    res.violation("a word one of whose derivations satisfies the constraints is not accepted through the API (that derivation is missing from the forest)",
                                  {"spec": spec, "word": w})
                elif got and not want and len(res.violations) < 3:
                    res.violation("a word none of whose derivations satisfies the constraints is accepted through the API", {"spec": spec, "word": w})


def probe_utf8_text_in_binary(res, sigs):
    """recorded finding: a non-ASCII str literal in a binary grammar is serialised as UTF-8 but matched as Latin-1"""
    from fandango import Fandango
    spec = '<start> ::= "\u00e9" b"x"\n'
    fan = Fandango(spec)
    t = fan.grammar.fuzz("<start>")
    w = bytes(t)
    back = [x for x in fan.grammar.parse_forest(w) if bytes(x) == w]
    res.count(("probe-utf8", w), nontrivial=True)
    if not back:
        if "utf8-text-in-binary-grammar" in sigs:
            res.known("utf8-text-in-binary-grammar: '<start> ::= \"\u00e9\" b\"x\"' generates b'\\xc3\\xa9x' which the same grammar does not parse "
                      "(text is serialised as UTF-8 but compared after Latin-1 decoding)")
        else:
            res.violation("a generated word is not parsed back (non-ASCII text literal in a binary grammar)", {"spec": spec, "word": repr(w)})


def probes(res, sigs):
    """the recorded findings, replayed on the implementation on every run (their minimal witnesses)"""
    from fandango import Fandango
    cases = [("empty-regex-match", '<start> ::= r"a*" "b"\n', "b"),
             ("nullable-reprediction", '<start> ::= <a> <b> "x"\n<a> ::= <e>\n<b> ::= <e>\n<e> ::= ""\n', "x"),
             ("cap-frozen-at-construction", '<start> ::= "a"{2,}\n', "a" * 25)]
    for sig, spec, word in cases:
        g = Fandango(spec).grammar
        try:
            acc = common.guarded(lambda: any(str(t) == word for t in g.parse_forest(word)), 5)
        except (Exception, common.ImplTimeout):
            acc = False
        res.count(("probe", sig), nontrivial=True)
        if acc:
            continue
        if sig in sigs:
            res.known(f"{sig}: {spec.strip()!r} does not accept {word!r}")
        else:
            res.violation(f"a word of the language is rejected ({sig})", {"spec": spec, "word": word})


def correspondence(res):
    from props import c02
    W = 14
    n_specs = 70 if res.tier == "quick" else 280
    terms, infos = c02.parallel(res, gen_worker, [(res.seed * 1000 + w, max(1, n_specs // W), 6) for w in range(W)])
    codes = common.run_case_codes("C05", "prop", HEADER, terms, "c05_prop", chunk=40, ctype=CT)
    res.coverage["rule"] = ("random grammars (str+regex incl. empty-matching regexes, bytes+bits; optional parts, nested repetitions) x members of their "
                            "language: half from Fandango's own generator, half from an independent derivation sampler; each member is certified in Coq "
                            "(derives_b on the witness, yield = word) and must be accepted by Grammar.parse_forest with an identical serialisation; "
                            "plus round trips of solutions of constrained specs through the API parse. non-trivial = word of >= 2 units; distinct by (spec, word)")
    known, _ = common.load_known("C05")
    sigs = {k["signature"] for k in known}
    res.coverage["traces_validated_against_impl"] = sum(1 for v in codes if v == 1)
    broken = None
    for i, v in enumerate(codes):
        if v == 1:
            continue
        if v in (2, 3) and KNOWN[v][0] in sigs:
            res.known(f"{KNOWN[v][0]}: {KNOWN[v][1]}")
            res.bump("known_" + KNOWN[v][0])
        elif v == 7 and infos[i]["has_regex"]:
            # the property's class excludes regex terminals that can be split in more than one way between neighbouring symbols;
            # only re.match's greedy match is considered by the parser (and by the faithful model)
            res.bump("outside_stated_class_regex_split")
        elif v == 6 or v is None:
            broken = broken or Broken("a witness was not certified as a member (harness/sampler error) or a case file failed", repr(infos[i]))
        elif len(res.violations) < 3:
            what = {0: "a certified member of the language is rejected although the faithful chart model accepts it",
                    7: "a certified member of the language is rejected (by implementation and chart model) without a recorded signature",
                    2: KNOWN[2][1], 3: KNOWN[3][1]}[v]
            res.violation(what, infos[i])
    probe_utf8_text_in_binary(res, sigs)
    probes(res, sigs)
    roundtrip_constrained(res, 10 if res.tier == "quick" else 40)
    if broken:
        raise broken


def search(res):
    pass


def replay(res, rp):
    print("replay: re-run ./check C05 with the same VERIF_SEED; case:", str(rp.get("replay"))[:600])
    return 0
