"""C06 -- parsing always terminates."""
import random

import common
import earley
import gen_grammar
from common import Broken, coq_N, coq_bool, coq_nat, coq_string

FILES = ["Base/Re.v", "Base/Grammar.v", "Model/ReplaceM.v", "Model/C01Case.v", "Model/EarleyM.v", "Model/EarleyFuelM.v", "Model/C06Case.v",
         "Proofs/C06.v", "Props/C06.v"]
HEADER = ("From Coq Require Import List String NArith Bool Arith.\n"
          "From FV Require Import Base.Re Base.Grammar Model.ReplaceM Model.C01Case Model.EarleyM Model.EarleyFuelM Model.C06Case.\n"
          "Import ListNotations.\nOpen Scope string_scope.\nOpen Scope list_scope.\n")
CT = "(crules * string * input * nat * N * bool)"
FUEL = 150
BUDGET = 12000

KNOWN = ("nullable-loop: parsing does not terminate when an empty-deriving body stands under a repetition, or a nonterminal derives itself "
         "through empty-deriving context (Column.add admits states that differ only in ever longer child lists)")


KNOWN2 = ("prefix-mode-left-recursion: in prefix (INCOMPLETE) mode the end-of-input pass completes unfinished states; with a left-recursive "
          "nonterminal this admits states without end (or dies with RecursionError)")


def obligations(res):
    rc, out = common.make([common.vo(f) for f in FILES])
    res.coverage["obligations"] = common.count_obligations(FILES)
    res.coverage["checker_cmd"] = "coqc (make -f Makefile.coq) + Print Assumptions in Props/C06.v"
    if rc != 0:
        raise Broken("C06 theorems (Proofs/C06.v) no longer compile", out)
    n, ax = common.check_props("C06")
    res.coverage["discharged"] = res.coverage["obligations"]
    res.coverage["trusted_base"] = ax or ["Closed under the global context (no axioms)"]
    res.assumptions += [
        "Coq kernel + vm_compute; no axioms",
        "PARTIAL: no general termination theorem for the chart (none holds: see C06_nullable_loop_refuted_sampled); termination of the model run is "
        "established per case by the out-of-fuel flag, whose meaning is C06_terminated_is_stable_partial; the implementation is run under a "
        "deterministic budget of admitted states (a counting wrapper around Column.add), never under a wall-clock verdict",
        "grammars matching the recorded signature (empty-deriving body under a repetition / unit cycle) are reported as KNOWN-FINDING",
    ]


class BudgetExceeded(BaseException):
    pass


class Counter:
    """deterministic budgets: states admitted to columns (Column.add) and parse states constructed at all
    (a loop that keeps building states without admitting any is caught by the second one)"""

    def __init__(self, budget, budget_created=60000, budget_nodes=400000):
        self.n, self.budget = 0, budget
        self.created, self.budget_created = 0, budget_created
        self.nodes, self.budget_nodes = 0, budget_nodes       # tree nodes built by the parser (a loop that only wraps trees is caught by this one)

    def install(self):
        import fandango.language.grammar.parser.column as col
        import fandango.language.grammar.parser.parse_state as ps
        self.col = col
        self.ps = ps
        self.orig = col.Column.add
        self.orig_init = ps.ParseState.__init__
        me = self

        def init(self_, *a, **k):
            me.created += 1
            if me.created > me.budget_created:
                raise BudgetExceeded()
            return me.orig_init(self_, *a, **k)
        ps.ParseState.__init__ = init
        import fandango.language.grammar.parser.parser_tree as ptm
        self.ptm = ptm
        self.orig_node_init = ptm.ParserDerivationTree.__init__

        def node_init(self_, *a, **k):
            me.nodes += 1
            if me.nodes > me.budget_nodes:
                raise BudgetExceeded()
            return me.orig_node_init(self_, *a, **k)
        ptm.ParserDerivationTree.__init__ = node_init

        def add(self_, state):
            r = me.orig(self_, state)
            if r:
                me.n += 1
                if me.n > me.budget:
                    raise BudgetExceeded()
            return r
        col.Column.add = add

    def uninstall(self):
        self.col.Column.add = self.orig
        self.ps.ParseState.__init__ = self.orig_init
        self.ptm.ParserDerivationTree.__init__ = self.orig_node_init


NULLABLE_BITS = ['""', '"a"?', '"b"*', '("a" | "")', '<e>', '<e>?', '("a"?)*', '(<e> "b"?)+', '<start>?', '"a"{0,2}']


# repetitions with computed bounds under left / right / nested recursion.  The chart model has no computed bounds: it is consulted on the variant in
# which the computed bound is replaced by the constant range of the length field (a superset grammar with the same shape)
COMPUTED = [
    ('<start> ::= <list>\n<list> ::= <list> <item> | <item>\n<item> ::= <len> <letter>{int(<len>)}\n<len> ::= "1" | "2" | "3"\n<letter> ::= "a" | "b"\n',
     ["2ab", "1a2ba", "3aab1b", "2a", "1a1b1a", ""]),
    ('<start> ::= <item> <start> | <item>\n<item> ::= <len> <letter>{int(<len>)}\n<len> ::= "1" | "2" | "3"\n<letter> ::= "a" | "b"\n',
     ["2ab", "1a2ba", "3aab1b", "2a", "1a1b1a"]),
    ('<start> ::= <e>\n<e> ::= <e> "+" <t> | <t>\n<t> ::= "(" <e> ")" | <len> <letter>{int(<len>)}\n<len> ::= "1" | "2" | "3"\n<letter> ::= "a" | "b"\n',
     ["2ab+1a", "(1a+2bb)", "(2ab)+(1a)+3aaa", "1a+", "((1b))"]),
    ('<start> ::= <len> <blk>{int(<len>)}\n<blk> ::= <blk> "x" | <len> <letter>{int(<len>)}\n<len> ::= "1" | "2" | "3"\n<letter> ::= "a" | "b"\n',
     ["21a2ab", "11ax", "22abxx1b", "31a1a1a", "21a"]),
]


def constant_variant(spec):
    return spec.replace("{int(<len>)}", "{1,3}")


def gen_spec(rng):
    """grammars biased towards empty-deriving symbols, nested repetitions, left/right/mutual recursion"""
    if rng.random() < 0.12:
        # repetitions whose input can be cut into elements in several ways (no empty-deriving symbol anywhere)
        return rng.choice(['<start> ::= <x>+\n<x> ::= "a" | "aa" | "b"\n', '<start> ::= <x>* "c"\n<x> ::= "a" | "ab" | "b" | "ba"\n',
                           '<start> ::= <op>* "b"\n<op> ::= "a" | "aa" | "c"\n', '<start> ::= (<x> | <x> <x>)+\n<x> ::= "a" | "b"\n'])
    if rng.random() < 0.15:
        # empty-matching regexes under repetitions (a regex terminal never matches the empty string for the parser)
        return rng.choice(['<start> ::= <ws>+ "b"\n<ws> ::= r"[ab]*"\n', '<start> ::= r"a*"+ "b"\n', '<start> ::= (r"a?" "c"?)* "b"\n',
                           '<start> ::= <x>* "c"\n<x> ::= r"b*" | "a"\n'])
    if rng.random() < 0.5:
        return gen_grammar.gen_spec(rng, kinds=rng.choice([("str",), ("str", "regex")]), depth=rng.randint(1, 3), n_nt=rng.randint(1, 4))
    lines = []
    alts = []
    for _ in range(rng.randint(1, 3)):
        parts = [rng.choice(NULLABLE_BITS + ['"a"', '"b"', "<x>", "<x>", "<start>"]) for _ in range(rng.randint(1, 3))]
        alts.append(" ".join(parts))
    alts.append(rng.choice(['"a"', '"b" <x>', "<x>"]))
    lines.append("<start> ::= " + " | ".join(alts))
    lines.append("<x> ::= " + rng.choice(['"a" | "b"', '"a" <x> | "b"', '<x> "a" | "b"', '<e> "a" | <start> "b" | "c"', '<e> <e> "b"', '(<e> | "a"){1,3}']))
    lines.append("<e> ::= " + rng.choice(['""', '"" | "a"', '<e2>', '"a"?', '<e2> <e2>']))
    lines.append('<e2> ::= ""')
    return "\n".join(lines) + "\n"


def gen_worker(args):
    seed, n = args
    import sys
    sys.stderr = open("/dev/null", "w")
    sys.setrecursionlimit(6000)
    from fandango import Fandango
    from fandango.language.grammar import ParsingMode
    from props import c07
    c07.quiet()
    res = c07.MiniRes()
    rng = random.Random(seed * 977 + 5)
    terms, infos = [], []
    tries = 0
    computed = list(COMPUTED) if seed % 1000 in (0, 1) else []
    if seed % 1000 == 1:
        computed.reverse()
    while computed or (len(infos) < n and tries < n * 4):
        tries += 1
        comp = computed.pop(0) if computed else None
        spec = comp[0] if comp else gen_spec(rng)
        try:
            fan = Fandango(spec)
            g = fan.grammar
            rx = earley.RulesExport(Fandango(constant_variant(spec)).grammar if comp else g)
            sig = earley.nonterminating_signature(g)
            lrec = earley.left_recursive(g)
        except Exception as e:
            res.bump("spec_skipped_" + type(e).__name__)
            continue
        if comp:
            res.bump("computed_repetition_specs")
        for w_fixed in (comp[1] if comp else [None, None]):
            w = w_fixed if comp else "".join(rng.choice("abab c") for _ in range(rng.randint(0, 5))).replace(" ", "")
            if "cut into elements in several ways" in spec or spec.startswith("<start> ::= <x>+\n<x> ::= \"a\" | \"aa\"") or '"ab" | "b" | "ba"' in spec \
                    or '<op> ::= "a" | "aa"' in spec or "(<x> | <x> <x>)+" in spec:
                # longer words: several ways of cutting, followed by further elements
                w = "".join(rng.choice("aab") for _ in range(rng.randint(3, 7))) + rng.choice(["", "b", "bb", "c", "ab"])
            mode = rng.choice(["forest", "forest", "first", "prefix"])
            if comp:
                mode = rng.choice(["forest", "first"])
            c = Counter(BUDGET)
            c.install()
            done = True
            try:
                def run():
                    if mode == "forest":
                        return list(g.parse_forest(w))
                    if mode == "first":
                        return g.parse(w)
                    return list(g.parse_forest(w, mode=ParsingMode.INCOMPLETE))
                common.guarded(run, 90)
            except BudgetExceeded:
                done = False
            except common.ImplTimeout:
                res.bump("inconclusive_wall_clock_backstop")      # never a verdict: the case is dropped
                c.uninstall()
                fan = Fandango(spec)
                g = fan.grammar
                continue
            except RecursionError:
                res.bump("impl_recursion_error")
            except Exception as e:
                res.bump("impl_raised_" + type(e).__name__)
            finally:
                c.uninstall()
            if not done:
                fan = Fandango(spec)        # do not reuse an interrupted parser
                g = fan.grammar
            terms.append(f"({rx.term}, {coq_string('<start>')}, {rx.input_term(w)}, {coq_nat(FUEL)}, {coq_N(c.n)}, {coq_bool(done)})")
            infos.append({"spec": spec, "word": w, "request": mode, "impl_states": c.n, "impl_states_created": c.created, "impl_tree_nodes": c.nodes,
                          "model_consulted_on": constant_variant(spec) if comp else "the same grammar", "impl_finished_within_budget": done,
                          "budget": BUDGET, "signature": sig or ("prefix-mode-left-recursion" if (mode == "prefix" and lrec) else None)})
            res.count(("terminates", spec, w, mode), nontrivial=len(w) >= 1)
            res.bump("signature_" + str(sig))
            res.bump("impl_done" if done else "impl_budget_exceeded")
            res.bump("request_" + mode)
    if infos:
        res.sample(infos[0])
    return (terms, infos), res.hist, res.counts, res.samples


def correspondence(res):
    from props import c02
    W = 14
    n = 160 if res.tier == "quick" else 480
    terms, infos = c02.parallel(res, gen_worker, [(res.seed * 1000 + w, max(1, n // W)) for w in range(W)])
    # the model is only consulted for the cases in which the implementation ran out of its budget
    hard = [i for i, inf in enumerate(infos) if not inf["impl_finished_within_budget"]]
    hcodes = common.run_case_codes("C06", "eval", HEADER, [terms[i] for i in hard], "c06_eval", chunk=4, ctype=CT, timeout=600)
    codes = [1] * len(terms)
    for i, v in zip(hard, hcodes):
        codes[i] = v
    res.bump("model_consulted", len(hard))
    res.coverage["rule"] = ("grammars biased towards empty-deriving symbols, nested repetitions, left/right/mutual recursion x words of 0-5 units x request kind "
                            "(whole forest, first tree, prefix mode), plus 4 fixed grammars with computed repetition bounds under left / right / nested recursion (model consulted "
                            "on the constant-bound variant); the implementation runs under budgets of 12000 admitted states, 60000 constructed states and "
                            "400000 parser tree nodes (counting wrapper around "
                            "Column.add), the chart model under fuel 150 per work list; a case where the model run terminates and the implementation exceeds "
                            "50 x model work + 10000 states is a violation. non-trivial = non-empty word; distinct by (spec, word, request)")
    known, _ = common.load_known("C06")
    sigs = {k["signature"] for k in known}
    res.coverage["traces_validated_against_impl"] = sum(1 for v in codes if v == 1)
    for i, v in enumerate(codes):
        if v == 1:
            continue
        if v is None:
            raise Broken("evaluation failed (case file)", repr(infos[i]))
        if infos[i]["signature"] == "prefix-mode-left-recursion" and "prefix-mode-left-recursion" in sigs:
            res.known(KNOWN2)
            res.bump("known_prefix_left_recursion")
        elif infos[i]["signature"] and "nullable-loop" in sigs:
            res.known(KNOWN)
            res.bump("known_nullable_loop")
        elif len(res.violations) < 3:
            what = ("the parser exceeds its state budget on an input for which the chart model terminates" if v == 0 else
                    "neither the parser nor the chart model terminates, and the grammar does not carry the recorded signature")
            res.violation(what, infos[i])


def search(res):
    pass


def replay(res, rp):
    print("replay: re-run ./check C06 with the same VERIF_SEED; case:", str(rp.get("replay"))[:600])
    return 0
