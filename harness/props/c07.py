"""C07 -- constraint verdicts follow the documented selector/quantifier semantics."""
import logging
import random
import re as pyre

import common
import export
import c07lib as L
from common import Broken, coq_list, coq_opt

FILES = ["Base/Re.v", "Base/Grammar.v", "Model/ReplaceM.v", "Model/SearchM.v", "Model/ConstraintM.v", "Model/C07Case.v",
         "Proofs/C07Search.v", "Proofs/C07.v", "Props/C07.v"]
HEADER = ("From Coq Require Import List String ZArith NArith Bool Arith.\n"
          "From FV Require Import Base.Re Base.Grammar Model.ReplaceM Model.SearchM Model.ConstraintM Model.C07Case.\n"
          "Import ListNotations.\nOpen Scope string_scope.\nOpen Scope list_scope.\n")

CT = "(tree * constr * oracle * verdict * verdict)"
FT = "(tree * search * option (list cont))"

SCHEMAS = [
    ("""<start> ::= <item>+
<item> ::= <key> "=" <val> ";" | "(" <item> ")"
<key> ::= <ch>+
<val> ::= <d>+ | <ch>
<ch> ::= "a" | "b" | "c"
<d> ::= "0" | "1" | "7"
""", ["<start>", "<item>", "<key>", "<val>", "<ch>", "<d>"]),
    ("""<start> ::= <e> <e>?
<e> ::= "(" <e> ")" | <t> | <e> "+" <t>
<t> ::= <d> | <d> <d>
<d> ::= "0" | "1" | "2" | "x"
""", ["<start>", "<e>", "<t>", "<d>"]),
    ("""<start> ::= <rec>{1,3}
<rec> ::= <len> <body>
<len> ::= <d>
<body> ::= <w>* | "[" <rec> "]"
<w> ::= "p" | "q" | <d>
<d> ::= "0" | "1" | "2" | "3"
""", ["<start>", "<rec>", "<len>", "<body>", "<w>", "<d>"]),
]


def obligations(res):
    rc, out = common.make([common.vo(f) for f in FILES])
    res.coverage["obligations"] = common.count_obligations(FILES)
    res.coverage["checker_cmd"] = "coqc (make -f Makefile.coq) + Print Assumptions in Props/C07.v"
    if rc != 0:
        raise Broken("C07 theorems (Proofs/C07Search.v, Proofs/C07.v) no longer compile", out)
    n, ax = common.check_props("C07")
    res.coverage["discharged"] = res.coverage["obligations"]
    res.coverage["trusted_base"] = ax or ["Closed under the global context (no axioms)"]
    res.assumptions += [
        "Coq 8.16.1 kernel + vm_compute; no axioms",
        "Python expressions are oracle tables filled by direct eval() on the matched nodes (harness/c07lib.py); the exporters of constraint/search objects and trees are trusted",
        "documented meaning fixed in coq/Model/SearchM.v (den) and ConstraintM.v (ref_m): `..` = proper descendants (docs/Paths.md), an exception anywhere makes the constraint fail",
        "SelectiveSearch ({...} selectors), slices with steps and generator sources are outside the model (exporter fails closed, such constraints are not generated)",
    ]


def quiet():
    from fandango.logger import LOGGER
    LOGGER.setLevel(logging.CRITICAL)


# ------------------------------------------------------------------ constraint text generator

_REL = {}


def relations(nts):
    """child / descendant relations of the schema grammar that declares these nonterminals
    (the front end rejects selectors that can never match)"""
    key = tuple(nts)
    if key in _REL:
        return _REL[key]
    import re as _re
    spec = next(sp for sp, ns in SCHEMAS + EXTRA_SCHEMAS if tuple(ns) == key)
    child = {}
    for line in spec.strip().split("\n"):
        lhs, rhs = line.split("::=")
        child[lhs.strip()] = set(_re.findall(r"<[a-z0-9_]+>", rhs))
    desc = {k: set(v) for k, v in child.items()}
    changed = True
    while changed:
        changed = False
        for k in desc:
            for c in list(desc[k]):
                new = desc.get(c, set()) - desc[k]
                if new:
                    desc[k] |= new
                    changed = True
    _REL[key] = (child, desc)
    return _REL[key]


EXTRA_SCHEMAS = []


def gen_selector(rng, nts, base=None, depth=None):
    child, desc = relations(nts)
    s = base or rng.choice(nts)
    cur = None if (base and base not in child) else s     # bound variables: symbol unknown here
    if base and base not in child:
        return s if rng.random() < 0.6 else s + f"[{rng.choice([0, -1, 1])}]"
    steps = rng.choice([0, 1, 1, 2, 3]) if depth is None else depth
    indexed = False
    for _ in range(steps):
        r = rng.random()
        if r < 0.4 and child.get(cur):
            cur = rng.choice(sorted(child[cur]))
            s += "." + cur
            indexed = False
        elif r < 0.7 and desc.get(cur):
            cur = rng.choice(sorted(desc[cur]))
            s += ".." + cur
            indexed = False
        elif r < 0.88 and not indexed:
            s += f"[{rng.choice([0, 0, 1, -1, 2, 5])}]"
            indexed = True
            if rng.random() < 0.7:
                break
        elif not indexed:
            lo, hi = rng.choice([("", "2"), ("1", ""), ("0", "1"), ("-2", ""), ("1", "3"), ("", "0"), ("1", "0"), ("", "-1")])
            s += f"[{lo}:{hi}]"
            break
    return s


def gen_atom(rng, nts, bound=None):
    sel = lambda: gen_selector(rng, nts, base=bound if (bound and rng.random() < 0.7) else None)
    k = rng.random()
    lit = rng.choice(['"a"', '"0"', '"1"', '"ab"', '"7"', '"x"', '"(1)"'])
    op = rng.choice(["==", "!=", "<", ">=", "<=", ">"])
    n = rng.randint(0, 4)
    if k < 0.2:
        return f"str({sel()}) {rng.choice(['==', '!='])} {lit}"
    if k < 0.35:
        return f"int({sel()}) {op} {n}"
    if k < 0.5:
        return f"len(str({sel()})) {op} {n}"
    if k < 0.6:
        return f"str({sel()}) {rng.choice(['==', '!=', '<'])} str({sel()})"
    if k < 0.7:
        return f"|{sel()}| {op} {n}"
    if k < 0.8:
        return f"{rng.choice(['any', 'all'])}(str(x) {rng.choice(['==', '!='])} {lit} for x in *{sel()})"
    if k < 0.88:
        return f"len([x for x in *{sel()}]) {op} {n}"
    if k < 0.94:
        return f"{sel()} {rng.choice(['==', '!='])} {lit}"
    return f"not (str({sel()}) == {lit})"


def gen_formula(rng, nts, depth=2, bound=None):
    r = rng.random()
    if depth > 0 and r < 0.08:
        # a disjunction / conjunction of constraints inside a quantifier body, every operand depending on the bound variable
        leafy = [n for n in nts if n in ("<ch>", "<d>", "<w>", "<val>", "<key>", "<t>", "<len>", "<x>", "<n>")] or nts
        v = rng.choice(["z", "z", "<x>"])
        lits = rng.sample(['"a"', '"1"', '"0"', '"b"', '"p"', '"2"', '"c"', '"7"'], 2)
        c1, c2 = rng.choice(["==", "!="]), rng.choice(["==", "!=", "<"])
        return (f"{rng.choice(['any', 'all'])}(str({v}) {c1} {lits[0]} {rng.choice(['or', 'or', 'and'])} str({v}) {c2} {lits[1]} "
                f"for {v} in *{gen_selector(rng, nts, base=rng.choice(leafy), depth=0)})")
    if depth <= 0 or r < 0.35:
        return gen_atom(rng, nts, bound)
    if r < 0.5:
        return f"{gen_formula(rng, nts, depth - 1, bound)} and {gen_formula(rng, nts, depth - 1, bound)}"
    if r < 0.65:
        return f"{gen_formula(rng, nts, depth - 1, bound)} or {gen_formula(rng, nts, depth - 1, bound)}"
    if r < 0.72:
        return f"({gen_formula(rng, nts, depth - 1, bound)})"
    if r < 0.82:
        v = rng.choice(["<x>", "<y>"])
        q = rng.choice(["forall", "exists"])
        qsel = gen_selector(rng, nts, base=bound if bound and rng.random() < 0.4 else None)
        if rng.random() < 0.3:
            # a length selector that starts at the bound symbol (counted below the bound node, not over the whole tree)
            child, desc = relations(nts)
            last = pyre.findall(r"<\w+>", qsel)[-1] if not qsel.endswith("]") else None
            suffix = ""
            if last in child and child[last] and rng.random() < 0.75:
                suffix = "." + rng.choice(sorted(child[last])) if rng.random() < 0.6 or not desc.get(last) else ".." + rng.choice(sorted(desc[last]))
            return f"{q} {v} in {qsel}: |{v}{suffix}| {rng.choice(['==', '!=', '<', '>=', '>'])} {rng.randint(0, 3)}"
        return f"{q} {v} in {qsel}: {gen_formula(rng, nts, depth - 1, v)}"
    if rng.random() < 0.6:
        # nested comprehension quantifiers over identifier-bound variables; the inner body mentions the outer variable
        q1, q2 = rng.choice(["any", "all"]), rng.choice(["any", "all"])
        cmp_ = rng.choice(["==", "==", "!=", "<"])
        leafy = [n for n in nts if n in ("<ch>", "<d>", "<w>", "<val>", "<key>", "<t>", "<len>", "<x>", "<n>")] or nts
        s1 = gen_selector(rng, nts, base=rng.choice(leafy), depth=0)
        s2 = gen_selector(rng, nts, base=rng.choice(leafy), depth=0)
        return f"{q1}({q2}(str(y) {cmp_} str(x) for y in *{s1}) for x in *{s2})"
    v = rng.choice(["<x>", "z"])
    q = rng.choice(["any", "all"])
    inner = gen_atom(rng, nts, v if v.startswith("<") else None)
    if not v.startswith("<"):
        inner = f"str({v}) == " + rng.choice(['"a"', '"1"'])
    if rng.random() < 0.5:
        # a formula-level boolean combination inside the quantifier body, every operand depending on the bound variable
        lits = rng.sample(['"a"', '"1"', '"0"', '"b"', '"p"', '"2"'], 2)
        op2 = rng.choice(["or", "or", "and"])
        c1, c2 = rng.choice(["==", "!="]), rng.choice(["==", "!=", "<"])
        inner = f"str({v}) {c1} {lits[0]} {op2} str({v}) {c2} {lits[1]}"
    return f"{q}({inner} for {v} in *{gen_selector(rng, nts)})"


# ------------------------------------------------------------------ implementation side

def path_index(root):
    idx = {}

    def walk(t, p):
        idx[id(t)] = p
        for i, c in enumerate(t.children):
            walk(c, p + (i,))
    walk(root, ())
    return idx


def impl_conts(root, conts):
    from fandango.language import search as S
    from fandango.language.tree import SliceTree
    idx = path_index(root)

    def ref(t):
        if isinstance(t, SliceTree):
            return ("s", tuple(idx[id(c)] for c in t.children))
        return ("p", idx[id(t)])
    out = []
    for c in conts:
        inner = c
        while isinstance(inner, S.AnnotatedContainer):
            inner = inner._inner
        if isinstance(inner, S.Tree):
            out.append(("tree", ref(inner.tree)))
        elif isinstance(inner, S.TreeList):
            out.append(("list", tuple(ref(t) for t in inner.trees)))
        elif isinstance(inner, S.Length):
            out.append(("len", tuple(ref(t) for t in inner.trees)))
        else:
            raise L.Unsupported(type(inner).__name__)
    return out


def verdict(c, tree):
    try:
        return "VTrue" if c.check(tree) else "VFalse"
    except Exception:
        return "VRaise"


def all_searches(c, out):
    k = c[0]
    if k in ("expr", "cmp"):
        out.extend(s for _, s in c[2])
    elif k in ("and", "or"):
        for x in c[1]:
            all_searches(x, out)
    elif k == "imp":
        all_searches(c[1], out)
        all_searches(c[2], out)
    else:
        out.append(c[2])
        all_searches(c[3], out)


def impl_searches(c, out):
    from fandango.constraints.conjunction import ConjunctionConstraint
    from fandango.constraints.disjunct import DisjunctionConstraint
    from fandango.constraints.implication import ImplicationConstraint
    from fandango.constraints.forall import ForallConstraint
    from fandango.constraints.exists import ExistsConstraint
    if isinstance(c, (ConjunctionConstraint, DisjunctionConstraint)):
        for x in c.constraints:
            impl_searches(x, out)
    elif isinstance(c, ImplicationConstraint):
        impl_searches(c.antecedent, out)
        impl_searches(c.consequent, out)
    elif isinstance(c, (ForallConstraint, ExistsConstraint)):
        out.append(c.search)
        impl_searches(c.statement, out)
    else:
        out.extend(c.searches.values())


class MiniRes:
    """collects counts in a worker process"""

    def __init__(self):
        self.hist, self.counts, self.samples = {}, [], []

    def bump(self, k, n=1):
        self.hist[k] = self.hist.get(k, 0) + n

    def count(self, key, nontrivial=True):
        self.counts.append((repr(key), nontrivial))

    def sample(self, s):
        if len(self.samples) < 2:
            self.samples.append(s)


def run_worker(args):
    seed, n_constraints, trees_per = args
    import sys
    sys.stderr = open("/dev/null", "w")
    res = MiniRes()
    out = run(res, seed, n_constraints, trees_per)
    return out, res.hist, res.counts, res.samples


def run_parallel(res, n_constraints, trees_per, workers=14):
    import multiprocessing as mp
    per = max(1, n_constraints // workers)
    jobs = [(res.seed * 1000 + w, per, trees_per) for w in range(workers)]
    with mp.get_context("fork").Pool(workers) as pool:
        outs = pool.map(run_worker, jobs)
    acc = ([], [], [], [])
    for (o, hist, counts, samples) in outs:
        for a, b in zip(acc, o):
            a.extend(b)
        for k, v in hist.items():
            res.bump(k, v)
        for key, nt in counts:
            res.count(key, nt)
        for smp in samples[:1]:
            res.sample(smp, cap=3)
    return acc


def run(res, seed, n_constraints, trees_per):
    from fandango import Fandango
    quiet()
    rng = random.Random(seed * 7 + 77)
    corr_terms, corr_info, find_terms, find_info = [], [], [], []
    attempts = 0
    while len(corr_terms) < n_constraints * trees_per and attempts < n_constraints * 30:
        attempts += 1
        spec, nts = rng.choice(SCHEMAS)
        text = gen_formula(rng, nts, depth=rng.choice([0, 1, 2, 2]))
        full = spec + "where " + text + "\n"
        try:
            fe = Fandango(full, lazy=False)
            fl = Fandango(full, lazy=True)
            if len(fe.constraints) != 1:
                res.bump("skipped_multi")
                continue
            ce, cl = fe.constraints[0], fl.constraints[0]
            ex = L.ConstraintExport()
            ir = ex.export(ce)
        except L.Unsupported as e:
            res.bump("unsupported_" + str(e)[:20])
            continue
        except Exception as e:
            res.bump("rejected_by_front_end")
            continue
        res.bump("constraints")
        g = fe.grammar
        for k in range(trees_per):
            random.seed(rng.randrange(1 << 30))
            try:
                t = g.fuzz("<start>", max_nodes=rng.choice([5, 15, 40]))
            except Exception:
                continue
            if t.size() > 120:
                continue
            pt = L.PT(t)
            table = {}
            try:
                L.collect(pt, ex.atoms, ir, {}, [], True, table)
                L.collect(pt, ex.atoms, ir, {}, [], False, table)
            except Exception as e:
                res.bump("oracle_failed_" + type(e).__name__)
                continue
            if len(table) > 400:
                res.bump("skipped_big_oracle")
                continue
            ie, il = verdict(ce, t), verdict(cl, t)
            term = f"({export.export_tree(t)}, {L.coq_constr(ir)}, {L.coq_oracle(table)}, {ie}, {il})"
            corr_terms.append(term)
            info = {"spec": spec, "constraint": text, "tree": str(export.tree_py(t))[:400], "impl_eager": ie, "impl_lazy": il,
                    "oracle_entries": len(table)}
            corr_info.append(info)
            res.count(("verdict", text, export.tree_py(t)), nontrivial=len(table) >= 2)
            res.bump("impl_" + ie)
            kinds = {x[0] for x in flatten(ir)}
            for kk in kinds:
                res.bump("form_" + kk)
            # selector correspondence
            irs, ims = [], []
            all_searches(ir, irs)
            impl_searches(ce, ims)
            for s_ir, s_im in list(zip(irs, ims))[:3]:
                try:
                    conts = impl_conts(t, s_im.find(t))
                    cterm = coq_opt(coq_list([L.coq_cont(c) for c in conts]))
                    shown = [str(c) for c in conts][:6]
                except IndexError:
                    cterm, shown = "None", "IndexError"
                except Exception as e:
                    res.bump("find_raised_" + type(e).__name__)
                    continue
                find_terms.append(f"({export.export_tree(t)}, {L.coq_search(s_ir)}, {cterm})")
                find_info.append({"spec": spec, "search": s_im.format_as_spec(), "tree": str(export.tree_py(t))[:400], "impl": shown})
                res.count(("find", s_im.format_as_spec(), export.tree_py(t)), nontrivial=s_ir[0] != "rule")
    if corr_info:
        res.sample(corr_info[0])
    if find_info:
        res.sample(find_info[0])
    res.bump("generation_attempts", attempts)
    return corr_terms, corr_info, find_terms, find_info


def flatten(c):
    yield c
    k = c[0]
    if k in ("and", "or"):
        for x in c[1]:
            yield from flatten(x)
    elif k == "imp":
        yield from flatten(c[1])
        yield from flatten(c[2])
    elif k in ("all", "any"):
        yield from flatten(c[3])


KNOWN_DESC = "selector `<A>..<B>` applied to a base node that itself is a <B> includes the base node (docs/Paths.md: proper descendants)"
KNOWN_LAZY = "lazy evaluation answers although eager evaluation raises (IndexError in a selector of a short-circuited operand)"


def correspondence(res):
    n = 220 if res.tier == "quick" else 880
    corr_terms, corr_info, find_terms, find_info = run_parallel(res, n, 3)
    res.coverage["rule"] = ("constraint texts from a sub-language (selector chains with . .. [i] [i:j], |..|, *.., any/all comprehensions, "
                            "forall/exists, and/or/not, comparisons and expressions incl. raising ones) over 3 schema grammars, parsed by fandango's "
                            "front end (eager and lazy), evaluated on fuzzed trees; model check_code and find_m vs implementation (correspondence), "
                            "implementation verdict/find vs documented meaning verdict_doc/den (property). non-trivial = >= 2 oracle entries / "
                            "non-atomic selector; distinct by (constraint, tree)")
    corr = common.run_case_codes("C07", "corr", HEADER, corr_terms, "c07_corr", chunk=100, ctype=CT)
    prop = common.run_case_codes("C07", "prop", HEADER, corr_terms, "c07_prop", chunk=100, ctype=CT)
    fcorr = common.run_case_codes("C07", "find", HEADER, find_terms, "c07_find", chunk=150, ctype=FT)
    fprop = common.run_case_codes("C07", "findd", HEADER, find_terms, "c07_find_doc", chunk=150, ctype=FT)
    known, _ = common.load_known("C07")
    known_sigs = {k["signature"] for k in known}
    broken = None
    res.coverage["traces_validated_against_impl"] = sum(1 for v in corr if v == 1) + sum(1 for v in fcorr if v == 1)
    for name, codes, infos in (("verdict", corr, corr_info), ("find", fcorr, find_info)):
        bad = [i for i, v in enumerate(codes) if v != 1]
        res.bump(f"corr_{name}_disagree", len(bad))
        if bad and broken is None:
            what = "oracle entry missing / case file failed" if codes[bad[0]] in (4, None) else "model and implementation differ"
            broken = Broken(f"correspondence {name}: {what} on {len(bad)}/{len(codes)} cases", repr(infos[bad[0]]))
    for codes, infos, label in ((prop, corr_info, "verdict"), (fprop, find_info, "selector")):
        for i, v in enumerate(codes):
            if v == 1:
                continue
            if v == 2 and "desc-includes-base" in known_sigs:
                res.known("desc-includes-base: " + KNOWN_DESC)
                res.bump("known_desc")
            elif v == 3 and "lazy-selector-raises" in known_sigs:
                res.known("lazy-selector-raises: " + KNOWN_LAZY)
                res.bump("known_lazy")
            elif v in (4, None):
                if broken is None:
                    broken = Broken(f"property evaluation inconclusive ({label})", repr(infos[i]))
            else:
                what = {0: "implementation verdict differs from the documented meaning", 2: KNOWN_DESC, 3: KNOWN_LAZY}[v]
                if len(res.violations) < 3:
                    res.violation(f"{label}: {what}", infos[i])
    text_clause(res)
    if broken:
        raise broken


# ------------------------------------------------------------------ the constraint TEXT as a program (reference reading independent of fandango's front end)

SEL_RE = pyre.compile(r"<\w+>(?:\.\.?<\w+>|\[-?\d*(?::-?\d*)?\])*")
STEP_RE = pyre.compile(r"(\.\.?)(<\w+>)|\[(-?\d*)(?:(:)(-?\d*))?\]")


def ref_selector(text):
    """own reading of a selector text: <A> (.<B> | ..<B> | [i] | [i:j])*  ->  search IR"""
    m = pyre.match(r"<\w+>", text)
    ir, rest = ("rule", m.group(0)), text[m.end():]
    while rest:
        m = STEP_RE.match(rest)
        if m is None:
            raise L.Unsupported("selector text " + text)
        if m.group(1):
            ir = ("attr" if m.group(1) == "." else "desc", ir, ("rule", m.group(2)))
        elif m.group(4):
            ir = ("item", ir, ("slice", int(m.group(3)) if m.group(3) else None, int(m.group(5)) if m.group(5) else None))
        else:
            ir = ("item", ir, ("at", int(m.group(3))))
        rest = rest[m.end():]
    return ir


class TextAtom:
    """the constraint text itself, selectors replaced by names: evaluated by Python, nothing else"""

    def __init__(self, text):
        self.searches = []

        def sub(m):
            name = f"sel_{len(self.searches)}"
            self.searches.append((name, ref_selector(m.group(0))))
            return name
        self.source = SEL_RE.sub(sub, text)
        self.expression = compile(self.source, "<constraint text>", "eval")
        self.local_variables, self.global_variables = {}, {}


def gen_text_formula(rng, nts, k):
    """flat formulas (one Python expression, no and/or at the top: fandango splits those into separately quantified parts)"""
    bs = ["", "0", "1", "2", "-1"]
    def sel():
        s = gen_selector(rng, nts)
        if "[" not in s and rng.random() < 0.5:
            lo, hi = rng.choice(bs), rng.choice(bs)
            s += f"[{lo}:{hi}]" if rng.random() < 0.7 else f"[{rng.choice(['0', '1', '-1'])}]"
        return s
    lit = rng.choice(['"a"', '"0"', '"1"', '"7"', '"x"', '"p"', '""'])
    op = rng.choice(["==", "!=", "<", ">=", "<=", ">"])
    n = rng.randint(0, 4)
    forms = [
        lambda: f"len(str({sel()})) {op} {n}",
        lambda: f"str({sel()}) {rng.choice(['==', '!='])} {lit}",
        lambda: f"{rng.randint(0, 2)} {rng.choice(['<', '<='])} len(str({sel()})) {rng.choice(['<', '<='])} {rng.randint(1, 4)}",
        lambda: f"not str({sel()}) == {lit}",
        lambda: f"not len(str({sel()})) {op} {n}",
        lambda: f"not (str({sel()}) == {lit})",
        lambda: f"{lit} != str({sel()}) != \"b\"",
        lambda: f"int({sel()}) {op} {n}",
    ]
    return forms[k % len(forms)]()


def text_worker(args):
    seed, n_texts, trees_per = args
    import sys
    sys.stderr = open("/dev/null", "w")
    from fandango import Fandango
    quiet()
    res = MiniRes()
    rng = random.Random(seed * 13 + 5)
    terms, infos = [], []
    for k in range(n_texts):
        spec, nts = rng.choice(SCHEMAS)
        text = gen_text_formula(rng, nts, k + seed)
        full = spec + "where " + text + "\n"
        try:
            atom = TextAtom(text)
            fe = Fandango(full, lazy=False)
            fl = Fandango(full, lazy=True)
        except Exception:
            res.bump("text_rejected_by_front_end")
            continue
        ir = ("expr", 0, atom.searches)
        res.bump("text_constraints")
        for _ in range(trees_per):
            random.seed(rng.randrange(1 << 30))
            try:
                t = fe.grammar.fuzz("<start>", max_nodes=rng.choice([5, 15, 40]))
            except Exception:
                continue
            if t.size() > 120:
                continue
            pt = L.PT(t)
            table = {}
            try:
                L.collect(pt, [atom], ir, {}, [], True, table)
                L.collect(pt, [atom], ir, {}, [], False, table)
            except Exception as e:
                res.bump("text_oracle_failed_" + type(e).__name__)
                continue
            if len(table) > 400:
                continue

            def all_verdicts(cs):
                vs = [verdict(c, t) for c in cs]
                return "VRaise" if "VRaise" in vs else ("VTrue" if all(v == "VTrue" for v in vs) else "VFalse")
            ie, il = all_verdicts(fe.constraints), all_verdicts(fl.constraints)
            terms.append(f"({export.export_tree(t)}, {L.coq_constr(ir)}, {L.coq_oracle(table)}, {ie}, {il})")
            infos.append({"spec": spec, "constraint_text": text, "read_by_python_as": atom.source, "selectors": [str(x) for x in atom.searches],
                          "read_by_fandango_as": [c.format_as_spec() for c in fe.constraints], "tree": str(export.tree_py(t))[:400],
                          "impl_eager": ie, "impl_lazy": il, "oracle_entries": len(table)})
            res.count(("text", text, export.tree_py(t)), nontrivial=len(table) >= 1)
            res.bump("text_impl_" + ie)
    return (terms, infos), res.hist, res.counts, res.samples


KNOWN_TEXT = {
    "not-binds-tighter-than-comparison": "`not a == b` is read as `(not a) == b` (formula_comparison is tried before the Python expression): Python reads `not (a == b)`",
    "comparison-chain-read-as-nested": "`a < b < c` is read as `(a < b) < c`: Python reads a chain `a < b and b < c`",
}


def text_signature(text):
    t = text.strip()
    if t.startswith("not ") and not t.startswith("not ("):
        return "not-binds-tighter-than-comparison"
    if len(pyre.findall(r"(?<![<>=!])(?:<=|>=|==|!=|<|>)(?![=>])", SEL_RE.sub("S", t))) >= 2:
        return "comparison-chain-read-as-nested"
    return None


def text_clause(res):
    from props import c02
    W = 14
    n = 28 if res.tier == "quick" else 112
    terms, infos = c02.parallel(res, text_worker, [(res.seed * 1000 + w, n, 3) for w in range(W)])
    codes = common.run_case_codes("C07", "text", HEADER, terms, "c07_prop", chunk=100, ctype=CT)
    known, _ = common.load_known("C07")
    sigs = {k["signature"] for k in known}
    res.coverage["rule"] += (" Constraint TEXTS as programs: flat formulas (all forms of [i] / [i:j] with open, zero, positive and negative bounds, comparison chains, "
                             "`not` before a comparison) read by an own selector reader + Python's eval of the text, verdict_doc in Coq vs the verdict of "
                             "whatever fandango's front end made of the text.")
    for code, inf in zip(codes, infos):
        if code == 1:
            res.bump("text_verdicts_agree")
            continue
        if code in (4, None):
            raise Broken("property evaluation inconclusive (constraint text)", repr(inf))
        if code == 2 and "desc-includes-base" in sigs:
            res.known("desc-includes-base: " + KNOWN_DESC)
            continue
        if code == 3 and "lazy-selector-raises" in sigs:
            res.known("lazy-selector-raises: " + KNOWN_LAZY)
            continue
        sig = text_signature(inf["constraint_text"])
        if sig and sig in sigs:
            res.known(sig + ": " + KNOWN_TEXT[sig])
            res.bump("known_" + sig)
            continue
        if len(res.violations) < 3:
            res.violation("the verdict for a constraint text differs from the truth of its Python expression over all combinations of matches "
                          "(selectors read as documented)", inf)


def search(res):
    pass


def replay(res, rp):
    print("replay: re-run ./check C07 with the same VERIF_SEED; case:", str(rp.get("replay"))[:600])
    return 0
