"""C09 -- a tree's value is the in-order concatenation of its leaves."""
import random

import common
import export
from common import Broken, coq_N, coq_bool, coq_list

FILES = ["Base/Re.v", "Base/Grammar.v", "Model/TreeValueM.v", "Model/C09Case.v", "Proofs/C09.v", "Props/C09.v"]
HEADER = ("From Coq Require Import List NArith Bool Arith String.\n"
          "From FV Require Import Base.Re Base.Grammar Model.TreeValueM Model.C09Case.\n"
          "Import ListNotations.\nOpen Scope string_scope.\nOpen Scope list_scope.\n")
CT = "(tree * list (req * obs))"

KNOWN = ("latin1-pending-text: str() of text leaves followed only by trailing bits re-encodes the text with Latin-1 while "
         "bytes() uses UTF-8 (non-ASCII text: the two views disagree; code points above U+00FF raise)")


def obligations(res):
    rc, out = common.make([common.vo(f) for f in FILES])
    res.coverage["obligations"] = common.count_obligations(FILES)
    res.coverage["checker_cmd"] = "coqc (make -f Makefile.coq) + Print Assumptions in Props/C09.v"
    if rc != 0:
        raise Broken("C09 theorems (Proofs/C09.v) no longer compile", out)
    n, ax = common.check_props("C09")
    res.coverage["discharged"] = res.coverage["obligations"]
    res.coverage["trusted_base"] = ax or ["Closed under the global context (no axioms)"]
    res.assumptions += [
        "Coq kernel + vm_compute; no axioms",
        "hand-written model of TreeValue.append/_reduce_trailing_bits/to_string/to_bytes/to_bits and DerivationTree.value(); "
        "CPython str.encode('utf-8'/'latin-1') is modelled by utf8/latin1 on code points; int() of text is not modelled (only bit-only int())",
        "the tree exporter is trusted",
    ]


TEXTS = ["a", "xy", "", "0", "é", "€", "Aÿ", "\U0001F483", "~"]
BYTES = [b"a", b"\x00", b"\xff\x80", b"", b"xyz", b"\xc3"]


def gen_tree(rng, depth=0, kinds=None):
    from fandango.language.tree import DerivationTree
    from fandango.language.symbols.non_terminal import NonTerminal
    from fandango.language.symbols.terminal import Terminal
    kinds = kinds or rng.choice([("s",), ("s", "b"), ("bit",), ("s", "bit"), ("b", "bit"), ("s", "b", "bit"), ("bit", "b")])

    def leaf():
        k = rng.choice(kinds)
        if k == "s":
            return [DerivationTree(Terminal(rng.choice(TEXTS)))]
        if k == "b":
            return [DerivationTree(Terminal(rng.choice(BYTES)))]
        n = rng.choice([1, 3, 5, 8, 8, 8, 8, 16, 4, 4, 16, 24, 32])   # a run of bits (two 4s or 3+5 across siblings align)
        if n >= 16 and rng.random() < 0.6:
            # a length field holding a small number: whole leading zero bytes, zero bytes in the middle, all zero
            val = rng.choice([0, 1, 65, 255, 256, 300, 65536, rng.randrange(1 << 10)])
            bits = [int(b) for b in format(val % (1 << n), f"0{n}b")]
            return [DerivationTree(Terminal(b)) for b in bits]
        return [DerivationTree(Terminal(rng.randint(0, 1))) for _ in range(n)]

    def node(d):
        kids = []
        for _ in range(rng.choice([1, 2, 2, 3]) if d == 0 else rng.choice([0, 1, 2, 2, 3])):
            if d < 3 and rng.random() < 0.45:
                kids.append(node(d + 1))
            else:
                kids.extend(leaf())
        return DerivationTree(NonTerminal(f"<n{d}>"), kids)
    return node(0)


def observe(t, req):
    from fandango.errors import FandangoConversionError
    try:
        if req == "RStr":
            return ("OStr", str(t))
        if req == "RBytes":
            return ("OBytes", bytes(t))
        if req == "RBits":
            return ("OBits", t.to_bits())
        v = int(t)
        return ("OInt", v)
    except FandangoConversionError:
        return ("OErr", None)
    except ValueError:
        return ("OSkip", None)      # int() of non-numeric text: CPython's int(), not modelled


def obs_term(o):
    k, v = o
    if k == "OStr":
        return "(OStr " + coq_list([coq_N(ord(c)) for c in v]) + ")"
    if k == "OBytes":
        return "(OBytes " + coq_list([coq_N(x) for x in v]) + ")"
    if k == "OBits":
        return "(OBits " + coq_list([coq_bool(c == "1") for c in v]) + ")"
    if k == "OInt":
        return f"(OInt {coq_N(v)})" if v >= 0 else "OSkip"
    return k


def gen_cases(res, n):
    rng = random.Random(res.seed * 11 + 9)
    terms, infos = [], []
    for i in range(n):
        t = gen_tree(rng)
        if t.size() > 150:
            continue
        reqs = [rng.choice(["RStr", "RBytes", "RBits", "RInt"]) for _ in range(rng.randint(1, 6))]
        before = export.tree_py(t)
        obs = [(r, observe(t, r)) for r in reqs]
        after = export.tree_py(t)
        # a later identical request must give the same answer (computing a value changes nothing)
        again = [(r, observe(t, r)) for r in reqs]
        if before != after or [o for _, o in obs] != [o for _, o in again]:
            res.violation("computing a value changed the tree or a later result",
                          {"tree": str(before)[:400], "requests": reqs, "first": str(obs)[:300], "second": str(again)[:300]})
        pairs = coq_list([f"({r}, {obs_term(o)})" for r, o in obs])
        terms.append(f"({export.export_tree(t)}, {pairs})")
        infos.append({"tree": str(before)[:500], "requests": reqs, "impl": [str(o)[:80] for _, o in obs]})
        leaves = export.tree_leaves_raw(t)
        kinds = {l[0] for l in leaves}
        res.count(("value", before, tuple(reqs)), nontrivial=len(leaves) >= 3 and len(kinds) >= 2)
        res.bump("kinds_" + "+".join(sorted(kinds)) if kinds else "kinds_none")
        for _, o in obs:
            res.bump("obs_" + o[0])
    if infos:
        res.sample(infos[0])
        res.sample(infos[len(infos) // 2])
    return terms, infos


def correspondence(res):
    n = 1500 if res.tier == "quick" else 12000
    terms, infos = gen_cases(res, n)
    corr = common.run_case_codes("C09", "corr", HEADER, terms, "c09_corr", chunk=250, ctype=CT)
    prop = common.run_case_codes("C09", "prop", HEADER, terms, "c09_prop", chunk=250, ctype=CT)
    res.coverage["rule"] = ("random trees (depth <= 4) over text (ASCII, Latin-1, BMP, astral), bytes (incl. >= 0x80) and bit-run leaves of "
                            "lengths 1..32 (incl. length-field like runs with leading zero bytes) placed across sibling boundaries x random request sequences str/bytes/to_bits/int on one real tree "
                            "object; model answers vs implementation (correspondence) and implementation vs the leaf-sequence specification "
                            "(property); repeated requests must repeat. non-trivial = >= 3 leaves of >= 2 kinds; distinct by (tree, requests)")
    bad = [i for i, v in enumerate(corr) if v != 1]
    res.coverage["traces_validated_against_impl"] = len(corr) - len(bad)
    known, _ = common.load_known("C09")
    sigs = {k["signature"] for k in known}
    for i, v in enumerate(prop):
        if v == 1:
            continue
        if v == 2 and "latin1-pending-text" in sigs:
            res.known(KNOWN)
            res.bump("known_latin1")
        elif v is None:
            raise Broken("property evaluation failed (case file)", repr(infos[i]))
        elif len(res.violations) < 3:
            res.violation("implementation answer differs from the concatenation of the leaves (specification on the leaf sequence)", infos[i])
    if bad:
        raise Broken(f"correspondence: TreeValue model and implementation differ on {len(bad)}/{len(corr)} cases", repr(infos[bad[0]]))


def search(res):
    pass


def replay(res, rp):
    print("replay: re-run ./check C09 with the same VERIF_SEED; case:", str(rp.get("replay"))[:600])
    return 0
