"""C10 -- tree bookkeeping stays consistent under any edits; edits never alias."""
import copy
import random

import common
from common import Broken, coq_bool, coq_list, coq_nat

FILES = ["Model/HeapTreeM.v", "Model/C10Case.v", "Proofs/C10.v", "Props/C10.v"]
HEADER = ("From Coq Require Import List NArith Bool Arith.\n"
          "From FV Require Import Model.HeapTreeM Model.C10Case.\n"
          "Import ListNotations.\nOpen Scope list_scope.\n")
CT = "(list (op * list dnode))"


def obligations(res):
    rc, out = common.make([common.vo(f) for f in FILES])
    res.coverage["obligations"] = common.count_obligations(FILES)
    res.coverage["checker_cmd"] = "coqc (make -f Makefile.coq) + Print Assumptions in Props/C10.v"
    if rc != 0:
        raise Broken("C10 theorems (Proofs/C10.v) no longer compile", out)
    n, ax = common.check_props("C10")
    res.coverage["discharged"] = res.coverage["obligations"]
    res.coverage["trusted_base"] = ax or ["Closed under the global context (no axioms)"]
    res.assumptions += [
        "Coq kernel + vm_compute; no axioms",
        "hand-written model of DerivationTree objects (identity, parent link, cached size, cached hash) as a pool of owned object trees; "
        "invalidate_hash() is modelled as refreshing the nodes on the path to the root (what it reaches when parent links are right; the links "
        "are part of the state, of the invariant and of every compared dump)",
        "structural hash assumed collision-free (the code defines tree equality as hash equality)",
        "operations take pool roots as arguments (no object is handed to two parents by the driver); sources/generators, read_only and "
        "origin_repetitions are not modelled",
        "the harness's identity bookkeeping (canonical numbering of objects by first visit) is trusted",
    ]


# ------------------------------------------------------------------ implementation driver

def mk_symbol(code):
    from fandango.language.symbols.non_terminal import NonTerminal
    from fandango.language.symbols.terminal import Terminal
    return NonTerminal(f"<n{code}>") if code % 2 == 0 else Terminal(f"t{code}")


def sym_code(sym):
    n = sym.name() if sym.is_non_terminal else str(sym.value())
    return int(n.strip("<>nt"))


def party(code):
    return None if code == 0 else f"p{code}"


def party_code(p):
    return 0 if p is None else int(p[1:])


_GRAMMAR = None


def grammar():
    global _GRAMMAR
    if _GRAMMAR is None:
        from fandango import Fandango
        _GRAMMAR = Fandango('<start> ::= "a"\n').grammar
    return _GRAMMAR


def node_at(root, p):
    t = root
    for i in p:
        t = t.children[i]
    return t


def rebuilt_hash(t):
    """hash of a freshly built structure with the same symbols/parties/shape"""
    from fandango.language.tree import DerivationTree
    def rb(x):
        return DerivationTree(x.symbol, [rb(c) for c in x.children], sender=x.sender, recipient=x.recipient)
    return hash(rb(t))


def dump_pool(pool):
    """canonical dump: objects numbered by first visit (pool order, preorder)"""
    index = {}
    order = []

    def number(t):
        if id(t) in index:
            return
        index[id(t)] = len(order)
        order.append(t)
        for c in t.children:
            number(c)
    for r in pool:
        number(r)
    seen = set()

    def d(t):
        if id(t) in seen:
            return f"(DRef {coq_nat(index[id(t)])})"
        seen.add(id(t))
        par = t.parent
        if par is None:
            ps = "PNone"
        elif id(par) in index:
            ps = f"(PIdx {coq_nat(index[id(par)])})"
        else:
            ps = "PExternal"
        try:
            coherent = hash(t) == rebuilt_hash(t)
        except Exception:
            coherent = False
        kids = coq_list([d(c) for c in t.children])
        return (f"(D {coq_nat(sym_code(t.symbol))} {coq_nat(party_code(t.sender))} {coq_nat(party_code(t.recipient))} "
                f"{coq_nat(t.size())} {ps} {coq_bool(coherent)} {kids})")
    return coq_list([d(r) for r in pool])


def paths(t, p=()):
    out = [p]
    for i, c in enumerate(t.children):
        out.extend(paths(c, p + (i,)))
    return out


def parent_chain_ids(n):
    """objects reached by following parent links (stale links of released children included)"""
    out, cur, k = set(), n, 0
    while cur is not None and k < 10000:
        out.add(id(cur))
        cur, k = cur.parent, k + 1
    return out


def remove_idx(pool, idxs):
    return [o for i, o in enumerate(pool) if i not in idxs]


def accessors(rng, pool):
    """read-only accessors: must leave every object as it is"""
    if not pool:
        return
    root_, p_, _ = pick(rng, pool)
    t = node_at(root_, p_)
    k = rng.randint(0, 5)
    try:
        if k == 0 and t.children:
            t[0:2]
            t[-1]
        elif k == 1:
            t.flatten()
            t.descendants()
        elif k == 2 and t.symbol.is_non_terminal:
            t.find_all_trees(t.symbol)
            t.find_direct_trees(t.symbol)
        elif k == 3:
            t.get_root()
            t.get_path()
        elif k == 4:
            t == pool[0]
        else:
            t.value()
    except Exception:
        pass


def pick(rng, pool):
    r = rng.randrange(len(pool))
    p = rng.choice(paths(pool[r]))
    return pool[r], p, r


def path_term(p):
    return coq_list([coq_nat(i) for i in p])


LAST_OPS = []


class ParentLinkBroken(Exception):
    pass


TWINS = [0]


def gen_sequence(rng, n_ops):
    from fandango.language.tree import DerivationTree
    pool, steps, ops_txt = [], [], []
    LAST_OPS.clear()
    queue = []
    for _ in range(n_ops):
        kind = rng.choice(["new", "new", "add", "setkids", "sym", "snd", "rcp", "hash", "hash", "copy", "copywhole", "replace", "prefix", "copypruned"])
        forced = None
        if queue:
            kind, forced = queue.pop(0)
        elif pool and rng.random() < 0.1 and sum(t.size() for t in pool) <= 60:
            # structurally equal siblings: a root and its copy become the children of one new node, then prefix() at or below the LATER twin
            free = [i for i, t in enumerate(pool) if t.parent is None]
            if free:
                r0 = rng.choice(free)
                kind, forced = "copywhole", ("root", r0)
                queue = [("new", ("kids", [r0, len(pool)])), ("prefix", ("twin", None))]
        if forced is None:
            if not pool or (kind != "new" and len(pool) < 2 and kind in ("add", "setkids", "replace")):
                kind = "new"
            total = sum(t.size() for t in pool)
            if total > 60 and kind in ("copy", "copywhole", "replace", "prefix", "new", "copypruned"):
                kind = rng.choice(["sym", "snd", "hash", "setkids", "add"])
                if len(pool) < 2 and kind in ("add", "setkids"):
                    kind = "sym"
        if kind == "new":
            s, a, b = rng.randint(0, 7), rng.choice([0, 0, 1, 2]), rng.choice([0, 0, 1])
            ks = rng.sample(range(len(pool)), rng.randint(0, min(3, len(pool)))) if s % 2 == 0 else []
            if forced:
                s, ks = 2 * rng.randint(0, 3), list(forced[1])
            t = DerivationTree(mk_symbol(s), [pool[i] for i in ks], sender=party(a), recipient=party(b))
            pool = remove_idx(pool, ks) + [t]
            op = f"ONew {coq_nat(s)} {coq_nat(a)} {coq_nat(b)} {coq_list([coq_nat(i) for i in ks])}"
        elif kind == "add":
            root, p, r = pick(rng, pool)
            chain = parent_chain_ids(node_at(root, p))
            # a released child keeps a stale parent link: hooking its former ancestor below it would close a cycle of parent links
            cands = [i for i in range(len(pool)) if i != r and id(pool[i]) not in chain]
            if not cands:
                continue
            c = rng.choice(cands)
            node_at(root, p).add_child(pool[c])
            pool = remove_idx(pool, [c])
            op = f"OAddChild {coq_nat(r)} {path_term(p)} {coq_nat(c)}"
        elif kind == "setkids":
            root, p, r = pick(rng, pool)
            n = node_at(root, p)
            chain = parent_chain_ids(n)
            others = [i for i in range(len(pool)) if i != r and id(pool[i]) not in chain]
            ks = rng.sample(others, rng.randint(0, min(2, len(others))))
            old = list(n.children)
            n.set_children([pool[i] for i in ks])
            pool = remove_idx(pool, ks)     # released children (stale parent link) are dropped
            op = f"OSetKids {coq_nat(r)} {path_term(p)} {coq_list([coq_nat(i) for i in ks])}"
        elif kind in ("sym", "snd", "rcp"):
            root, p, r = pick(rng, pool)
            n = node_at(root, p)
            v = rng.randint(0, 7) if kind == "sym" else rng.choice([0, 1, 2])
            if kind == "sym":
                n.symbol = mk_symbol(v)
            elif kind == "snd":
                n.sender = party(v)
            else:
                n.recipient = party(v)
            op = f"{'OSetSym' if kind == 'sym' else 'OSetSnd' if kind == 'snd' else 'OSetRcp'} {coq_nat(r)} {path_term(p)} {coq_nat(v)}"
        elif kind == "hash":
            root, p, r = pick(rng, pool)
            hash(node_at(root, p))
            op = f"OHash {coq_nat(r)} {path_term(p)}"
        elif kind == "copy":
            root, p, r = pick(rng, pool)
            pool = pool + [node_at(root, p).deepcopy(copy_children=True, copy_params=False, copy_parent=False)]
            op = f"OCopy {coq_nat(r)} {path_term(p)}"
        elif kind == "copywhole":
            # released children keep a stale parent link (as in the code); copy.deepcopy would follow it
            free = [i for i, t in enumerate(pool) if t.parent is None]
            if not free:
                continue
            r = forced[1] if forced else rng.choice(free)
            pool = pool + [copy.deepcopy(pool[r])]
            op = f"OCopyWhole {coq_nat(r)}"
        elif kind == "copypruned":
            # deepcopy without the children of the node but with its (copied) ancestors: the whole tree is copied, the node is a leaf in the copy
            root, p, r = pick(rng, pool)
            if root.parent is not None:
                continue
            c = node_at(root, p).deepcopy(copy_children=False, copy_params=False, copy_parent=True)
            pool = pool + [c.get_root()]
            op = f"OCopyPruned {coq_nat(r)} {path_term(p)}"
        elif kind == "replace":
            root, p, r = pick(rng, pool)
            root2, p2, r2 = pick(rng, pool)
            target = node_at(root, p)
            # bias towards same-symbol replacements
            cands = [(i, q) for i, t in enumerate(pool) for q in paths(t) if node_at(t, q).symbol == target.symbol]
            if cands and rng.random() < 0.8:
                r2, p2 = rng.choice(cands)
                root2 = pool[r2]
            pool = pool + [root.replace(grammar(), target, node_at(root2, p2))]
            op = f"OReplace {coq_nat(r)} {path_term(p)} {coq_nat(r2)} {path_term(p2)}"
        else:  # prefix
            root, p, r = pick(rng, pool)
            if forced:
                r = len(pool) - 1
                root = pool[r]
                p = (1,) + tuple(rng.choice(paths(root.children[1])))
                TWINS[0] += 1
            if not p or root.parent is not None:
                continue
            res_ = node_at(root, p).prefix(copy_tree=True)
            # the node handed back must be listed by the parent it points to, at the position it was taken from
            if res_.parent is not None and not any(c is res_ for c in res_.parent.children):
                raise ParentLinkBroken(f"node.prefix(copy_tree=True) at path {list(p)} of pool tree {r}: the returned node's parent does not list it "
                                       f"(parent's children: {len(res_.parent.children)}, expected index {p[-1]})")
            pool = pool + [res_.get_root()]
            op = f"OPrefix {coq_nat(r)} {path_term(p)}"
        if rng.random() < 0.5:
            accessors(rng, pool)
        LAST_OPS.append(op)
        steps.append(f"({op}, {dump_pool(pool)})")
        ops_txt.append(op)
    return steps, ops_txt


def correspondence(res):
    rng = random.Random(res.seed * 23 + 1)
    n = 500 if res.tier == "quick" else 4000
    terms, infos = [], []
    for i in range(n):
        import sys
        sys.setrecursionlimit(3000)
        try:
            steps, ops_txt = gen_sequence(rng, rng.randint(3, 25))
        except ParentLinkBroken as e:
            if len(res.violations) < 3:
                res.violation("after prefix(), a node's parent link points to a node that does not list it: " + str(e),
                              {"ops_before (the failing prefix is the next op)": list(LAST_OPS), "seed": res.seed})
            continue
        except (RecursionError, Exception) as e:
            import traceback
            tb = traceback.extract_tb(e.__traceback__)
            where = [f"{f.name}:{f.lineno}" for f in tb if "fandango" in f.filename][-3:]
            if len(res.violations) < 3:
                res.violation(f"a public tree operation (or reading size/hash/parent afterwards) raised {type(e).__name__} on a pool reached by legal "
                              f"operations (aliasing or a cycle of parent links): {where}",
                              {"exception": repr(e)[:300], "where": where, "ops_until_crash (the crash is in the next op or in reading its result)": list(LAST_OPS), "seed": res.seed})
            continue
        terms.append(coq_list(steps))
        infos.append({"ops": ops_txt})
        kinds = {o.split()[0] for o in ops_txt}
        res.count(tuple(ops_txt), nontrivial=len(ops_txt) >= 5 and len(kinds) >= 3)
        for k in kinds:
            res.bump(k)
    res.hist["prefix_below_later_of_two_equal_siblings"] = TWINS[0]
    res.sample(infos[0])
    res.sample({"last_step_term": terms[0][-400:]})
    corr = common.run_case_codes("C10", "corr", HEADER, terms, "c10_corr", chunk=60, ctype=CT)
    prop = common.run_case_codes("C10", "prop", HEADER, terms, "c10_prop", chunk=60, ctype=CT)
    res.coverage["rule"] = ("random sequences of 3-25 public tree operations (construct, add_child, set_children, symbol/sender/recipient setters, "
                            "hash, deepcopy with/without parent and with/without the node's children, replace, prefix; about every tenth step starts a copy / new parent over the root and its copy / prefix below the later twin, so that positions among structurally EQUAL siblings matter) over a pool of real DerivationTree objects, with read-only accessors "
                            "(indexing, slicing, searches, flatten, equality, value) interleaved; after every step all reachable objects are dumped "
                            "(identity-canonical) and compared with the model, and the dumps are judged on their own (size/hash/parent consistency, "
                            "no aliasing, inputs of copying operations unchanged). non-trivial = >= 5 ops of >= 3 kinds; distinct by op sequence")
    bad = [i for i, v in enumerate(corr) if v != 1]
    res.coverage["traces_validated_against_impl"] = len(corr) - len(bad)
    for i, v in enumerate(prop):
        if v is None:
            raise Broken("property evaluation failed (case file)", repr(infos[i]))
        if v != 1 and len(res.violations) < 3:
            res.violation("object dump inconsistent: stale size/hash, wrong parent link, aliasing between trees, or an input changed by a copying operation",
                          {"ops": infos[i]["ops"], "steps": terms[i][:3000]})
    if bad:
        raise Broken(f"correspondence: object-pool model and implementation differ on {len(bad)}/{len(corr)} sequences",
                     repr(infos[bad[0]]))


def search(res):
    pass


def replay(res, rp):
    print("replay: re-run ./check C10 with the same VERIF_SEED; case:", str(rp.get("replay"))[:600])
    return 0
