"""C11 -- cached evaluations equal fresh evaluations."""
import random

import common
import export
from common import Broken
from props import c02, c07

FILES = ["Base/Re.v", "Base/Grammar.v", "Model/ReplaceM.v", "Model/C01Case.v", "Model/SearchM.v", "Model/ConstraintM.v", "Model/CacheM.v",
         "Proofs/C11.v", "Props/C11.v"]


def obligations(res):
    rc, out = common.make([common.vo(f) for f in FILES])
    res.coverage["obligations"] = common.count_obligations(FILES)
    res.coverage["checker_cmd"] = "coqc (make -f Makefile.coq) + Print Assumptions in Props/C11.v"
    if rc != 0:
        raise Broken("C11 theorems (Proofs/C11.v) no longer compile", out)
    n, ax = common.check_props("C11")
    res.coverage["discharged"] = res.coverage["obligations"]
    res.coverage["trusted_base"] = ax or ["Closed under the global context (no axioms)"]
    res.assumptions += [
        "Coq kernel + vm_compute; no axioms",
        "PARTIAL: the theorem says that a memo with a complete, collision-free key is transparent for every history, and that the model's key "
        "(tree, scope, local variables) is complete for the modelled evaluation.  That the implementation's keys are complete (they are hashes, and the "
        "structural tree hash ignores sources and origin_repetitions) is not a theorem: it is monitored.  Every evaluation made during real fuzz() runs "
        "is repeated with a second, never-used set of constraint objects whose caches are emptied first, and fitness, per-constraint verdicts and the "
        "paths of the failing parts must coincide",
        "specs without soft constraints; generator specs are not exercised",
    ]


KNOWN_REP = ("repetition-bounds-read-origin-repetitions: RepetitionBoundsConstraint counts repetitions through the origin_repetitions tags of the nodes, "
             "which the structural tree hash (the cache key) does not contain: after crossover two trees with the same structure carry different tags "
             "(iteration ids of different parents collide), and the cached verdict of one is returned for the other")


class NoCache(dict):
    """a cache that never remembers: on the fresh side every sub-evaluation is computed, none is looked up"""

    def __setitem__(self, k, v):
        pass

    def __contains__(self, k):
        return False


def clear_caches(c):
    """the 'fresh' side: no cached value is ever used, neither from earlier trees nor from earlier sub-evaluations of the same tree"""
    if hasattr(c, "cache"):
        c.cache = NoCache()
    for attr in ("constraints",):
        for x in getattr(c, attr, []) or []:
            clear_caches(x)
    for attr in ("statement", "antecedent", "consequent"):
        x = getattr(c, attr, None)
        if x is not None:
            clear_caches(x)
    if hasattr(c, "_types_checked"):
        c._types_checked = False


def path_of(root, node):
    p, cur = [], node
    while cur is not root and cur.parent is not None:
        par = cur.parent
        idx = next((i for i, x in enumerate(par.children) if x is cur), None)
        if idx is None:
            return None
        p.insert(0, idx)
        cur = par
    return tuple(p) if cur is root else None


def own_path(node):
    """position of a node in the tree it hangs in (by parent links).  A failing part returned from a cache may be a
    node of an earlier, structurally equal tree object: its position in its own tree is what is compared"""
    p, cur, k = [], node, 0
    while cur.parent is not None and k < 10000:
        par = cur.parent
        idx = next((i for i, x in enumerate(par.children) if x is cur), None)
        if idx is None:
            idx = next((("src", i) for i, x in enumerate(par.sources) if x is cur), "detached")
        p.insert(0, idx)
        cur, k = par, k + 1
    return tuple(p)


def structural_paths(root, trees):
    return {own_path(t) for t in trees}


def nested_formula(rng, nts):
    """quantifiers whose body is evaluated several times on the same tree under different bindings of the outer variable
    (memo keys must contain scopes AND local variables)"""
    leafy = [n for n in nts if n in ("<ch>", "<d>", "<w>", "<val>", "<key>", "<t>", "<len>", "<x>", "<n>")] or nts
    s1, s2 = rng.choice(leafy), rng.choice(leafy)
    q1, q2 = rng.choice(["any", "all"]), rng.choice(["any", "any", "all"])
    cmp_ = rng.choice(["==", "!=", "<", ">"])
    k = rng.randrange(5)
    if k == 4:      # a disjunction / conjunction of constraints under an identifier-bound quantifier
        l1, l2 = rng.sample(['"a"', '"1"', '"0"', '"b"', '"p"', '"2"'], 2)
        return f"{q1}(str(x) == {l1} {rng.choice(['or', 'and'])} str(x) {cmp_} {l2} for x in *{s2})"
    if k == 0:      # both variables bound as Python identifiers
        return f"{q1}({q2}(str(y) {cmp_} str(x) for y in *{s1}) for x in *{s2})"
    if k == 1:      # outer identifier, inner nonterminal-bound
        return f"{q1}({q2}(str(<y>) {cmp_} str(x) for <y> in *{s1}) for x in *{s2})"
    if k == 2:      # outer nonterminal-bound, inner identifier
        return f"{q1}({q2}(str(y) {cmp_} str(<x>) for y in *{s1}) for <x> in *{s2})"
    # three levels
    return f"{q1}({q2}(any(str(z) == str(x) for z in *{s1}) and str(y) {cmp_} str(x) for y in *{s1}) for x in *{s2})"


def verdict_vector(cs, t):
    out = []
    for c in cs:
        try:
            f_ = c.fitness(t)
            out.append((bool(f_.success), int(f_.solved), int(f_.total)))
        except Exception as e:
            out.append("raises " + type(e).__name__)
    return out


def edit_phase(fan, fresh_cs, kept, rng, res):
    """in-place edits of evaluated trees: children exchanged for children of equal total size, children swapped, a leaf re-labelled"""
    from fandango.language.tree import DerivationTree
    from fandango.constraints.repetition_bounds import RepetitionBoundsConstraint
    cs = [c for c in fan.constraints if not isinstance(c, RepetitionBoundsConstraint)]
    fcs = [c for c in fresh_cs if not isinstance(c, RepetitionBoundsConstraint)]
    trees = [t.deepcopy(copy_parent=False) for t in kept[:4]]
    for t in trees:
        verdict_vector(cs, t)           # fills the caches and the structural hashes
        hash(t)
        nodes = [n for n in [t] + list(t.descendants()) if n.symbol.is_non_terminal and n.children]
        if not nodes:
            continue
        n = rng.choice(nodes)
        kind = rng.randrange(3)
        try:
            if kind == 0 and len(n.children) >= 2:
                ks = list(n.children)
                i, j = rng.sample(range(len(ks)), 2)
                ks[i], ks[j] = ks[j], ks[i]
                n.set_children(ks)
                what = "two children swapped"
            elif kind == 1:
                donors = [d for o in trees if o is not t for d in [o] + list(o.descendants())
                          if d.symbol == n.symbol and d.size() == n.size() and str(d) != str(n)]
                if not donors:
                    continue
                d = rng.choice(donors).deepcopy(copy_parent=False)
                n.set_children(list(d.children))
                what = "children replaced by those of an equally large subtree"
            else:
                leaves = [x for x in t.descendants() if x.symbol.is_terminal]
                others = [y for o in trees for y in o.descendants() if y.symbol.is_terminal]
                if not leaves or not others:
                    continue
                x = rng.choice(leaves)
                y = rng.choice(others)
                if str(y) == str(x):
                    continue
                x.symbol = y.symbol
                what = "a leaf re-labelled"
        except Exception:
            res.bump("edit_raised")
            continue
        res.bump("edits_compared")
        a = verdict_vector(cs, t)
        for c2 in fcs:
            clear_caches(c2)
        b = verdict_vector(fcs, t)
        if [x[0] if isinstance(x, tuple) else x for x in a] != [x[0] if isinstance(x, tuple) else x for x in b]:
            return {"edit": what, "tree_after_edit": str(t), "search_fitness": None, "fresh_fitness": None, "search_verdicts": [str(x) for x in a],
                    "fresh_verdicts": [str(x) for x in b], "constraint_kinds": [type(c).__name__ for c in cs], "after_in_place_edit": True}
    return None


def run_worker(args):
    seed, n_runs = args
    import sys
    sys.stderr = open("/dev/null", "w")
    from fandango import Fandango
    from fandango.evolution.evaluation import Evaluator
    c07.quiet()
    res = c07.MiniRes()
    rng = random.Random(seed * 211 + 9)
    viols = []
    for i in range(n_runs):
        spec, nts, judge, texts = c02.make_spec(rng)
        if rng.random() < 0.5:
            texts = texts + [nested_formula(rng, nts)]
        full = spec + "".join(f"where {t}\n" for t in texts)
        try:
            fan = Fandango(full)
            fresh_fan = Fandango(full)
        except Exception:
            res.bump("spec_rejected")
            continue
        fresh_cs = list(fresh_fan.constraints)
        orig = Evaluator.evaluate_individual
        state = {"calls": 0, "bad": None, "cached_hits": 0}

        def wrapped(self, individual):
            key = hash((individual.get_root(), individual))
            was_cached = key in self._fitness_cache
            ret = yield from orig(self, individual)
            if self._soft_constraints or state["bad"] is not None or state["calls"] > 400:
                return ret
            state["calls"] += 1
            if len(state.setdefault("kept", [])) < 6 and individual.size() < 60:
                state["kept"].append(individual)
            if was_cached:
                state["cached_hits"] += 1
            fitness, failing, _ = ret
            for c in fresh_cs:
                clear_caches(c)
            ev = Evaluator(self._grammar, fresh_cs, self._expected_fitness, 0, 0.0)
            import fandango.evolution.evaluation as evmod
            caught = []
            saved_pe = evmod.print_exception
            evmod.print_exception = lambda e, *a, **k: caught.append(repr(e)[:300])
            g = orig(ev, individual)
            try:
                while True:
                    next(g)
            except StopIteration as st:
                f2, failing2, _ = st.value
            finally:
                evmod.print_exception = saved_pe
            a = structural_paths(individual.get_root(), [ft.tree for ft in failing])
            b = structural_paths(individual.get_root(), [ft.tree for ft in failing2])
            verd1, verd2, excs, pairs = [], [], [], []
            for c, c2 in zip(self._hard_constraints + self._repetition_bounds_constraints,
                             ev._hard_constraints + ev._repetition_bounds_constraints):
                try:
                    f_ = c.fitness(individual)
                    verd1.append(f_.success)
                    pairs.append(("search", f_.solved, f_.total))
                except Exception as e:
                    verd1.append("raises")
                    excs.append("search: " + repr(e)[:200])
                clear_caches(c2)
                try:
                    f_ = c2.fitness(individual)
                    verd2.append(f_.success)
                    pairs.append(("fresh", f_.solved, f_.total))
                except Exception as e:
                    verd2.append("raises")
                    excs.append("fresh: " + repr(e)[:200])
            if fitness != f2 or a != b or verd1 != verd2:
                state["bad"] = {"spec": full, "call_index": state["calls"], "tree": str(export.tree_py(individual))[:500],
                                "origin_repetitions": str([(str(x.symbol), x.origin_repetitions) for x in individual.flatten()][:12]),
                                "was_in_evaluator_cache": was_cached, "search_fitness": fitness, "fresh_fitness": f2,
                                "search_failing_paths": sorted(map(str, a))[:10], "fresh_failing_paths": sorted(map(str, b))[:10],
                                "search_verdicts": verd1, "fresh_verdicts": verd2,
                                "constraint_kinds": [type(c).__name__ for c in self._hard_constraints + self._repetition_bounds_constraints], "exceptions": excs, "caught_in_fresh_evaluator": caught, "solved_total": pairs}
            return ret

        Evaluator.evaluate_individual = wrapped
        random.seed(rng.randrange(1 << 30))
        try:
            kw = dict(desired_solutions=rng.choice([3, 6]), max_generations=rng.choice([6, 12]), population_size=rng.choice([10, 20]))
            common.guarded(lambda: fan.fuzz(**kw), 25)
        except common.ImplTimeout:
            res.bump("run_gave_up_25s")
        except Exception as e:
            res.bump("run_raised_" + type(e).__name__)
        finally:
            Evaluator.evaluate_individual = orig
        # edits: trees that were evaluated (hash and constraint caches filled) are edited in place through the public tree API,
        # then the long-lived constraint objects must judge the edited tree as never-remembering ones do
        if not state["bad"]:
            bad_e = edit_phase(fan, fresh_cs, state.get("kept", []), rng, res)
            if bad_e:
                bad_e["spec"] = full
                bad_e["seed"] = seed
                viols.append(bad_e)
        res.bump("runs")
        res.bump("evaluations_compared", state["calls"])
        res.bump("evaluator_cache_hits", state["cached_hits"])
        res.count(("run", full, seed, i), nontrivial=state["calls"] >= 5)
        if state["bad"]:
            state["bad"]["seed"] = seed
            viols.append(state["bad"])
        if i == 0:
            res.sample({"spec": full, "evaluations_compared": state["calls"]})
    return (viols, []), res.hist, res.counts, res.samples


def correspondence(res):
    W = 14
    n = 56 if res.tier == "quick" else 224
    viols, _ = c02.parallel(res, run_worker, [(res.seed * 1000 + w, max(1, n // W)) for w in range(W)])
    res.coverage["rule"] = ("real fuzz() runs (schema grammars incl. computed repetitions x 1-3 generated constraints incl. nested quantifiers that "
                            "rebind scopes and local variables); EVERY evaluate_individual call of the search is followed by an evaluation of the same "
                            "tree object with a second, never-used set of constraint objects whose caches are emptied first; fitness, per-constraint "
                            "verdict and failing-part positions must coincide. non-trivial = run with >= 5 compared evaluations; distinct by (spec, seed)")
    res.coverage["traces_validated_against_impl"] = res.hist.get("evaluations_compared", 0)
    known, _ = common.load_known("C11")
    sigs = {k["signature"] for k in known}
    rest = []
    for v in viols:
        if v.get("after_in_place_edit"):
            rest.append(v)
            continue
        kinds = v.get("constraint_kinds", [])
        diff_at = [i for i, (a, b) in enumerate(zip(v["search_verdicts"], v["fresh_verdicts"])) if a != b]
        if diff_at and all(i < len(kinds) and kinds[i] == "RepetitionBoundsConstraint" for i in diff_at) and "repetition-bounds-read-origin-repetitions" in sigs:
            res.known(KNOWN_REP)
            res.bump("known_repetition_bounds_origin_repetitions")
            continue
        only_parts = (v["search_fitness"] == v["fresh_fitness"] and v["search_verdicts"] == v["fresh_verdicts"])
        quantified = any(q in v["spec"] for q in ("forall ", "exists ", "any(", "all("))
        if only_parts and quantified and "failing-parts-of-equal-subtrees" in sigs:
            res.known("failing-parts-of-equal-subtrees: under a quantifier the cache key of the body contains the bound subtree by structural hash; "
                      "two equal subtrees at different positions share the entry and the failing parts reported for the second are nodes of the first")
            res.bump("known_failing_parts_equal_subtrees")
        else:
            rest.append(v)
    for v in rest[:3]:
        res.violation("an evaluation made during the search differs from a fresh evaluation of the same tree (fitness / verdict / failing parts)", v)


def search(res):
    pass


def replay(res, rp):
    print("replay: re-run ./check C11 with the same VERIF_SEED; case:", str(rp.get("replay"))[:800])
    return 0
