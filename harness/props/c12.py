"""C12 -- parse results do not depend on earlier parse calls."""
import random

import common
import earley
import export
from common import Broken, coq_list, coq_nat

FILES = ["Base/Re.v", "Base/Grammar.v", "Model/ReplaceM.v", "Model/C01Case.v", "Model/ParserCacheM.v", "Model/C12Case.v",
         "Proofs/C12.v", "Props/C12.v"]
HEADER = ("From Coq Require Import List String NArith Bool Arith.\n"
          "From FV Require Import Base.Re Base.Grammar Model.ReplaceM Model.C01Case Model.ParserCacheM Model.C12Case.\n"
          "Import ListNotations.\nOpen Scope string_scope.\nOpen Scope list_scope.\n")
CT = "(list (list tree) * list (request * list tree))"

SPECS = [
    # ambiguous
    ('<start> ::= <a> <a> <a>?\n<a> ::= "a" | "a" "a"\n', ["aaa", "aa", "aaaa", "a", "b"]),
    ('<start> ::= <e>\n<e> ::= <e> "+" <e> | <d>\n<d> ::= "1" | "2"\n', ["1+2+1", "1+2", "1", "1+", "2+2+2+1"]),
    ('<start> ::= <x>+ <y>*\n<x> ::= "a" | "ab"\n<y> ::= "b" | "ba" | "a"\n', ["aba", "abab", "a", "abba"]),
    # unambiguous, several start symbols
    ('<start> ::= <k> "=" <v>\n<k> ::= <c>+\n<v> ::= <d>{1,3}\n<c> ::= "a" | "b"\n<d> ::= "0" | "1"\n', ["ab=01", "a=1", "ab", "b=111"]),
    ('<start> ::= <item>{2,}\n<item> ::= "(" <item>? ")" | "x"\n', ["x()", "(x)x", "()()", "((x))x", "x"]),
    # a computed repetition whose count field may lie outside the parsed part (sub-start symbol, or a hook-in tree as the protocol code passes)
    ('<start> ::= <n> <body> | <body> "x"\n<n> ::= "2" | "3"\n<body> ::= <item>{int(<n>)}\n<item> ::= "a"\n', ["3aaa", "aaa", "aa", "aaax", "2aa", "aax"]),
]
STARTS = {3: ["<start>", "<k>", "<v>"], 4: ["<start>", "<item>"], 5: ["<start>", "<body>"]}


def obligations(res):
    rc, out = common.make([common.vo(f) for f in FILES])
    res.coverage["obligations"] = common.count_obligations(FILES)
    res.coverage["checker_cmd"] = "coqc (make -f Makefile.coq) + Print Assumptions in Props/C12.v"
    if rc != 0:
        raise Broken("C12 theorems (Proofs/C12.v) no longer compile", out)
    n, ax = common.check_props("C12")
    res.coverage["discharged"] = res.coverage["obligations"]
    res.coverage["trusted_base"] = ax or ["Closed under the global context (no axioms)"]
    res.assumptions += [
        "Coq kernel + vm_compute; no axioms",
        "model: a cache in front of a stateless forest function; the stateless forest is what a brand-new Grammar object yields for the key "
        "(its soundness is C04's subject); cached trees are values (object sharing between cache and callers is exercised only by the harness, "
        "which mutates handed-out trees during and after iteration)",
        "tree exporter trusted; origin_repetitions compared only through the shape of the trees",
    ]


def st_name(key):
    return key[1]


def tree_list(ts):
    return coq_list([export.export_tree(t) for t in ts])


def mutate_tree(rng, t):
    """what a caller may do with a tree it was handed"""
    k = rng.randint(0, 2)
    nodes = [t] + list(t.descendants())
    n = rng.choice(nodes)
    if k == 0:
        n.set_children([])
    elif k == 1:
        n.origin_repetitions.append(("caller", 99, 99))
        for c in nodes:
            c.origin_repetitions.insert(0, ("caller", 1, 1))
    else:
        from fandango.language.tree import DerivationTree
        from fandango.language.symbols.terminal import Terminal
        if n.symbol.is_non_terminal:
            n.add_child(DerivationTree(Terminal("!")))


def gen_history(rng, res):
    from fandango import Fandango
    si = rng.randrange(len(SPECS))
    spec, words = SPECS[si]
    starts = STARTS.get(si, ["<start>"])
    from fandango.language.grammar import ParsingMode
    keys = []
    for _ in range(rng.randint(1, 3)):
        # a key is (word, start symbol, parsing mode); prefix mode only on grammars without left recursion (C06 finding)
        mode = ParsingMode.INCOMPLETE if (si != 1 and rng.random() < 0.35) else ParsingMode.COMPLETE
        keys.append((rng.choice(words), rng.choice(starts), mode))
    if rng.random() < 0.5 and si != 1:
        # the same word under the same start symbol in both modes
        w0, st0, m0 = keys[0]
        keys.append((w0, st0, ParsingMode.COMPLETE if m0 == ParsingMode.INCOMPLETE else ParsingMode.INCOMPLETE))
    fan = Fandango(spec)
    g = fan.grammar
    hist_terms, hist_txt = [], []
    for _ in range(rng.randint(1, 12)):
        k = rng.randrange(len(keys))
        w, st, md = keys[k]
        r = rng.random()
        if r < 0.3:
            ans = list(g.parse_forest(w, st, mode=md))
            term = f"(ParseAll {coq_nat(k)}, {tree_list(ans)})"
            txt = f"all({w!r},{st},{md.name})"
            if rng.random() < 0.4:
                for t in ans:
                    mutate_tree(rng, t)
                txt += "+mutate-after"
        elif r < 0.45:
            # consume to the end, mutating every tree as soon as it is handed out
            ans_terms, gen = [], g.parse_forest(w, st, mode=md, include_controlflow=rng.random() < 0.3)
            ctl = gen.gi_frame.f_locals.get("include_controlflow", False) if gen.gi_frame else False
            out = []
            for t in gen:
                if not ctl:
                    out.append(export.export_tree(t))
                mutate_tree(rng, t)
            if ctl:
                term, txt = "(Fuzz, [])", f"all-controlflow-mutating({w!r},{st})"
            else:
                term = f"(ParseAll {coq_nat(k)}, {coq_list(out)})"
                txt = f"all-mutating-during-iteration({w!r},{st},{md.name})"
        elif r < 0.65:
            n = rng.randint(1, 3)
            gen = g.parse_forest(w, st, mode=md)
            ans = []
            for t in gen:
                ans.append(t)
                if len(ans) >= n:
                    break
            term = f"(ParseSome {coq_nat(k)} {coq_nat(n)}, {tree_list(ans)})"
            txt = f"some{n}({w!r},{st},{md.name})"
            if rng.random() < 0.3:
                for t in ans:
                    mutate_tree(rng, t)
        elif r < 0.8:
            t = g.parse(w, st, mode=md)
            term = f"(ParseSome {coq_nat(k)} 1%nat, {tree_list([t] if t is not None else [])})"
            txt = f"parse({w!r},{st},{md.name})"
        elif r < 0.9 and st == "<start>" and md.name == "COMPLETE":
            ans = list(fan.parse(w))
            term = f"(ParseAll {coq_nat(k)}, {tree_list(ans)})"
            txt = f"api.parse({w!r})"
        elif si == 5 and rng.random() < 0.6:
            # a request with a hook-in tree (the part of a message already seen), as io/packetparser.py makes them; its answer is not judged,
            # later requests without a hook-in must not be affected by it
            from fandango.language.tree import DerivationTree
            from fandango.language.symbols import NonTerminal, Terminal
            cnt = rng.choice(["2", "3"])
            hk = DerivationTree(NonTerminal("<start>"), [DerivationTree(NonTerminal("<n>"), [DerivationTree(Terminal(cnt))])])
            try:
                g.parse(rng.choice(["aaa", "aa"]), "<body>", hookin_parent=hk)
            except Exception:
                pass
            term, txt = "(Fuzz, [])", f"parse-with-hookin(<n>={cnt})"
        else:
            random.seed(rng.randrange(1 << 30))
            try:
                g.fuzz("<start>", max_nodes=20)
            except Exception:
                pass
            term, txt = "(Fuzz, [])", "fuzz"
        hist_terms.append(term)
        hist_txt.append(txt)
    # final complete requests for every key
    for k, (w, st, md) in enumerate(keys):
        ans = list(g.parse_forest(w, st, mode=md))
        hist_terms.append(f"(ParseAll {coq_nat(k)}, {tree_list(ans)})")
        hist_txt.append(f"final-all({w!r},{st},{md.name})")
    # the stateless answers: a brand-new grammar object per key
    fresh = []
    for (w, st, md) in keys:
        g2 = Fandango(spec).grammar
        fresh.append(tree_list(list(g2.parse_forest(w, st, mode=md))))
    # python-side rendering of the same judgement (for the report only): which request differs from the fresh forest
    import re as _re
    first_diff = None
    for term, txt in zip(hist_terms, hist_txt):
        m = _re.match(r"\(Parse(All|Some) (\d+)%nat(?: (\d+)%nat)?, (.*)\)$", term, flags=_re.S)
        if not m or first_diff is not None:
            continue
        k = int(m.group(2))
        want = fresh[k]
        got = m.group(4)
        if m.group(1) == "All":
            if got != want:
                first_diff = txt + f" (answer has {got.count(chr(34) + st_name(keys[k]) + chr(34))} trees, a fresh object yields {want.count(chr(34) + st_name(keys[k]) + chr(34))})"
        else:
            if not want.startswith(got[:-1]):
                first_diff = txt + " (not an initial part of the fresh forest)"
    amb = any("(" in f and f.count("Node \"<start>\"") > 1 for f in fresh)
    return f"({coq_list(fresh)}, {coq_list(hist_terms)})", {"spec": spec, "keys": [(w, st, md.name) for w, st, md in keys], "history": hist_txt, "first_complete_request_differing_from_fresh": first_diff}, amb


def worker(args):
    seed, n = args
    import sys
    sys.stderr = open("/dev/null", "w")
    from props import c07
    c07.quiet()
    res = c07.MiniRes()
    rng = random.Random(seed * 41 + 3)
    terms, infos = [], []
    for i in range(n):
        try:
            term, info, amb = common.guarded(lambda: gen_history(rng, res), 120)
        except common.ImplTimeout:
            res.bump("gave_up_120s")
            continue
        terms.append(term)
        infos.append(info)
        res.count(tuple(info["history"]) + tuple(info["keys"]), nontrivial=len(info["history"]) >= 3)
        res.bump("ambiguous_key" if amb else "unambiguous_keys")
        for h in info["history"]:
            res.bump(h.split("(")[0])
    return (terms, infos), res.hist, res.counts, res.samples


def correspondence(res):
    from props import c02
    W = 14
    n = 210 if res.tier == "quick" else 840
    terms, infos = c02.parallel(res, worker, [(res.seed * 100 + w, max(1, n // W)) for w in range(W)])
    if not infos:
        raise Broken("no request history could be run (every one exceeded the 120 s backstop)", "")
    res.sample(infos[0])
    corr = common.run_case_codes("C12", "corr", HEADER, terms, "c12_corr", chunk=40, ctype=CT)
    prop = common.run_case_codes("C12", "prop", HEADER, terms, "c12_prop", chunk=40, ctype=CT)
    res.coverage["rule"] = ("request histories (1-12 requests over 1-3 keys = (word, start symbol)) on one real Grammar object: complete forests, forests "
                            "abandoned after n trees, parse(), API parse, fuzzing in between, callers mutating handed-out trees during and after iteration; "
                            "every answer compared with the cache model fed by, and directly with, the forest of a brand-new grammar object. "
                            "non-trivial = >= 3 requests; distinct by (keys, history)")
    bad = [i for i, v in enumerate(corr) if v != 1]
    res.coverage["traces_validated_against_impl"] = len(corr) - len(bad)
    for i, v in enumerate(prop):
        if v is None:
            raise Broken("property evaluation failed (case file)", repr(infos[i]))
        if v != 1 and len(res.violations) < 3:
            res.violation("a parse answer depends on earlier requests (differs from what a fresh grammar object yields for the same input)", infos[i])
    if bad:
        raise Broken(f"correspondence: cache model and implementation differ on {len(bad)}/{len(corr)} histories", repr(infos[bad[0]]))


def search(res):
    pass


def replay(res, rp):
    print("replay: re-run ./check C12 with the same VERIF_SEED; case:", str(rp.get("replay"))[:600])
    return 0
