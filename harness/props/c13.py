"""C13 -- incremental parsing is independent of how the input is fragmented."""
import itertools
import random

import common
import earley
import export
import gen_grammar
from common import Broken, coq_bool, coq_list, coq_nat, coq_string

FILES = ["Base/Re.v", "Base/Grammar.v", "Model/ReplaceM.v", "Model/C01Case.v", "Model/EarleyM.v", "Model/C04Case.v", "Model/IncrementalM.v",
         "Model/C13Case.v", "Proofs/C13.v", "Props/C13.v"]
HEADER = ("From Coq Require Import List String NArith Bool Arith.\n"
          "From FV Require Import Base.Re Base.Grammar Model.ReplaceM Model.C01Case Model.EarleyM Model.C04Case Model.C13Case.\n"
          "Import ListNotations.\nOpen Scope string_scope.\nOpen Scope list_scope.\n")
CT = "(crules * string * input * nat * list (list tree * bool))"
FUEL = 600


KNOWN = ("regex-greedy-vs-fragmented: with the whole input at hand a regex terminal contributes only its greedy match (re.match), fed piecewise it also "
         "completes on shorter matches (and partial ones continue): the set of complete parses depends on the fragmentation")


def obligations(res):
    rc, out = common.make([common.vo(f) for f in FILES])
    res.coverage["obligations"] = common.count_obligations(FILES)
    res.coverage["checker_cmd"] = "coqc (make -f Makefile.coq) + Print Assumptions in Props/C13.v"
    if rc != 0:
        raise Broken("C13 theorems (Proofs/C13.v) no longer compile", out)
    n, ax = common.check_props("C13")
    res.coverage["discharged"] = res.coverage["obligations"]
    res.coverage["trusted_base"] = ax or ["Closed under the global context (no axioms)"]
    res.assumptions += [
        "Coq kernel + vm_compute; no axioms",
        "PARTIAL: proved for the scanner of literal terminals (incomplete states carry the text matched so far); the chart-level simulation between "
        "incremental and one-shot parsing is not proved.  It is checked: for words of up to 7 units ALL 2^(n-1) compositions are fed to the real "
        "IterativeParser.new_parse/consume and the complete trees after the last piece are compared, in Coq, with the one-shot forest of the chart model "
        "(which is sound by C04); regex terminals rely on the `regex` module's partial matching (not modelled)",
        "can_continue() is judged one way only: it must not be false on a proper prefix of a word that the model accepts",
    ]


MULTI_UNIT = [
    '<start> ::= "x" "x" "ab"\n',
    '<start> ::= <a>+ "abc" <a>*\n<a> ::= "x" | "yz"\n',
    '<start> ::= <k> "=" <v> ";"\n<k> ::= "key" | "k"\n<v> ::= "val" | "value" | "v"\n',
    '<start> ::= "ab" "cd" "ef" | "abc" "def"\n',
    '<start> ::= <h>{1,2} b"ABC" <t>?\n<h> ::= b"x" | b"xy"\n<t> ::= b"END"\n',
    '<start> ::= <bit>{8} b"AB" <bit>{8}\n<bit> ::= 0 | 1\n',
    '<start> ::= ("ab" | "a") ("bc" | "c") "d"\n',
]


def compositions(word):
    n = len(word)
    if n == 0:
        return [[word]]        # one (empty) piece
    out = []
    for mask in range(1 << (n - 1)):
        parts, last = [], 0
        for i in range(n - 1):
            if mask >> i & 1:
                parts.append(word[last:i + 1])
                last = i + 1
        parts.append(word[last:])
        out.append(parts)
    return out


def incremental(g, parts, start="<start>"):
    """complete trees available once the last piece has been consumed; did can_continue() turn false on a proper prefix?"""
    ip = earley.iter_parser(g)
    ip.new_parse(start)
    last, gave_up = [], False
    for i, p in enumerate(parts):
        last = [t for t, complete in ip.consume(p) if complete]
        if i + 1 < len(parts) and not ip.can_continue():
            gave_up = True
    trees = []
    for t in last:
        c = ip.collapse(t)
        if c is not None:
            trees.append(c)
    return trees, gave_up


def gen_worker(args):
    seed, n = args
    import sys
    sys.stderr = open("/dev/null", "w")
    from fandango import Fandango
    from props import c07, c04
    c07.quiet()
    res = c07.MiniRes()
    rng = random.Random(seed * 389 + 11)
    terms, infos = [], []
    tries = 0
    while len(infos) < n and tries < n * 12:
        tries += 1
        is_bytes = rng.random() < 0.35
        kinds = rng.choice([("bytes",), ("bytes", "bits")]) if is_bytes else rng.choice([("str",), ("str", "regex"), ("str", "regex")])
        spec = gen_grammar.gen_spec(rng, kinds=kinds, depth=rng.randint(1, 3), n_nt=rng.randint(1, 3))
        if rng.random() < 0.2:
            spec = gen_grammar.gen_nullable_spec(rng)
            is_bytes = 'b"' in spec
        elif rng.random() < 0.3:
            # literals of several units that start in the middle of a piece and are cut by its end
            spec = rng.choice(MULTI_UNIT)
            is_bytes = 'b"' in spec
        try:
            fan = Fandango(spec)
            g = fan.grammar
            if earley.nonterminating_signature(g):
                res.bump("spec_skipped_C06_signature")
                continue
            rx = earley.RulesExport(g)
        except Exception as e:
            res.bump("spec_skipped_" + type(e).__name__)
            continue
        for w in c04.words_for(rng, g, is_bytes, 3):
            if len(w) > 7:
                w = w[:7]
            comps = compositions(w)
            if len(comps) > 32:
                comps = [comps[0], comps[-1]] + rng.sample(comps[1:-1], 30)     # one piece, all singletons, 30 others
            out, ok = [], True
            for parts in comps:
                try:
                    trees, gave_up = common.guarded(lambda: incremental(g, parts), 3)
                    out.append(f"({coq_list([export.export_tree(t) for t in trees])}, {coq_bool(gave_up)})")
                except common.ImplTimeout:
                    res.bump("impl_gave_up_3s")
                    ok = False
                    break
                except Exception as e:
                    res.bump("impl_raised_" + type(e).__name__)
                    ok = False
                    break
            if not ok:
                fan = Fandango(spec)
                g = fan.grammar
                continue
            terms.append(f"({rx.term}, {coq_string('<start>')}, {rx.input_term(w)}, {coq_nat(FUEL)}, {coq_list(out)})")
            infos.append({"spec": spec, "word": repr(w), "compositions": len(comps), "exhaustive": len(comps) == (1 << max(0, len(w) - 1)),
                          "has_regex": len(rx.regexes) > 0})
            res.count(("fragments", spec, repr(w)), nontrivial=len(w) >= 2)
            res.bump("compositions", len(comps))
            res.bump("bytes_input" if is_bytes else "str_input")
    if infos:
        res.sample(infos[0])
    return (terms, infos), res.hist, res.counts, res.samples


def correspondence(res):
    from props import c02
    W = 14
    n = 130 if res.tier == "quick" else 1040
    terms, infos = c02.parallel(res, gen_worker, [(res.seed * 1000 + w, max(1, n // W)) for w in range(W)])
    codes = common.run_case_codes("C13", "eval", HEADER, terms, "c13_eval", chunk=25, ctype=CT)
    res.coverage["rule"] = ("random grammars (str+regex, bytes+bits) x member / near-miss words of up to 7 units x ALL compositions of the word into "
                            "consecutive non-empty pieces (words of 7 units: 32 sampled incl. one piece and all singletons); real new_parse/consume "
                            "per piece; complete trees after the last piece vs the one-shot forest of the chart model; can_continue() after every "
                            "piece. non-trivial = word of >= 2 units; distinct by (spec, word)")
    res.coverage["exhaustive_words"] = sum(1 for i in infos if i["exhaustive"])
    res.coverage["traces_validated_against_impl"] = sum(1 for v in codes if v == 1)
    res.bump("model_out_of_fuel", sum(1 for v in codes if v == 5))
    known, _ = common.load_known("C13")
    sigs = {k["signature"] for k in known}
    for i, v in enumerate(codes):
        if v in (1, 5):
            continue
        if v is None:
            raise Broken("evaluation failed (case file)", repr(infos[i]))
        if v == 2 and infos[i]["has_regex"] and "regex-greedy-vs-fragmented" in sigs:
            res.known(KNOWN)
            res.bump("known_regex_greedy")
            continue
        if len(res.violations) < 3:
            what = ("for some way of cutting the input, a parse of the whole input is missing after the last piece" if v == 0 else
                    "for some way of cutting the input there are additional complete parses (no regex terminal involved)" if v == 2 else
                    "the parser reports that it cannot continue on a proper prefix of a word of the language")
            res.violation(what, infos[i])


def search(res):
    pass


def replay(res, rp):
    print("replay: re-run ./check C13 with the same VERIF_SEED; case:", str(rp.get("replay"))[:600])
    return 0
