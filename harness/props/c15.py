"""C15 -- printing a spec and reading it back preserves its meaning."""
import ast
import random
import re as pyre

import common
import export
import c07lib as L
from common import Broken, coq_list, coq_string

FILES = ["Base/Re.v", "Base/Grammar.v", "Model/ReplaceM.v", "Model/SearchM.v", "Model/ConstraintM.v", "Model/PrinterM.v", "Model/C15Case.v",
         "Proofs/C01.v", "Proofs/C15.v", "Props/C15.v"]
HEADER = ("From Coq Require Import List String ZArith NArith Bool Arith.\n"
          "From FV Require Import Base.Re Base.Grammar Model.ReplaceM Model.SearchM Model.ConstraintM Model.PrinterM Model.C15Case Model.C01Case.\n"
          "Import ListNotations.\nOpen Scope string_scope.\nOpen Scope list_scope.\n")
GT = "(list (string * rhs) * list (string * rhs))"
KT = "(list constr * list constr)"


def obligations(res):
    rc, out = common.make([common.vo(f) for f in FILES])
    res.coverage["obligations"] = common.count_obligations(FILES)
    res.coverage["checker_cmd"] = "coqc (make -f Makefile.coq) + Print Assumptions in Props/C15.v"
    if rc != 0:
        raise Broken("C15 theorems (Proofs/C15.v) no longer compile", out)
    n, ax = common.check_props("C15")
    res.coverage["discharged"] = res.coverage["obligations"]
    res.coverage["trusted_base"] = ax or ["Closed under the global context (no axioms)"]
    res.assumptions += [
        "Coq kernel + vm_compute; no axioms",
        "The theorems say: if the comparison evaluated in Coq answers 1 for (original, re-read), both grammars have exactly the same derivations "
        "(C15_same_language) and all constraints the same verdicts on every tree (C15_same_verdicts).  The printer and the reader themselves are "
        "NOT modelled: str(FandangoSpec) and parse_content() of the real code are run on every generated spec and their results exported "
        "(grammar nodes by structure, literals by code point / byte value, regexes by pattern, party annotations and generators as part of the exported rules; "
        "constraints by structure, selectors and canonical expression text).  The exporter is trusted",
        "regex terminals are identified by pattern; two different patterns are compared on sampled strings only (never reported equal by theorem)",
        "constraints whose exported forms differ are compared by their verdicts on fuzzed trees (sampling, not proof); soft constraints and "
        "grammar settings are not generated",
    ]


# ------------------------------------------------------------------ spec text generators

STR_VALUES = ["a", "b", "ab", "c", 'q"x', "it's", "both'\"", "back\\slash", "\t", "\n", "\u00e9", "\x00", "\x7f", "\u20ac", "\\n", " ", "{", "<x>", "#",
              "'''", "\\", "0", "1", "x y", "\r", "\\x41", "\U0001f600"]
BYTES_VALUES = [b"\x00\xff", b'a"b', b"it's", b"\\", b"AB", b"\n", b"\x80", b"both'\"", b"a"]
REGEX_TEXTS = ['r"[a-c]+"', "r'x\\d'", 'r"a\\"b"', "r'a\\'b'", 'r"a\\\'b\\"c"', 'r"[^\\"]"', 'r"\\\\"', 'rb"\\x00+"', 'rb"[\\x80-\\xff]"', 'r"\u00e9+"',
               'r"a|b"', 'r"(ab)*c"', "r'''a'b\"c'''", 'rb"a\'b"', "rb'a\\'b\"c'", 'r"a\\.b"', 'r"\\d{2,3}"', "r'[\\']x'", 'r"\\\\\'\\""', 'rb"\\\\\'\\""', "r'''a\\\\'b\"'''"]


def py_lit(rng, v):
    """spec-language text of a str/bytes literal with value v (several spellings)"""
    isb = isinstance(v, bytes)
    q = rng.choice(['"', "'"])
    out = []
    for ch in (v if not isb else [chr(x) for x in v]):
        o = ord(ch)
        if ch == q or ch == "\\":
            out.append("\\" + ch)
        elif ch == "\n":
            out.append("\\n")
        elif ch == "\t":
            out.append(rng.choice(["\\t", "\\x09"]))
        elif ch == "\r":
            out.append("\\r")
        elif o < 32 or o == 127:
            out.append("\\x%02x" % o)
        elif o > 126:
            if isb:
                out.append("\\x%02x" % o)
            elif o > 0xffff:
                out.append(rng.choice([ch, "\\U%08x" % o]))
            else:
                out.append(rng.choice([ch, "\\u%04x" % o]))
        else:
            out.append(ch)
    return ("b" if isb else "") + q + "".join(out) + q


def gen_symbol(rng, depth, refs, kinds):
    r = rng.random()
    if depth > 0 and r < 0.3:
        return "(" + gen_alt(rng, depth - 1, refs, kinds) + ")"
    if refs and r < 0.5:
        return rng.choice(refs)
    k = rng.choice(kinds)
    if k == "str":
        return py_lit(rng, rng.choice(STR_VALUES))
    if k == "bytes":
        return py_lit(rng, rng.choice(BYTES_VALUES))
    if k == "regex":
        return rng.choice(REGEX_TEXTS)
    return rng.choice(["0", "1"])


def gen_operator(rng, depth, refs, kinds):
    s = gen_symbol(rng, depth, refs, kinds)
    r = rng.random()
    if r < 0.45:
        return s
    op = rng.choice(["*", "+", "?", "{2}", "{0}", "{1}", "{1,}", "{2,}", "{0,}", "{20,}", "{21,}", "{1,3}", "{0,1}", "{,2}", "{3,3}", "{0,0}"])
    return s + op


def gen_cat(rng, depth, refs, kinds):
    return " ".join(gen_operator(rng, depth, refs, kinds) for _ in range(rng.choice([1, 1, 2, 2, 3])))


def gen_alt(rng, depth, refs, kinds):
    return " | ".join(gen_cat(rng, depth, refs, kinds) for _ in range(rng.choice([1, 1, 2, 3])))


def gen_grammar_text(rng):
    names = ["<start>", "<a>", "<b>", "<c>"][: rng.randint(1, 4)]
    kinds = rng.choice([("str",), ("str",), ("str", "regex"), ("bytes",), ("bytes", "bits"), ("str", "bytes", "regex", "bits")])
    lines = []
    for i, n in enumerate(names):
        refs = names[i + 1:]
        lines.append(f"{n} ::= {gen_alt(rng, rng.randint(0, 3), refs, kinds)}")
    return "\n".join(lines) + "\n"


COMPUTED = [
    '<start> ::= <n> <x>{int(<n>)}\n<n> ::= "1" | "2"\n<x> ::= "a"\n',
    '<start> ::= <n> <x>{2,int(<n>)+1}\n<n> ::= "1" | "2" | "3"\n<x> ::= "a" | "b"\n',
    '<start> ::= <n> ("a" <x>){int(<n>),4}\n<n> ::= "1" | "2"\n<x> ::= "a"\n',
    '<start> ::= <n> <m> <x>{int(<n>),int(<n>)+int(<m>)}\n<n> ::= "1" | "2"\n<m> ::= "0" | "1"\n<x> ::= "a" "b"?\n',
    '<start> ::= <blk>+\n<blk> ::= <n> (<x> | "-"){int(<n>)} ";"\n<n> ::= "1" | "2"\n<x> ::= "a"\n',
]
GENERATORS = [
    '<start> ::= <a> "-" <b>\n<a> ::= <d>+ := "12"\n<b> ::= <d>+\n<d> ::= "0" | "1" | "2" | "3"\n',
    '<start> ::= <a> "-" <b>\n<a> ::= <d>+ := "12"\n<b> ::= <d>+ := str(int(<a>) + 1)\n<d> ::= "0" | "1" | "2" | "3"\n',
    'import random\n<start> ::= <a> <b> <c>\n<a> ::= <d>{2} := str(random.randint(10, 33))\n<b> ::= <d>+ := str(<a>) + str(<a>)\n<c> ::= <d>+ := str(int(<b>) % 3) + str(<a>)[0]\n<d> ::= "0" | "1" | "2" | "3"\n',
    'def up(s):\n    return str(s).upper()\n\n<start> ::= <w> ":" <v>\n<w> ::= <l>+\n<v> ::= <u>+ := up(<w>)\n<l> ::= "a" | "b"\n<u> ::= "A" | "B"\n',
]
PARTIES = [
    ('class Alice(NetworkParty):\n    def __init__(self):\n        super().__init__(connection_mode=ConnectionMode.OPEN, uri="tcp://localhost:29999")\n\n'
     'class Bob(NetworkParty):\n    def __init__(self):\n        super().__init__(connection_mode=ConnectionMode.EXTERNAL, uri="tcp://localhost:29999")\n\n'
     '<start> ::= <Alice:Bob:ping> <Bob:Alice:pong> (<Alice:Bob:ping> <Bob:Alice:pong>)*\n<ping> ::= "ping" <n>\n<pong> ::= "pong" <n>\n<n> ::= "1" | "2"\n'),
    ('class A(NetworkParty):\n    def __init__(self):\n        super().__init__(connection_mode=ConnectionMode.OPEN, uri="tcp://localhost:29998")\n\n'
     'class B(NetworkParty):\n    def __init__(self):\n        super().__init__(connection_mode=ConnectionMode.EXTERNAL, uri="tcp://localhost:29998")\n\n'
     '<start> ::= <A:B:hello> (<B:A:ok> | <B:A:err>){1,2} <A:B:bye>?\n<hello> ::= "h"\n<ok> ::= "o"\n<err> ::= "e"\n<bye> ::= "b"\n'),
    # one message type referenced with different annotations (echo style), with a sender only, and without any annotation
    ('class Alice(NetworkParty):\n    def __init__(self):\n        super().__init__(connection_mode=ConnectionMode.OPEN, uri="tcp://localhost:29997")\n\n'
     'class Bob(NetworkParty):\n    def __init__(self):\n        super().__init__(connection_mode=ConnectionMode.EXTERNAL, uri="tcp://localhost:29997")\n\n'
     '<start> ::= <Alice:Bob:ping> <Bob:Alice:ping> (<Alice:msg> | <Bob:Alice:msg>)* <trailer>\n<trailer> ::= <msg>?\n<ping> ::= "ping"\n<msg> ::= "m" <n>\n<n> ::= "1" | "2"\n'),
    # the same rule names without parties (printed in the same process as the specs above)
    '<start> ::= <ping> <pong>? <hello>*\n<ping> ::= "ping" <n>\n<pong> ::= "pong" <n>\n<hello> ::= "h"\n<n> ::= "1" | "2"\n',
]


def extra_formula(rng, nts):
    """constraint shapes whose printed form depends on operator precedence"""
    from props import c07
    sel = lambda: c07.gen_selector(rng, nts)
    a = lambda: c07.gen_atom(rng, nts)
    k = rng.randrange(9)
    if k == 0:
        return f"not str({sel()}) == \"a\""
    if k == 1:
        return f"not ({a()})"
    if k == 2:
        return f"not ({a()} and {a()})"
    if k == 3:
        return f"({a()}) == {rng.choice(['True', 'False'])}"
    if k == 4:
        return f"0 < len(str({sel()})) < 3"
    if k == 5:
        return f"{a()} or not {a()} and {a()}"
    if k == 6:
        return f"str({sel()}) {rng.choice(['in', 'not in'])} [\"a\", \"0\", \"1\"]"
    if k == 7:
        return f"int({sel()}) > 0 or str({sel()}) == \"a\""
    return f"not (not ({a()}))"


# ------------------------------------------------------------------ exporters

class RuleExport(export.GrammarExport):
    """user rules of a grammar, regex ids shared between the two grammars of a case; party annotations are part of the reference name;
    a generator is exported as an extra rule '<nt> := generator' whose body is the canonical generator text"""

    def __init__(self, grammar, regexes, names):
        from fandango.language.grammar.nodes.alternative import Alternative
        from fandango.language.grammar.nodes.concatenation import Concatenation
        from fandango.language.grammar.nodes.repetition import Repetition
        from fandango.language.grammar.nodes.non_terminal import NonTerminalNode
        from fandango.language.grammar.nodes.terminal import TerminalNode
        self.K = (Alternative, Concatenation, Repetition, NonTerminalNode, TerminalNode)
        self.grammar = grammar
        self.regexes = regexes
        self.rules = []
        self.computed = []
        for nt, node in grammar.rules.items():
            if nt.name() in names:
                self.rules.append((export.nt_name(nt), self.node(node)))
        for nt, gen in grammar.generators.items():
            if nt.name() in names:
                self.rules.append((export.nt_name(nt) + " := generator", f"(Tm (TLit {export.payload_of_value(canon_generator(gen))}))"))

    def node(self, n):
        Alternative, Concatenation, Repetition, NonTerminalNode, TerminalNode = self.K
        if isinstance(n, NonTerminalNode):
            name = export.nt_name(n.symbol)
            if n.sender is not None or n.recipient is not None:
                name = f"{n.sender}:{n.recipient}:{name}"
            return f"(Ref {coq_string(name)})"
        if isinstance(n, Repetition) and n.bounds_constraint is not None:
            # computed bounds: the bound expressions become part of the exported body (a literal with the canonical text)
            bc = n.bounds_constraint
            txt = "{" + canon_bound(bc.expr_data_min) + "," + canon_bound(bc.expr_data_max) + "}"
            return f"(Cat [Rep {self.node(n.node)} 0%nat None; Tm (TLit {export.payload_of_value(txt)})])"
        return super().node(n)

    def term(self):
        return coq_list([f"({coq_string(n)}, {r})" for n, r in self.rules])


def canon_expr(text, mapping):
    """python expression text with search placeholders replaced by the printed selectors, normalised through ast"""
    ids = sorted(mapping, key=lambda k: -len(k))
    for i in ids:
        text = text.replace(i, "NT_" + pyre.sub(r"[^0-9a-zA-Z_]", lambda m: "_%02x_" % ord(m.group(0)), mapping[i]))
    try:
        return ast.unparse(ast.parse(text, mode="eval"))
    except SyntaxError:
        return text


def canon_generator(gen):
    return canon_expr(str(gen.call), {k: v.format_as_spec() for k, v in gen.nonterminals.items()})


def canon_bound(expr_data):
    expr, _, searches = expr_data
    return canon_expr(str(expr), {k: s.format_as_spec() for k, s in searches.items()})


class CanonExport(L.ConstraintExport):
    """atom ids are shared between the original and the re-read constraints: same id iff same canonical expression"""

    def __init__(self, table):
        self.table = table      # canonical text -> id
        self.atoms = []

    def atom_id(self, key):
        if key not in self.table:
            self.table[key] = len(self.table)
        return self.table[key]

    def export(self, c):
        from fandango.constraints.expression import ExpressionConstraint
        from fandango.constraints.comparison import ComparisonConstraint
        if isinstance(c, (ExpressionConstraint, ComparisonConstraint)):
            if isinstance(c, ExpressionConstraint):
                text = c.expression
            else:
                text = f"({c._left}) {c._operator.value} ({c._right})"
            ids = sorted(c.searches, key=lambda k: (text.find(k) if text.find(k) >= 0 else 1 << 30, k))
            ren = {k: f"_p{i}_" for i, k in enumerate(ids)}
            t = text
            for k in sorted(ren, key=lambda k: -len(k)):
                t = t.replace(k, ren[k])
            try:
                t = ast.unparse(ast.parse(t, mode="eval"))
            except SyntaxError:
                pass
            kind = "expr" if isinstance(c, ExpressionConstraint) else "cmp"
            return (kind, self.atom_id((kind, t)), [(ren[k], L.export_search(c.searches[k])) for k in ids])
        return super().export(c)


# ------------------------------------------------------------------ one round trip

def user_names(text):
    return set(pyre.findall(r"^(<[A-Za-z0-9_]+>)\s*::=", text, flags=pyre.M))


def regex_equal_on_samples(rng, p, q):
    """two patterns compared on ALL strings up to length 4 (3 for larger alphabets) over the characters that occur in either pattern,
    plus random strings over a fixed alphabet"""
    import itertools
    if type(p) is not type(q):
        return False
    isb = isinstance(p, bytes)
    ptxt = p.decode("latin-1") if isb else p
    qtxt = q.decode("latin-1") if isb else q
    own = sorted(set(ptxt + qtxt + "a"))[:12]
    maxlen = 4 if len(own) <= 8 else 3
    cands = ["".join(t) for n in range(maxlen + 1) for t in itertools.product(own, repeat=n)]
    alpha = "abcx0127 \"'\\.\u00e9\n" if not isb else "abcx0127 \"'\\.\x00\x80\xff\n"
    cands += ["".join(rng.choice(alpha) for _ in range(rng.randint(0, 4))) for _ in range(400)]
    for s in cands:
        try:
            s2 = s.encode("latin-1") if isb else s
        except UnicodeEncodeError:
            continue
        try:
            if bool(pyre.fullmatch(p, s2)) != bool(pyre.fullmatch(q, s2)):
                return False
        except pyre.error:
            return False
    return True


def verdicts(cs, tree):
    out = []
    for c in cs:
        try:
            out.append(bool(c.check(tree)))
        except Exception as e:
            out.append("raises " + type(e).__name__)
    return out


def round_trip(rng, text, res, want_constraints):
    """-> None (spec not accepted) | dict(info) with keys gterm, kterm, ..."""
    from fandango.language.parse.parse_spec import parse_content
    from fandango.constraints.repetition_bounds import RepetitionBoundsConstraint
    from fandango.constraints.soft import SoftValue
    try:
        sp = parse_content(text, filename="<c15>", use_cache=False)
    except Exception as e:
        res.bump("spec_rejected_" + type(e).__name__)
        return None
    info = {"spec": text}
    try:
        printed = str(sp)
    except Exception as e:
        info["failure"] = "printing raised " + repr(e)[:300]
        return info
    info["printed_tail"] = "\n".join(printed.splitlines()[-(len(text.splitlines()) + 3):])
    try:
        sp2 = parse_content(printed, filename="<c15>", use_cache=False)
    except Exception as e:
        info["failure"] = "the printed spec cannot be read back: " + repr(e)[:300]
        return info
    names = user_names(text)
    regexes = []
    try:
        r1 = RuleExport(sp.grammar, regexes, names)
        n1 = len(regexes)
        r2 = RuleExport(sp2.grammar, regexes, names)
    except export.ExportError as e:
        res.bump("export_unsupported")
        return None
    # regex patterns that only the re-read grammar has: same language as some original pattern?
    info["regex_differs"] = False
    if len(regexes) > n1:
        info["regex_differs"] = True
        info["new_patterns"] = [repr(p) for p in regexes[n1:]]
        info["old_patterns"] = [repr(p) for p in regexes[:n1]]
    info["gterm"] = f"({r1.term()}, {r2.term()})"
    info["n_rules"] = len(r1.rules)
    if want_constraints:
        hard1 = [c for c in sp.constraints if not isinstance(c, (RepetitionBoundsConstraint, SoftValue))]
        hard2 = [c for c in sp2.constraints if not isinstance(c, (RepetitionBoundsConstraint, SoftValue))]
        table = {}
        try:
            k1 = [CanonExport(table).export(c) for c in hard1]
            k2 = [CanonExport(table).export(c) for c in hard2]
            info["kterm"] = f"({coq_list([L.coq_constr(k) for k in k1])}, {coq_list([L.coq_constr(k) for k in k2])})"
        except L.Unsupported:
            res.bump("constraint_export_unsupported")
            info["kterm"] = None
        # verdicts of ALL constraints (incl. repetition bounds) on fuzzed words of the original grammar, each side judging
        # the tree its own grammar object parses for the word (repetition bounds refer to the repetitions of their own grammar)
        diffs = []
        has_rep = any(isinstance(c, RepetitionBoundsConstraint) for c in list(sp.constraints) + list(sp2.constraints))
        compared = 0
        for _ in range(60 if has_rep else 10):
            if compared >= 8:
                break
            random.seed(rng.randrange(1 << 30))
            try:
                t = sp.grammar.fuzz("<start>", max_nodes=rng.choice([5, 15, 40]))
                word = t.to_string() if not t.should_be_serialized_to_bytes() else t.to_bytes()
                if has_rep:
                    t1 = sp.grammar.parse(word)
                    t2 = sp2.grammar.parse(word)
                else:
                    t1 = t2 = t
            except Exception:
                res.bump("sample_tree_failed")
                continue
            if t1 is None or t2 is None:
                res.bump("sample_word_not_reparsed")
                continue
            a, b = verdicts(sp.constraints, t1), verdicts(sp2.constraints, t2)
            res.bump("verdict_vectors_compared")
            compared += 1
            if all(x is True for x in a) != all(x is True for x in b) or (len(a) == len(b) and [x is True for x in a] != [x is True for x in b]):
                diffs.append({"word": repr(word)[:200], "original": [str(x) for x in a], "reread": [str(x) for x in b],
                              "original_constraints": [c.format_as_spec() for c in sp.constraints],
                              "reread_constraints": [c.format_as_spec() for c in sp2.constraints]})
                break
        info["verdict_diffs"] = diffs
    info["_grammars"] = (sp.grammar, sp2.grammar)
    return info


def gen_worker(args):
    seed, n = args
    import sys
    sys.stderr = open("/dev/null", "w")
    from props import c02, c07
    c07.quiet()
    res = c07.MiniRes()
    rng = random.Random(seed * 577 + 1)
    out = []
    tries = 0
    sys_done = 0
    while len(out) < n and tries < n * 5:
        tries += 1
        r = rng.random()
        want_k = False
        if r < 0.5:
            text, kind = gen_grammar_text(rng), "operators_and_literals"
        elif r < 0.8:
            spec, nts, judge, texts = c02.make_spec(rng)
            if rng.random() < 0.4:
                texts = texts + [extra_formula(rng, nts)]
            if seed % 1000 < 3 and sys_done < 2:
                # every form of item / slice selector (open, zero, positive and negative bounds), systematically
                bs = ["", "0", "1", "-1", "2"]
                k0 = (seed % 1000) * 2 + sys_done
                sys_done += 1
                combos = [(lo, hi) for lo in bs for hi in bs]
                texts = [f"len(str({nts[(k0 + j) % len(nts)]}[{lo}:{hi}])) {'==' if j % 2 else '>'} 0" for j, (lo, hi) in enumerate(combos) if j % 6 == k0 % 6 or hi == "0"]
                res.bump("systematic_slice_selectors")
            text, kind, want_k = spec + "".join(f"where {t}\n" for t in texts), "constraints", True
        elif r < 0.88:
            text, kind, want_k = rng.choice(COMPUTED), "computed_repetitions", True
        elif r < 0.95:
            text, kind = rng.choice(GENERATORS), "generators"
        else:
            text, kind = rng.choice(PARTIES), "party_annotations"
        try:
            info = common.guarded(lambda: round_trip(rng, text, res, want_k), 30)
        except common.ImplTimeout:
            res.bump("gave_up_30s")
            continue
        if info is None:
            continue
        info["kind"] = kind
        # sampled comparison of trees when needed later: keep fuzzed words of both grammars
        gs = info.pop("_grammars", None)
        out.append(info)
        res.bump("kind_" + kind)
        res.count(("roundtrip", text), nontrivial=len(text.splitlines()) >= 2 or any(ch in text for ch in "(*+?{"))
    if out:
        res.sample({k: v for k, v in out[0].items() if k in ("spec", "printed_tail", "kind")})
    return (out, []), res.hist, res.counts, res.samples


def correspondence(res):
    from props import c02
    W = 14
    n = 280 if res.tier == "quick" else 2240
    infos, _ = c02.parallel(res, gen_worker, [(res.seed * 1000 + w, max(1, n // W)) for w in range(W)])
    res.coverage["rule"] = ("generated specs: (a) 1-4 rules with nested groups x postfix operators (* + ? {n} {n,} {n,m} {,m}) x literals with quotes, backslashes, "
                            "non-ASCII / non-printable characters, bytes, regexes with quotes, bits; (b) schema grammars x 1-3 generated constraints incl. legacy and "
                            "comprehension quantifiers; (c) computed repetition bounds; (d) generators incl. dependent ones; (e) party annotations.  "
                            "real str(FandangoSpec) then real parse_content(); both results exported and compared in Coq. "
                            "non-trivial = >= 2 rules or an operator/group; distinct by spec text")
    known, _ = common.load_known("C15")
    sigs = {k["signature"] for k in known}
    g_idx = [i for i, inf in enumerate(infos) if inf.get("gterm")]
    gcodes = common.run_case_codes("C15", "gram", HEADER, [infos[i]["gterm"] for i in g_idx], "c15_grammar", chunk=40, ctype=GT)
    k_idx = [i for i, inf in enumerate(infos) if inf.get("kterm")]
    kcodes = common.run_case_codes("C15", "cons", HEADER, [infos[i]["kterm"] for i in k_idx], "c15_constr", chunk=40, ctype=KT)
    ok = 0
    rng = random.Random(res.seed + 5)

    def report(what, inf):
        if len(res.violations) < 4:
            res.violation(what, {k: v for k, v in inf.items() if k not in ("gterm", "kterm")})

    for inf in infos:
        if inf.get("failure"):
            report(inf["failure"], inf)
    for i, v in zip(g_idx, gcodes):
        inf = infos[i]
        if v is None:
            raise Broken("evaluation failed (case file)", inf["spec"])
        if v == 1:
            ok += 1
            continue
        if inf["regex_differs"]:
            # patterns differ as text: compare them on sampled strings
            import ast as _a
            olds = [_a.literal_eval(p) for p in inf["old_patterns"]]
            news = [_a.literal_eval(p) for p in inf["new_patterns"]]
            if all(any(regex_equal_on_samples(rng, p, q) for q in olds) for p in news):
                res.bump("regex_text_changed_same_on_samples")
                continue
        report("the re-read grammar differs from the original (after normalising groups)", inf)
    for i, v in zip(k_idx, kcodes):
        inf = infos[i]
        if v is None:
            raise Broken("evaluation failed (case file)", inf["spec"])
        if v == 1:
            res.bump("constraints_identical_after_export")
        else:
            res.bump("constraints_differ_after_export_compared_by_verdicts")
    for inf in infos:
        if inf.get("verdict_diffs"):
            report("original and re-read constraints give different verdicts on a tree", inf)
    res.coverage["traces_validated_against_impl"] = ok


def search(res):
    pass


def replay(res, rp):
    print("replay: re-run ./check C15 with the same VERIF_SEED; case:", str(rp.get("replay"))[:800])
    return 0
