"""C16 -- generator-defined fields carry generator output and are not edited behind it."""
import random
import re as pyre

import common
from common import Broken, coq_N, coq_list, coq_nat, coq_opt, coq_string

FILES = ["Base/Re.v", "Base/Grammar.v", "Model/GenFieldM.v", "Model/C16Case.v", "Proofs/C16.v", "Props/C16.v"]
HEADER = ("From Coq Require Import List String NArith Bool Arith.\n"
          "From FV Require Import Base.Grammar Model.GenFieldM Model.C16Case.\n"
          "Import ListNotations.\nOpen Scope string_scope.\nOpen Scope list_scope.\n")
OT = "(gtable * list (op * out * option (list ind)))"
LT = "(list entry * ind)"

KNOWN_ADOPT = ("generator-node-adopts-foreign-text: a generator-defined node is itself not read-only (only its children are): replace_multiple puts any "
               "same-symbol subtree in its place, e.g. the parse of a value suggested by a comparison constraint; the text was never returned by the generator")


KNOWN_REDRAW = ("recorded-arguments-redrawn: when a generator node whose arguments are generator-defined themselves is put into a tree (mutation, crossover), "
                "populate_sources re-derives its recorded arguments by running the argument symbols' own generators as 'converters': the recorded "
                "arguments are fresh values that no longer explain the node's text")


def obligations(res):
    rc, out = common.make([common.vo(f) for f in FILES])
    res.coverage["obligations"] = common.count_obligations(FILES)
    res.coverage["checker_cmd"] = "coqc (make -f Makefile.coq) + Print Assumptions in Props/C16.v"
    if rc != 0:
        raise Broken("C16 theorems (Proofs/C16.v) no longer compile", out)
    n, ax = common.check_props("C16")
    res.coverage["discharged"] = res.coverage["obligations"]
    res.coverage["trusted_base"] = ax or ["Closed under the global context (no axioms)"]
    res.assumptions += [
        "Coq kernel + vm_compute; no axioms",
        "model: a tree is abstracted to the list of its generator-owned fields (symbol, recorded argument texts, text); search operators act on that "
        "list (Model/GenFieldM.v).  The abstraction function is computed by the harness from real DerivationTree objects (is_use_generator, sources); "
        "real fuzz/replace/replace_multiple calls are classified as model operators by the harness, which also chooses them",
        "the generator expressions are ordinary Python functions defined in the generated specs; the harness evaluates the same functions itself to "
        "fill the table `g` and a rule regex to decide whether a value fits the rule",
        "an implementation error (exception) is accepted where the model would copy / re-fuzz a field with arguments: the implementation needs "
        "converter generators to re-derive arguments and raises FandangoValueError without them (loud, state unchanged)",
        "end-to-end: every individual evaluated during real fuzz() runs and every emitted solution must have all its generator fields in the log "
        "written by the generator functions themselves -- or, for a deterministic generator, carry exactly the value the function yields for the "
        "arguments recorded with the field (converter generators derive arguments from an adopted text without calling the generator)",
    ]


# ------------------------------------------------------------------ specs with logging generators

PRELUDE = '''
LOG = []
def gen(name, f, *args):
    v = f(*[str(x) for x in args])
    LOG.append((name, tuple(sorted((x.symbol.name(), str(x)) for x in args)), v))
    return v
'''
FUNCS = '''
def combine(a, b):
    return str(int(a) * 100 + int(b))
def const12():
    return "12"
def twice(y):
    return y + y
def pick():
    import random as _r
    return str(_r.randint(10, 39))
def maybe_bad(a):
    return "zz" if a.endswith("3") else str(int(a) + 1)
def dashed(a):
    return a[0] + "-" + a[1]
def to_up(low):
    return low.upper()
def to_low(up):
    return up.lower()
'''
# template: (grammar text, {nt: (function name, [param symbols])}, {nt: regex of the rule}, symbols that may be replaced "outside")
TEMPLATES = [
    ('<start> ::= <packet> <c>\n<packet> ::= <total> ";" <k>\n<total> ::= <digit>+ := gen("<total>", combine, <a>, <b>)\n'
     '<k> ::= <digit>+ := gen("<k>", const12)\n<a> ::= <nz> <digit>\n<b> ::= <nz> <digit>\n<c> ::= <nz> <digit>\n<nz> ::= "1" | "2" | "3"\n<digit> ::= "0" | <nz>\n',
     {"<total>": ("combine", ["<a>", "<b>"]), "<k>": ("const12", [])}, {"<total>": r"[0-3]+", "<k>": r"[0-3]+"}, ["<c>"]),
    ('<start> ::= <x> "," <c> "," <r>\n<x> ::= <digit>+ := gen("<x>", twice, <y>)\n<y> ::= <digit>{2} := gen("<y>", pick)\n'
     '<r> ::= <digit>{2} := gen("<r>", pick)\n<c> ::= <nz> <digit>?\n<nz> ::= "1" | "2" | "3"\n<digit> ::= "0" | <nz> | "4" | "5" | "6" | "7" | "8" | "9"\n',
     {"<x>": ("twice", ["<y>"]), "<y>": ("pick", []), "<r>": ("pick", [])}, {"<x>": r"[0-9]+", "<y>": r"[0-9]{2}", "<r>": r"[0-9]{2}"}, ["<c>"]),
    ('<start> ::= <m> ":" <c>\n<m> ::= <digit>+ := gen("<m>", maybe_bad, <a>)\n<a> ::= <nz> <digit>\n<c> ::= <nz>+\n<nz> ::= "1" | "2" | "3"\n<digit> ::= "0" | <nz>\n',
     {"<m>": ("maybe_bad", ["<a>"])}, {"<m>": r"[0-3]+"}, ["<c>"]),
    ('<start> ::= <rec>{1,3}\n<rec> ::= <d> "=" <c> ";"\n<d> ::= <nz> "-" <nz> := gen("<d>", dashed, <a>)\n<a> ::= <nz> <nz>\n<c> ::= <nz> | <c> <nz>\n<nz> ::= "1" | "2" | "3"\n',
     {"<d>": ("dashed", ["<a>"])}, {"<d>": r"[1-3]-[1-3]"}, ["<c>"]),
    # a converter pair: each of the two fields is the generator argument of the other
    ('<start> ::= <up> "-" <low> "-" <c>\n<up> ::= <U> <U> := gen("<up>", to_up, <low>)\n<low> ::= <L> <L> := gen("<low>", to_low, <up>)\n'
     '<U> ::= "A" | "B" | "C"\n<L> ::= "a" | "b" | "c"\n<c> ::= <L>+\n',
     {"<up>": ("to_up", ["<low>"]), "<low>": ("to_low", ["<up>"])}, {"<up>": r"[ABC]{2}", "<low>": r"[abc]{2}"}, ["<c>"]),
]
CONSTRAINTS = {
    0: ['int(<total>) > 2000', 'str(<k>) == "5"', 'int(<c>) > 20 and int(<total>) % 2 == 0', 'str(<total>) == "1111"', 'int(<k>) == 13', 'int(<c>) == 23'],
    1: ['int(<x>) > 2000', 'str(<r>) == "77"', 'int(<r>) > 30', 'str(<x>).startswith("3")', 'int(<c>) > 15'],
    2: ['int(<m>) > 20', 'str(<m>) == "5"', 'len(str(<c>)) > 2', 'len(str(<c>)) > 45 and int(<m>) > 20'],
    3: ['str(<d>) == "1-1"', 'len(str(<start>)) > 12', 'len(str(<start>)) > 40 and str(<d>) == "1-1"', 'forall <r> in <rec>: str(<r>.<d>) != "2-2"'],
    4: ['str(<up>) != "AA"', 'str(<low>) == "ab"', 'str(<up>) == "BC"', 'len(str(<c>)) > 3'],
}


def expected_table():
    env = {}
    exec(FUNCS, env)
    return env


def text_term(s):
    return coq_list([coq_N(ord(c)) for c in s])


def args_term(a):
    return coq_list([f"({coq_string(n)}, {text_term(v)})" for n, v in a])


def field_term(f):
    return f"{{| f_nt := {coq_string(f[0])}; f_args := {args_term(f[1])}; f_val := {text_term(f[2])} |}}"


def ind_term(d):
    return coq_list([field_term(f) for f in d])


def pop_term(p):
    return coq_list([ind_term(d) for d in p])


class World:
    """one grammar with logging generators and a population of real trees"""

    def __init__(self, rng, ti):
        from fandango.language.parse.parse import parse
        self.rng = rng
        self.ti = ti
        gtxt, self.gens, self.rules, self.outside = TEMPLATES[ti]
        self.spec = PRELUDE + FUNCS + "\n" + gtxt
        self.grammar, _ = parse(self.spec, use_stdlib=False, use_cache=False)
        self.log = self.grammar._global_variables["LOG"]
        self.env = expected_table()
        self.pop = []
        self.gtable = {}

    def g(self, nt, args):
        """the generator expression evaluated by the harness itself; None = value does not fit the rule"""
        key = (nt, tuple(args))
        if key not in self.gtable:
            fn, params = self.gens[nt]
            d = dict(args)
            if fn == "pick":
                v = d["#drawn"]
            else:
                v = self.env[fn](*[d[p] for p in params])
            if not pyre.fullmatch(self.rules[nt], v):
                v = None
            self.gtable[key] = v
        return self.gtable[key]

    def field_nodes(self, t, out=None):
        """generator-owned nodes in tree order (a node, then the fields inside its recorded arguments)"""
        out = [] if out is None else out
        if self.grammar.is_use_generator(t):
            out.append(t)
            for s in sorted(t.sources, key=lambda s: s.symbol.name()):
                # a recorded argument is a field of its own only if it was generated itself (a generator without parameters, or recorded arguments)
                if s.symbol.name() in self.gens and (not self.gens[s.symbol.name()][1] or s.sources):
                    self.field_nodes(s, out)
            return out
        for c in t.children:
            self.field_nodes(c, out)
        return out

    def field_of(self, n):
        nt = n.symbol.name()
        if not getattr(self, "e2e", False) and self.gens[nt][0] == "pick":
            # a random generator is no function of its arguments: for the operator-level model the drawn value counts as a pseudo-argument
            return (nt, (("#drawn", str(n)),), str(n))
        return (nt, tuple(sorted((s.symbol.name(), str(s)) for s in n.sources)), str(n))

    def arg_of(self, s):
        return (s.symbol.name(), str(s))

    def fields(self, t):
        return [self.field_of(n) for n in self.field_nodes(t)]

    def abstract(self):
        return [self.fields(t) for t in self.pop]


def nodes_outside(w, t, syms):
    out = []

    def walk(n):
        if w.grammar.is_use_generator(n):
            return
        if n.symbol.is_non_terminal and n.symbol.name() in syms and n.parent is not None:
            out.append(n)
        for c in n.children:
            walk(c)
    walk(t)
    return out


def do_op(w, rng):
    """perform one real operation; -> (op term, real out, description) or None"""
    from fandango.errors import FandangoError
    g = w.grammar
    kinds = ["fuzz"] if not w.pop else ["fuzz", "refuzz", "arg", "outside", "edit", "adopt", "copy", "drop", "edit", "adopt", "arg"]
    kind = rng.choice(kinds)
    try:
        if kind == "fuzz":
            n0 = len(w.log)
            try:
                t = g.fuzz()
            except FandangoError as e:
                # a misfit: the model needs the attempted fields; they are the log entries written since (the last one did not fit)
                fs = [(e_[0], e_[1]) for e_ in w.log[n0:]]
                return f"(OFuzz {coq_list([f'({coq_string(n)}, {args_term(a)})' for n, a in fs])})", "Error", "fuzz raised " + type(e).__name__
            w.pop.append(t)
            fs = [(f[0], f[1]) for f in w.fields(t)]
            return f"(OFuzz {coq_list([f'({coq_string(n)}, {args_term(a)})' for n, a in fs])})", "Done", "fuzz " + str(t)
        i = rng.randrange(len(w.pop))
        t = w.pop[i]
        fnodes = w.field_nodes(t)
        if kind == "drop":
            w.pop.pop(i)
            return f"(ODrop {coq_nat(i)})", "Done", "drop"
        if kind == "outside":
            cands = nodes_outside(w, t, w.outside)
            if not cands:
                return None
            n = rng.choice(cands)
            new = g.fuzz(n.symbol.name())
            w.pop[i] = t.replace(g, n, new)
            return f"(OReplaceOutside {coq_nat(i)})", "Done", f"replace {n.symbol.name()} {str(n)!r} by {str(new)!r}"
        if not fnodes:
            return None
        k = rng.randrange(len(fnodes))
        n = fnodes[k]
        nt = n.symbol.name()
        top_level = all(n is not s and not is_inside(s, n) for f in fnodes for s in f.sources)
        if kind == "refuzz":
            if not top_level:
                return None
            try:
                # as SimpleMutation.mutate does: the node budget left for the new subtree is what the individual leaves of the operator's
                # max_nodes (default 50) -- negative for individuals that are larger than that
                b = rng.choice([None, 50, 12, 4, 0])
                new = g.fuzz(nt) if b is None else g.fuzz(nt, max_nodes=n.size() + (b - t.size()))
            except FandangoError:
                return None
            a = w.field_of(new)[1]
            term = f"(ORefuzzField {coq_nat(i)} {coq_nat(k)} {args_term(a)})"
            try:
                w.pop[i] = t.replace(g, n, new)
            except FandangoError as e:
                return term, "Error", f"mutation of {nt} raised {type(e).__name__}: {str(e)[:80]}"
            return term, "Done", f"mutation: {nt} {str(n)!r} replaced by fresh {str(new)!r}"
        if kind == "arg":
            if not n.sources:
                return None
            j = rng.randrange(len(n.sources))
            src = n.sources[j]
            try:
                new = g.fuzz(src.symbol.name())
            except FandangoError:
                return None
            path = choices_path(t, n) + (source_step(j),)
            a = tuple(sorted([(s.symbol.name(), str(s)) for s in n.sources if s is not src] + [(src.symbol.name(), str(new))]))
            a = tuple(sorted([w.arg_of(s) for s in n.sources if s is not src] + [(src.symbol.name(), str(new))]))
            term = f"(OReplaceArg {coq_nat(i)} {coq_nat(k)} {args_term(a)})"
            if g.is_use_generator(src):
                # the argument is itself generator-defined: the real operation re-fuzzes that field and re-runs this one
                k2 = next(j2 for j2, fn_ in enumerate(fnodes) if fn_ is src)
                term = (f"(ORefuzzField {coq_nat(i)} {coq_nat(k2)} {args_term(w.field_of(new)[1])})", term)
            try:
                w.pop[i] = t.replace_multiple(g, [], path_to_replacement={path: new})
            except FandangoError as e:
                return term, "Error", f"replacing argument {src.symbol.name()} raised {type(e).__name__}: {str(e)[:80]}"
            return term, "Done", f"argument {src.symbol.name()} of {nt}: {str(src)!r} -> {str(new)!r}"
        if kind == "edit":
            inner = [d for c in n.children for d in [c] + list(c.descendants()) if d.symbol.is_non_terminal]
            if not inner:
                return None
            c = rng.choice(inner)
            new = g.fuzz(c.symbol.name())
            before = (str(t), w.fields(t))
            term = f"(OEditInside {coq_nat(i)} {coq_nat(k)} {text_term(str(new))})"
            try:
                t2 = t.replace(g, c, new)
            except FandangoError as e:
                return term, "Error", "edit raised " + type(e).__name__
            w.pop[i] = t2
            return term, ("Refused" if (str(t2), w.fields(t2)) == before else "Done"), f"edit inside {nt}: {c.symbol.name()} {str(c)!r} -> {str(new)!r}"
        if kind == "adopt":
            if not top_level:
                return None
            v = foreign_value(w, rng, nt, str(n))
            if v is None:
                return None
            new = g.parse(v, nt)
            if new is None:
                return None
            before = (str(t), w.fields(t))
            term = f"(OAdopt {coq_nat(i)} {coq_nat(k)} {text_term(v)})"
            try:
                t2 = t.replace(g, n, new)
            except FandangoError as e:
                return term, "Error", f"adopting {v!r} for {nt} raised {type(e).__name__}"
            w.pop[i] = t2
            if (str(t2), w.fields(t2)) == before:
                return term, "Refused", f"adopt: {nt} {str(n)!r} replaced by the parse of {v!r}"
            # the implementation adopted the text and derived arguments for it: the model accepts that only if the generator yields this text for them
            f2 = w.fields(t2)
            if len(f2) == len(before[1]) and f2[k][0] == nt:
                term = f"(OAdoptDerived {coq_nat(i)} {coq_nat(k)} {args_term(f2[k][1])} {text_term(f2[k][2])})"
            return term, "Done", f"adopt: {nt} {str(n)!r} replaced by the parse of {v!r}"
        if kind == "copy":
            if not top_level:
                return None
            others = [(i2, k2, n2) for i2, t2 in enumerate(w.pop) for k2, n2 in enumerate(w.field_nodes(t2))
                      if n2.symbol == n.symbol and n2 is not n and n2.parent is not None]
            if not others:
                return None
            i2, k2, n2 = rng.choice(others)
            term = f"(OCopyField {coq_nat(i)} {coq_nat(k)} {coq_nat(i2)} {coq_nat(k2)})"
            try:
                w.pop[i] = t.replace(g, n, n2)
            except FandangoError as e:
                return term, "Error", f"crossover of {nt} raised {type(e).__name__}: {str(e)[:80]}"
            return term, "Done", f"crossover: {nt} {str(n)!r} <- {str(n2)!r}"
    except RecursionError:
        return None
    return None


def is_inside(root, n):
    cur = n
    while cur is not None:
        if cur is root:
            return True
        cur = cur.parent
    return False


def choices_path(root, n):
    from fandango.language.tree import ChildStep, SourceStep
    p, cur = [], n
    while cur is not root:
        par = cur.parent
        idx = next((i for i, c in enumerate(par.children) if c is cur), None)
        if idx is not None:
            p.insert(0, ChildStep(idx))
        else:
            idx = next(i for i, c in enumerate(par.sources) if c is cur)
            p.insert(0, SourceStep(idx))
        cur = par
    return tuple(p)


def source_step(j):
    from fandango.language.tree import SourceStep
    return SourceStep(j)


def foreign_value(w, rng, nt, current):
    """a text that fits the rule of nt but differs from the current one"""
    for _ in range(20):
        if nt == "<d>":
            v = rng.choice("123") + "-" + rng.choice("123")
        elif nt == "<up>":
            v = rng.choice("ABC") + rng.choice("ABC")
        elif nt == "<low>":
            v = rng.choice("abc") + rng.choice("abc")
        else:
            v = "".join(rng.choice("0123") for _ in range(rng.randint(1, 3)))
        if v != current and pyre.fullmatch(w.rules[nt], v):
            return v
    return None


def op_worker(args):
    seed, n = args
    import sys
    sys.stderr = open("/dev/null", "w")
    from props import c07
    c07.quiet()
    res = c07.MiniRes()
    rng = random.Random(seed * 733 + 7)
    terms, infos = [], []
    for _ in range(n):
        ti = rng.randrange(len(TEMPLATES))
        random.seed(rng.randrange(1 << 30))
        w = World(rng, ti)
        steps, descr = [], []
        for _s in range(rng.randint(3, 9)):
            try:
                r = common.guarded(lambda: do_op(w, rng), 10)
            except common.ImplTimeout:
                res.bump("op_gave_up_10s")
                break
            except Exception as e:
                res.bump("op_crashed_" + type(e).__name__)
                descr.append("CRASH " + repr(e)[:200])
                steps.append(("(ODrop 99%nat)", "Error", w.abstract()))
                break
            if r is None:
                continue
            term, out, d = r
            if isinstance(term, tuple):
                if out == "Done":
                    steps.append((term[0], "Done", None))
                    descr.append(f"{term[0].split(' ')[0][1:]}: (first half of the next operation) => Done")
                term = term[1]
            steps.append((term, out, w.abstract()))
            descr.append(f"{term.split(' ')[0][1:]}: {d} => {out}")
            res.bump("op_" + term.split(" ")[0][1:] + "_" + out)
        if not steps:
            continue
        # g table: everything the model may ask for
        keys = set()
        for term, out, pop in steps:
            for d in pop or []:
                for f in d:
                    keys.add((f[0], f[1]))
        for k in list(w.gtable):
            keys.add(k)
        rows = []
        for nt, a in sorted(keys):
            v = w.g(nt, a)
            rows.append(f"({coq_string(nt)}, {args_term(a)}, {coq_opt(None if v is None else text_term(v))})")
        case = coq_list([f"({t}, {o}, {coq_opt(None if p is None else pop_term(p))})" for t, o, p in steps])
        terms.append(f"({coq_list(rows)}, {case})")
        infos.append({"template": ti, "grammar": TEMPLATES[ti][0], "history": descr, "final_population": [str(t) for t in w.pop]})
        res.count(("ops", ti, tuple(descr)), nontrivial=len(steps) >= 3)
    if infos:
        res.sample(infos[0])
    return (terms, infos), res.hist, res.counts, res.samples


def classify_known(info, code):
    """recorded defects, by the first disagreeing operation:
    'adopt'  -- an OAdopt that the implementation performed;
    'redraw' -- mutation / crossover of a generator node whose arguments are generator-defined themselves (template 1, <x>)"""
    idx = code - 10
    h = info["history"]
    if not (0 <= idx < len(h)) or not h[idx].endswith("=> Done"):
        return None
    if h[idx].startswith("OAdopt:") or h[idx].startswith("OAdoptDerived:"):
        return "adopt"
    if info["template"] == 1 and (h[idx].startswith("ORefuzzField: mutation: <x>") or h[idx].startswith("OCopyField: crossover: <x>")):
        return "redraw"
    return None


def e2e_worker(args):
    seed, n = args
    import sys
    sys.stderr = open("/dev/null", "w")
    from fandango import Fandango
    from fandango.evolution.evaluation import Evaluator
    from props import c07
    c07.quiet()
    res = c07.MiniRes()
    rng = random.Random(seed * 911 + 3)
    terms, infos = [], []
    for _ in range(n):
        ti = rng.randrange(len(TEMPLATES))
        gtxt, gens, rules, outside = TEMPLATES[ti]
        cons = rng.sample(CONSTRAINTS[ti], rng.choice([1, 1, 2]))
        spec = PRELUDE + FUNCS + "\n" + gtxt + "".join(f"where {c}\n" for c in cons)
        try:
            fan = Fandango(spec, use_stdlib=False)
        except Exception as e:
            res.bump("spec_rejected_" + type(e).__name__)
            continue
        g = fan.grammar
        log = g._global_variables["LOG"]
        w = World.__new__(World)
        w.grammar = g
        w.gens = gens
        w.e2e = True
        env_funcs = expected_table()
        seen, observed = set(), []
        orig = Evaluator.evaluate_individual

        def wrapped(self, individual):
            ret = yield from orig(self, individual)
            try:
                fs = tuple(w.fields(individual))
            except Exception:
                return ret
            if fs not in seen and len(observed) < 25:
                seen.add(fs)
                observed.append((fs, str(individual), "evaluated"))
            return ret

        Evaluator.evaluate_individual = wrapped
        random.seed(rng.randrange(1 << 30))
        sols = []
        try:
            sols = common.guarded(lambda: list(fan.fuzz(desired_solutions=rng.choice([3, 6]), max_generations=rng.choice([5, 10]),
                                                         population_size=rng.choice([8, 16]))), 25)
        except common.ImplTimeout:
            res.bump("run_gave_up_25s")
        except Exception as e:
            res.bump("run_raised_" + type(e).__name__)
        finally:
            Evaluator.evaluate_individual = orig
        for s in sols:
            try:
                observed.append((tuple(w.fields(s)), str(s), "solution"))
            except Exception:
                pass
        res.bump("runs")
        res.bump("solutions", len(sols))
        entries = sorted(set((e[0], tuple(e[1]), e[2]) for e in log))
        for fs, txt, what in observed:
            if not fs:
                continue
            nts = {f[0] for f in fs}
            es = [e for e in entries if e[0] in nts]
            if len(es) > 400:
                wanted = {(f[0], f[1]) for f in fs}
                es = [e for e in es if (e[0], e[1]) in wanted]
            eterm = coq_list([f"({coq_string(n_)}, {args_term(a)}, {text_term(v)})" for n_, a, v in es])
            terms.append(f"({eterm}, {ind_term(fs)})")
            eset = set(entries)

            def consistent(f):
                """the generator function, evaluated by the harness on the recorded arguments, yields exactly this text
                (a deterministic generator whose arguments were derived from the text by a converter: no call was logged)"""
                fn, params = gens[f[0]]
                if fn == "pick":
                    return False
                try:
                    d = dict(f[1])
                    return env_funcs[fn](*[d[p_] for p_ in params]) == f[2]
                except Exception:
                    return False
            nil = [(f[0], str(f[1]), f[2], any(e[0] == f[0] and e[2] == f[2] for e in entries)) for f in fs
                   if (f[0], tuple(f[1]), f[2]) not in eset and not consistent(f)]
            if any((f[0], tuple(f[1]), f[2]) not in eset and consistent(f) for f in fs):
                res.bump("fields_not_logged_but_equal_to_generator_value_for_recorded_arguments")
                es = entries + [(f[0], tuple(f[1]), f[2]) for f in fs if consistent(f)]
                eterm = coq_list([f"({coq_string(n_)}, {args_term(a)}, {text_term(v)})" for n_, a, v in es if n_ in nts])
                terms[-1] = f"({eterm}, {ind_term(fs)})"
            infos.append({"spec": gtxt + "".join(f"where {c}\n" for c in cons), "individual": txt, "what": what, "fields": [list(map(str, f)) for f in fs],
                          "not_in_log": nil})
            res.count(("inlog", txt, tuple(cons)), nontrivial=True)
            res.bump("observed_" + what)
    if infos:
        res.sample(infos[0])
    return (terms, infos), res.hist, res.counts, res.samples


def correspondence(res):
    from props import c02
    W = 14
    n = 420 if res.tier == "quick" else 3360
    terms, infos = c02.parallel(res, op_worker, [(res.seed * 1000 + w, max(1, n // W)) for w in range(W)])
    codes = common.run_case_codes("C16", "ops", HEADER, terms, "c16_ops", chunk=60, ctype=OT)
    res.coverage["rule"] = ("(1) operator histories (3-9 real operations: fuzz, mutation of a generator node, replacement of a recorded argument, replacement outside, "
                            "edit inside generated text, adoption of foreign text, crossover of generator nodes, drop) on real trees of 4 grammar templates with constant, "
                            "random, dependent, nested and misfitting generators; after every operation outcome and abstracted population are compared with the model. "
                            "(2) real fuzz() runs with constraints on generated fields and their surroundings: every evaluated individual and every solution must have "
                            "all generator fields in the log written by the generator functions. non-trivial = >= 3 operations; distinct by history")
    known, _ = common.load_known("C16")
    sigs = {k["signature"] for k in known}
    ok = 0
    for i, v in enumerate(codes):
        if v is None:
            raise Broken("evaluation failed (case file)", repr(infos[i])[:600])
        if v == 1:
            ok += 1
            continue
        kf = classify_known(infos[i], v)
        if kf == "adopt" and "generator-node-adopts-foreign-text" in sigs:
            res.known(KNOWN_ADOPT)
            res.bump("known_adopt")
            continue
        if kf == "redraw" and "recorded-arguments-redrawn" in sigs:
            res.known(KNOWN_REDRAW)
            res.bump("known_redraw")
            continue
        if len(res.violations) < 3:
            infos[i]["first_disagreement_at_operation"] = v - 10
            res.violation("a search operator treats a generator-defined field differently from the model (outcome or resulting fields)", infos[i])
    n2 = 28 if res.tier == "quick" else 168
    terms2, infos2 = c02.parallel(res, e2e_worker, [(res.seed * 1000 + 500 + w, max(1, n2 // W)) for w in range(W)])
    codes2 = common.run_case_codes("C16", "inlog", HEADER, terms2, "c16_inlog", chunk=60, ctype=LT)
    for i, v in enumerate(codes2):
        if v is None:
            raise Broken("evaluation failed (case file)", repr(infos2[i])[:600])
        if v == 1:
            ok += 1
            continue
        if "recorded-arguments-redrawn" in sigs and redraw_signature(infos2[i], terms2[i]):
            res.known(KNOWN_REDRAW)
            res.bump("known_redraw_e2e")
            continue
        if len(res.violations) < 3:
            res.violation("an individual of a real run carries generator-field text that the generator never returned for the recorded arguments", infos2[i])
    res.coverage["traces_validated_against_impl"] = ok


def redraw_signature(info, term):
    """the recorded defect in a run: the only fields not in the log are <x> fields (template 1: the argument <y> is generator-defined itself)
    whose text the generator did return -- for other argument values"""
    bad = info.get("not_in_log", [])
    return bool(bad) and all(b[0] == "<x>" and b[3] for b in bad)


def adopt_signature(info):
    """the recorded defect in a run: a constraint compares a generator field without arguments with a constant, and the field carries that constant"""
    spec = info["spec"]
    for f in info["fields"]:
        nt, a, v = f[0], f[1], f[2]
        if a != "()":
            continue
        for m in pyre.finditer(r"(?:str|int)\(" + pyre.escape(nt) + r"\) == \"?([0-9A-Za-z-]+)\"?", spec):
            if m.group(1) == v:
                return True
    return False


def search(res):
    pass


def replay(res, rp):
    print("replay: re-run ./check C16 with the same VERIF_SEED; case:", str(rp.get("replay"))[:800])
    return 0
