"""C18 -- Fandango instances in one process do not influence each other."""
import json
import os
import random
import subprocess
import sys
import tempfile

import common
from common import Broken

FILES = ["Model/IsolationM.v", "Proofs/C18.v", "Props/C18.v"]

KNOWN_CAP = ("max-repetitions-global: nodes.MAX_REPETITIONS is a module global; the adaptive tuner of one instance's search raises it "
             "(Grammar.set_max_repetition) and nobody resets it, so open-ended repetitions of every other instance fuzz (and parse) under the raised cap")


def obligations(res):
    rc, out = common.make([common.vo(f) for f in FILES])
    res.coverage["obligations"] = common.count_obligations(FILES)
    res.coverage["checker_cmd"] = "coqc (make -f Makefile.coq) + Print Assumptions in Props/C18.v"
    if rc != 0:
        raise Broken("C18 theorems (Proofs/C18.v) no longer compile", out)
    n, ax = common.check_props("C18")
    res.coverage["discharged"] = res.coverage["obligations"]
    res.coverage["trusted_base"] = ax or ["Closed under the global context (no axioms)"]
    res.assumptions += [
        "Coq kernel; no axioms",
        "The theorems reduce isolation to a frame condition: operations on one instance leave the shared (module-level) state unchanged, or never "
        "read it.  The frame condition is MEASURED on the real code, not proved: a snapshot of all module-level and class-level data of every loaded "
        "fandango module (ints, strings, containers of those, recursively) is taken before and after activity on instance A in a fresh process; "
        "state held in closures, C extensions or the interpreter (the `random` stream is re-seeded before B is used: 'under fixed seeds') is not seen",
        "the property itself is judged differentially: B's solutions / parse results with and without prior activity on A, each variant in its own "
        "fresh interpreter under PYTHONHASHSEED=0; scenarios whose B-alone output differs between two fresh interpreters are dropped as nondeterministic (C17)",
        "C18_cap_leaks_refuted is about a small model of the cap logic (tuner raises, repetitions and parser read); the harness confirms the leak on the real code "
        "and reports it as KNOWN-FINDING",
    ]


# ------------------------------------------------------------------ scenarios

A_SPECS = [
    # (spec, fuzz kwargs) -- searches that stagnate make the tuner raise the repetition cap
    ('<start> ::= <d>+\n<d> ::= "0" | "1"\nwhere len(str(<start>)) > 60\n', dict(desired_solutions=2, max_generations=8, population_size=10)),
    ('<start> ::= <d>{1,}\n<d> ::= "0" | "1"\nwhere str(<start>).count("1") > 40\n', dict(desired_solutions=2, max_generations=12, population_size=10)),
    ('<start> ::= <item>*\n<item> ::= "a" | "b" <item>\nwhere str(<start>) == "abba"\n', dict(desired_solutions=3, max_generations=6, population_size=12)),
    ('<start> ::= <k> "=" <v>\n<k> ::= "x" | "y"\n<v> ::= <d>{1,3}\n<d> ::= "0" | "1"\nwhere int(<v>) > 5\n', dict(desired_solutions=5, max_generations=5, population_size=10)),
    ('<start> ::= <a> <b>\n<a> ::= <d>+ := "12"\n<b> ::= <d>+\n<d> ::= "0" | "1" | "2"\nwhere int(<b>) > 1000000\n', dict(desired_solutions=2, max_generations=10, population_size=10)),
]
B_SPECS = [
    ('<start> ::= <w>*\n<w> ::= "p" | "q"\n', ["", "pq", "p" * 25, "q" * 19]),
    ('<start> ::= <n>+ ";"\n<n> ::= "0" | "1" | "2"\nwhere len(str(<start>)) > 3\n', ["012;", "0" * 30 + ";", ";"]),
    ('<start> ::= <rec>{2,}\n<rec> ::= <k> "=" <v> ";"\n<k> ::= "a" | "b"\n<v> ::= <d>{1,3}\n<d> ::= "0" | "1"\nwhere str(<rec>.<k>) != "c"\n', ["a=1;b=01;", "a=1;"]),
    ('<start> ::= <a> | <a> "," <start>\n<a> ::= "x" | "y"\n', ["x,y,x", "x"]),
    ('<start> ::= <h> <body>\n<h> ::= "#"{1,4}\n<body> ::= <c>*\n<c> ::= "a" | "b" | "c"\nwhere len(str(<body>)) >= 2\n', ["#ab", "####" + "abc" * 9]),
]

CHILD = r'''
import json, random, sys, types, logging
sys.setrecursionlimit(5000)
scn = json.load(open(sys.argv[1]))
from fandango import Fandango
from fandango.logger import LOGGER
LOGGER.setLevel(logging.CRITICAL)
import signal
class TO(BaseException): pass
def _h(*a): raise TO()
signal.signal(signal.SIGALRM, _h)

def freeze(v, d=0):
    if isinstance(v, (int, float, str, bool, bytes)) or v is None:
        return repr(v)
    if d > 3:
        return "<deep>"
    if isinstance(v, (list, tuple)):
        return [freeze(x, d + 1) for x in v[:200]]
    if isinstance(v, (set, frozenset)):
        return sorted(str(freeze(x, d + 1)) for x in list(v)[:200])
    if isinstance(v, dict):
        return sorted((str(freeze(k, d + 1)), str(freeze(x, d + 1))) for k, x in list(v.items())[:200])
    return None

def snapshot():
    snap = {}
    for name, mod in list(sys.modules.items()):
        if not name.startswith("fandango") or mod is None:
            continue
        for k, v in list(vars(mod).items()):
            if k.startswith("__"):
                continue
            if isinstance(v, type) and getattr(v, "__module__", "").startswith("fandango"):
                for ck, cv in list(vars(v).items()):
                    if ck.startswith("__"):
                        continue
                    f = freeze(cv)
                    if f is not None:
                        snap[f"{v.__module__}.{v.__qualname__}.{ck}"] = f
                continue
            if isinstance(v, (types.ModuleType, types.FunctionType, type)):
                continue
            f = freeze(v)
            if f is not None:
                snap[f"{name}.{k}"] = f
    return snap

out = {"frame_diff": {}, "b": []}
fb = None
if scn.get("b_first"):
    # both spec objects exist before anything is done with either
    try:
        signal.alarm(60)
        fb = Fandango(scn["b_spec"])
        signal.alarm(0)
    except TO:
        out["b_timeout"] = True
if scn["with_a"]:
    before = snapshot()
    try:
        signal.alarm(60)
        fa = Fandango(scn["a_spec"])
        for act in scn["a_activity"]:
            if act[0] == "fuzz":
                random.seed(act[1])
                try:
                    fa.fuzz(**act[2])
                except Exception as e:
                    pass
            elif act[0] == "parse":
                try:
                    list(fa.parse(act[1]))
                except Exception:
                    pass
        signal.alarm(0)
    except TO:
        out["a_timeout"] = True
    after = snapshot()
    for k in sorted(set(before) | set(after)):
        if before.get(k) != after.get(k):
            out["frame_diff"][k] = [str(before.get(k))[:120], str(after.get(k))[:120]]
import fandango.language.grammar.nodes as nodes
out["cap_before_b"] = nodes.MAX_REPETITIONS
try:
    signal.alarm(90)
    if fb is None:
        fb = Fandango(scn["b_spec"])
    for req in scn["b_requests"]:
        if req[0] == "fuzz":
            random.seed(req[1])
            try:
                sols = [str(s) for s in fb.fuzz(**req[2])]
            except Exception as e:
                sols = ["raised " + type(e).__name__]
            out["b"].append(sols)
        else:
            try:
                ts = [t.to_repr() if hasattr(t, "to_repr") else repr(t) for t in fb.parse(req[1])]
                out["b"].append(["parsed %d" % len(ts)] + [x[:300] for x in ts[:3]])
            except Exception as e:
                out["b"].append(["raised " + type(e).__name__])
    signal.alarm(0)
except TO:
    out["b_timeout"] = True
json.dump(out, open(sys.argv[2], "w"))
'''


def run_child(scn):
    with tempfile.TemporaryDirectory(prefix="c18_") as d:
        inp, outp, prog = os.path.join(d, "in.json"), os.path.join(d, "out.json"), os.path.join(d, "child.py")
        json.dump(scn, open(inp, "w"))
        open(prog, "w").write(CHILD)
        env = dict(os.environ)
        try:
            subprocess.run([sys.executable, prog, inp, outp], env=env, stdout=subprocess.DEVNULL, stderr=subprocess.DEVNULL, timeout=240)
        except subprocess.TimeoutExpired:
            return None
        if not os.path.exists(outp):
            return None
        return json.load(open(outp))


# two specs whose terminals have the same text, once as a literal and once as a regex (anything memoised per terminal VALUE is shared)
TWIN_A = '<start> ::= "[ab]" <x>*\n<x> ::= "a.c" | "q" | "a"\n'
TWIN_B = '<start> ::= r"[ab]" <y>*\n<y> ::= r"a.c" | "z" | r"a"\n'
TWIN_WORDS = ["a", "b", "aabc", "[ab]", "[ab]a.c", "aa.c", "bz", "[ab]q", "baxc"]


# two specs that use the same nonterminal NAMES for different rules (anything memoised per name is shared); bounded repetitions only, so the
# recorded cap leak cannot be what makes B differ; the constraints fail on most first attempts, so mutation and crossover run
NAME_A = '<start> ::= <k> <n>{4,6}\n<k> ::= "x"\n<n> ::= "0" | "1"\nwhere str(<start>).count("1") >= 4\n'
NAME_B = '<start> ::= <k>{6,8} <n>\n<k> ::= "x" | "y" | "z"\n<n> ::= ";"\nwhere str(<start>).count("y") >= 5\n'


def has_open_repetition(spec):
    import re
    grammar = "\n".join(l for l in spec.splitlines() if "::=" in l)
    grammar = re.sub(r'r?"(?:[^"\\]|\\.)*"', "", grammar)
    return bool(re.search(r"[*+]|\{\s*\d*\s*,\s*\}", grammar))


def gen_scenario(rng):
    if rng.random() < 0.2:
        first, second = (NAME_A, NAME_B) if rng.random() < 0.6 else (NAME_B, NAME_A)
        kw = dict(desired_solutions=6, max_generations=10, population_size=8)
        acts = [["fuzz", rng.randrange(1000), kw] for _ in range(rng.randint(1, 2))]
        reqs = [["fuzz", rng.randrange(1000), kw] for _ in range(rng.randint(1, 2))]
        return {"a_spec": first, "a_activity": acts, "b_spec": second, "b_requests": reqs, "b_first": rng.random() < 0.3}
    if rng.random() < 0.25:
        first, second = (TWIN_A, TWIN_B) if rng.random() < 0.5 else (TWIN_B, TWIN_A)
        acts = [["parse", w] for w in rng.sample(TWIN_WORDS, 4)] + [["fuzz", rng.randrange(1000), dict(desired_solutions=3, max_generations=2, population_size=6)]]
        reqs = [["parse", w] for w in rng.sample(TWIN_WORDS, 4)] + [["fuzz", rng.randrange(1000), dict(desired_solutions=3, max_generations=2, population_size=6)]]
        return {"a_spec": first, "a_activity": acts, "b_spec": second, "b_requests": reqs, "b_first": rng.random() < 0.4}
    a_spec, a_kw = rng.choice(A_SPECS)
    b_spec, b_words = rng.choice(B_SPECS)
    acts = []
    for _ in range(rng.randint(1, 3)):
        if rng.random() < 0.75:
            acts.append(["fuzz", rng.randrange(1000), a_kw])
        else:
            acts.append(["parse", rng.choice(["0101", "ab", "x=1", "12", ""])])
    reqs = []
    for _ in range(rng.randint(1, 3)):
        if rng.random() < 0.6:
            reqs.append(["fuzz", rng.randrange(1000), dict(desired_solutions=rng.choice([3, 6]), max_generations=rng.choice([3, 6]), population_size=10)])
        else:
            reqs.append(["parse", rng.choice(b_words)])
    return {"a_spec": a_spec, "a_activity": acts, "b_spec": b_spec, "b_requests": reqs, "b_first": rng.random() < 0.4}


def scenario_worker(args):
    seed, n = args
    rng = random.Random(seed * 191 + 17)
    out = []
    for _ in range(n):
        scn = gen_scenario(rng)
        alone1 = run_child(dict(scn, with_a=False))
        alone2 = run_child(dict(scn, with_a=False))
        with_a = run_child(dict(scn, with_a=True))
        out.append((scn, alone1, alone2, with_a))
    return out


def correspondence(res):
    import multiprocessing as mp
    W = 14
    n = 28 if res.tier == "quick" else 112
    jobs = [(res.seed * 1000 + w, max(1, n // W)) for w in range(W)]
    with mp.get_context("fork").Pool(W) as pool:
        outs = pool.map(scenario_worker, jobs)
    known, _ = common.load_known("C18")
    sigs = {k["signature"] for k in known}
    channels = {}
    ok = 0
    for chunk in outs:
        for scn, a1, a2, wa in chunk:
            if a1 is None or a2 is None or wa is None or a1.get("b_timeout") or a2.get("b_timeout") or wa.get("b_timeout") or wa.get("a_timeout"):
                res.bump("scenario_inconclusive_timeout")
                continue
            if a1["b"] != a2["b"]:
                res.bump("scenario_dropped_nondeterministic_alone")
                continue
            for k in wa["frame_diff"]:
                channels[k] = channels.get(k, 0) + 1
            res.count(("scenario", json.dumps(scn, sort_keys=True)), nontrivial=any(a[0] == "fuzz" for a in scn["a_activity"]))
            res.bump("frame_changed" if wa["frame_diff"] else "frame_unchanged")
            if wa["b"] == a1["b"]:
                ok += 1
                res.bump("b_same_with_and_without_a")
                continue
            info = {"scenario": scn, "b_alone": a1["b"], "b_after_a": wa["b"], "shared_state_changed_by_a": wa["frame_diff"],
                    "cap_before_b_alone": a1["cap_before_b"], "cap_before_b_after_a": wa["cap_before_b"]}
            # fandango.logger.COLUMNS caches the terminal width for progress output (presentation only)
            # (an entry whose rendering is the same before and after -- e.g. a lexer slot set to None again -- carries nothing)
            changed = {k for k, v in wa["frame_diff"].items() if v[0] != v[1]} - {"fandango.logger.COLUMNS"}
            # the cap can only matter to a spec with an open-ended repetition
            only_cap = changed == {"fandango.language.grammar.nodes.MAX_REPETITIONS"} and has_open_repetition(scn["b_spec"])
            if only_cap and "max-repetitions-global" in sigs:
                res.known(KNOWN_CAP)
                res.bump("known_cap_leak")
                res.sample(info, cap=6)
                continue
            if not wa["frame_diff"]:
                info["note"] = "no module-level data changed: the influence goes through state the snapshot does not see"
            if len(res.violations) < 3:
                res.violation("what instance B yields depends on earlier activity on instance A", info)
    res.coverage["rule"] = ("scenarios (spec A x 1-3 activities on A: fuzz runs whose search stagnates, parses; spec B x 1-3 requests: fuzz under a fixed seed, parse); "
                            "B alone (twice) and A-then-B each in a fresh interpreter; B's outputs compared; module-level state of all fandango modules "
                            "snapshotted around A's activity. non-trivial = A's activity includes a fuzz run; distinct by scenario")
    res.coverage["shared_state_channels_seen"] = channels
    res.coverage["traces_validated_against_impl"] = ok


def search(res):
    pass


def replay(res, rp):
    print("replay: re-run ./check C18 with the same VERIF_SEED; case:", str(rp.get("replay"))[:800])
    return 0
