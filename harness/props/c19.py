"""C19 -- protocol forecasting offers exactly the grammar's continuations."""
import random
import re as pyre

import common
from common import Broken, coq_bool, coq_list, coq_opt, coq_string

FILES = ["Base/Re.v", "Base/Grammar.v", "Model/ForecastM.v", "Model/SliceM.v", "Model/C19Case.v", "Proofs/C19.v", "Proofs/C19Slice.v", "Props/C19.v"]
HEADER = ("From Coq Require Import List String NArith Bool Arith.\n"
          "From FV Require Import Base.Re Base.Grammar Model.ForecastM Model.SliceM Model.C19Case.\n"
          "Import ListNotations.\nOpen Scope string_scope.\nOpen Scope list_scope.\n")
CT = "(list (string * rhs) * option (bool * list string) * list msg * list msg * bool)"
RT = "(list (string * rhs) * (bool * list string))"
PT = "(list (string * rhs) * option (bool * list string) * list msg * list msg * bool * list (msg * msg))"
KNOWN_NULL = ("empty-deriving-nonterminal-not-completed: the forecaster re-parses the history with the Earley parser, which does not complete an empty-deriving "
              "nonterminal in every case (C05 nullable-reprediction): with such a control nonterminal (or the implicit symbol of a `*`, `?`, `{0,n}` repetition) a full interaction is not reported complete, or continuations "
              "after the empty derivation are not offered")
KNOWN_MERGE = ("options-merged-over-recipients: ForecastingNonTerminals keeps one packet per (sender, message type); when a grammar sends one message type "
               "from one sender to different recipients at different places, the options are merged and carry the recipient of the first one found")

PARTIES = '''
class Fuzzer(FandangoParty):
    def __init__(self):
        super().__init__(connection_mode=ConnectionMode.OPEN)

    def send(self, message, recipient):
        pass

class Extern(FandangoParty):
    def __init__(self):
        super().__init__(connection_mode=ConnectionMode.EXTERNAL)

class Third(FandangoParty):
    def __init__(self):
        super().__init__(connection_mode=ConnectionMode.EXTERNAL)
'''
MSGS = [("<m0>", "Fuzzer", "Extern"), ("<m1>", "Extern", "Fuzzer"), ("<m2>", "Fuzzer", "Third"), ("<m3>", "Third", "Fuzzer"),
        ("<m4>", "Fuzzer", None), ("<m5>", "Extern", None)]


def obligations(res):
    rc, out = common.make([common.vo(f) for f in FILES])
    res.coverage["obligations"] = common.count_obligations(FILES)
    res.coverage["checker_cmd"] = "coqc (make -f Makefile.coq) + Print Assumptions in Props/C19.v"
    if rc != 0:
        raise Broken("C19 theorems (Proofs/C19.v) no longer compile", out)
    n, ax = common.check_props("C19")
    res.coverage["discharged"] = res.coverage["obligations"]
    res.coverage["trusted_base"] = ax or ["Closed under the global context (no axioms)"]
    res.assumptions += [
        "Coq kernel + vm_compute; no axioms",
        "The theorem is about the message-level regular expression of the protocol grammar (messages are letters, all other nonterminals inlined): the "
        "derivative-based forecast is exact for every expression and every history.  The forecaster itself (StateGrammarConverter, prefix-mode "
        "re-parsing, ContinuingNodeVisitor) is NOT modelled: PacketForecaster.predict of the real code is run on every history reached and its answer "
        "compared in Coq with the forecast of the exported grammar",
        "Slicing: Model/SliceM.v models slice_parties (both modes: ignore_receivers=True / False, vis_mode) on the exported UNSLICED rules; theorems: only kept parties' messages remain, "
        "only other parties' messages are removed, every sliced interaction is the visible part of a full interaction (given that no sequence member is "
        "infeasible).  The tie: the real forecaster on the really sliced grammar must agree with the forecast of the model's slice",
        "non-recursive protocol grammars only (recursion through non-message nonterminals makes the model give up: code 5, counted); open-ended repetitions "
        "are unbounded in the model, capped at nodes.MAX_REPETITIONS (20) in the code: histories explored are shorter",
        "completeness is not judged for the empty history (predict() takes a shortcut there and never reports a complete tree); slicing: 30% of the "
        "generated grammars are sliced to a subset of parties with the real slice_parties(ignore_receivers=True) first; the model slices the exported "
        "UNSLICED rules itself (Model/SliceM.v, a model of PacketTruncator + the rule-deletion rounds) and the real forecasts on the really sliced grammar "
        "must be exact for the model's sliced expression; both modes of slice_parties are exercised (ignore_receivers=True as --party does, False as truncate_invisible_packets does before a protocol run)",
        "histories are built the way the search does it: the option's mounting path is taken and the message node fuzzed into the collapsed history tree",
    ]


# ------------------------------------------------------------------ protocol grammars

RECIPIENTS = {"Fuzzer": ["Extern", "Third", None], "Extern": ["Fuzzer", None], "Third": ["Fuzzer", None]}


def msg_ref(rng, used):
    nt, s, r = rng.choice(MSGS[: rng.choice([2, 3, 4, 6])])
    used.add(nt)
    # (one message type of one sender going to different recipients is exercised by the fixed grammars only: on random grammars of that kind
    #  the recorded finding options-merged-over-recipients makes the history trees themselves ambiguous)
    return f"<{s}:{r}:{nt[1:-1]}>" if r else f"<{s}:{nt[1:-1]}>"


def gen_symbol(rng, depth, refs, used):
    r = rng.random()
    if depth > 0 and r < 0.3:
        return "(" + gen_alt(rng, depth - 1, refs, used) + ")"
    if refs and r < 0.45:
        return rng.choice(refs)
    return msg_ref(rng, used)


def gen_operator(rng, depth, refs, used):
    s = gen_symbol(rng, depth, refs, used)
    if rng.random() < 0.5:
        return s
    return s + rng.choice(["?", "*", "+", "{2}", "{1,2}", "{0,2}", "{2,3}", "{1,}", "{2,}", "{0,1}", "{3}"])


def gen_alt(rng, depth, refs, used):
    return " | ".join(" ".join(gen_operator(rng, depth, refs, used) for _ in range(rng.choice([1, 2, 2, 3]))) for _ in range(rng.choice([1, 1, 2, 3])))


def gen_protocol(rng):
    names = ["<start>", "<a>", "<b>"][: rng.randint(1, 3)]
    used = set()
    lines = []
    for i, n in enumerate(names):
        lines.append(f"{n} ::= {gen_alt(rng, rng.randint(0, 2), names[i + 1:], used)}")
    for nt, s, r in MSGS:
        if nt in used:
            lines.append(f"{nt} ::= '{nt[1:-1]};'")
    return "\n".join(lines) + "\n" + PARTIES, names


FIXED = [
    # tests/resources/forecaster.fan with parties
    ("<start> ::= <a>\n<a> ::= <b> <Fuzzer:Extern:m0>{1,2} <f>\n<b> ::= <Extern:Fuzzer:m1>? <Fuzzer:m4>*\n<f> ::= <Extern:m5> | <h>\n<h> ::= <Third:Fuzzer:m3>\n"
     "<m0> ::= 'm0;'\n<m1> ::= 'm1;'\n<m3> ::= 'm3;'\n<m4> ::= 'm4;'\n<m5> ::= 'm5;'\n" + PARTIES, ["<start>", "<a>", "<b>", "<f>", "<h>"]),
    # after the last allowed repetition
    ("<start> ::= (<Fuzzer:Extern:m0> <Extern:Fuzzer:m1>){2} <Fuzzer:Extern:m0>?\n<m0> ::= 'm0;'\n<m1> ::= 'm1;'\n" + PARTIES, ["<start>"]),
    ("<start> ::= <Fuzzer:Extern:m0>{2,3} <Fuzzer:Extern:m0>\n<m0> ::= 'm0;'\n" + PARTIES, ["<start>"]),
    ("<start> ::= (<Fuzzer:Extern:m0>? <Extern:Fuzzer:m1>)* <Fuzzer:Third:m2>\n<m0> ::= 'm0;'\n<m1> ::= 'm1;'\n<m2> ::= 'm2;'\n" + PARTIES, ["<start>"]),
    ("<start> ::= (<Fuzzer:Extern:m0> | <Fuzzer:Extern:m0> <Extern:Fuzzer:m1>){1,2}\n<m0> ::= 'm0;'\n<m1> ::= 'm1;'\n" + PARTIES, ["<start>"]),
    # one message type, one sender, two recipients, different continuations
    ("<start> ::= <Fuzzer:Extern:m0> | <Fuzzer:Third:m0> <Third:Fuzzer:m3>\n<m0> ::= 'm0;'\n<m3> ::= 'm3;'\n" + PARTIES, ["<start>"]),
    ("<start> ::= (<Fuzzer:Extern:m0> <Extern:Fuzzer:m1> | <Fuzzer:Third:m0> <Third:Fuzzer:m3>){2}\n<m0> ::= 'm0;'\n<m1> ::= 'm1;'\n<m3> ::= 'm3;'\n" + PARTIES, ["<start>"]),
]


# grammars sliced to fixed party sets: runs of adjacent alternatives / sequence members / repetitions that are all to be removed, rules that vanish entirely
MS = "<m0> ::= 'm0;'\n<m1> ::= 'm1;'\n<m2> ::= 'm2;'\n<m3> ::= 'm3;'\n<m5> ::= 'm5;'\n"
FIXED_SLICED = [
    ("<start> ::= <Fuzzer:Extern:m0> (<Extern:Third:m1> | <Third:Extern:m3> | <Fuzzer:Extern:m2> | <Extern:m5> | <Third:Extern:m1>) <Fuzzer:Third:m2>\n" + MS + PARTIES,
     ["<start>"], {"Fuzzer"}),
    ("<start> ::= <Fuzzer:Extern:m0> <c> <Fuzzer:Third:m2>?\n<c> ::= <d> | <e> | <Third:Fuzzer:m3> | <Fuzzer:Extern:m2>\n<d> ::= <Extern:Fuzzer:m1>+\n"
     "<e> ::= <Extern:Third:m5> <Extern:Fuzzer:m1>\n" + MS + PARTIES, ["<start>", "<c>", "<d>", "<e>"], {"Fuzzer", "Third"}),
    ("<start> ::= (<Extern:Fuzzer:m1> <Third:Fuzzer:m3> <Fuzzer:Extern:m0> <Extern:m5> <Third:Extern:m3>){1,2} <k>*\n<k> ::= <Third:Fuzzer:m3> | <Extern:Fuzzer:m1>\n"
     + MS + PARTIES, ["<start>", "<k>"], {"Fuzzer"}),
    ("<start> ::= <a> <Fuzzer:Extern:m0>\n<a> ::= <b> | <b> <b>\n<b> ::= <Extern:Fuzzer:m1> | <Third:Fuzzer:m3>\n" + MS + PARTIES, ["<start>", "<a>", "<b>"], {"Fuzzer"}),
    ("<start> ::= <a>\n<a> ::= <Extern:Fuzzer:m1> | <Third:Fuzzer:m3>\n" + MS + PARTIES, ["<start>", "<a>"], {"Fuzzer"}),
]

# the same with ignore_receivers=False (forced = (parties, True)): a message stays when its sender OR its recipient is kept, or when it has no recipient
FIXED_SLICED_IO = [
    ("<start> ::= <Fuzzer:Extern:m0> (<Extern:Third:m1> | <Third:Extern:m3> | <Fuzzer:Extern:m2> | <Extern:m5> | <Third:Extern:m1>) <Fuzzer:Third:m2>\n" + MS + PARTIES,
     ["<start>"], ({"Fuzzer"}, True)),
    ("<start> ::= <Fuzzer:Extern:m0> <c> <Fuzzer:Third:m2>?\n<c> ::= <d> | <e> | <Third:Fuzzer:m3> | <Fuzzer:Extern:m2>\n<d> ::= <Extern:Fuzzer:m1>+\n"
     "<e> ::= <Extern:Third:m5> <Extern:Fuzzer:m1>\n" + MS + PARTIES, ["<start>", "<c>", "<d>", "<e>"], ({"Fuzzer"}, True)),
    ("<start> ::= (<Extern:Third:m1> <Third:Extern:m3> <Fuzzer:Extern:m0> <Extern:m5> <Third:Extern:m3>){1,2} <k>*\n<k> ::= <Third:Extern:m3> | <Extern:Third:m1>\n"
     + MS + PARTIES, ["<start>", "<k>"], ({"Fuzzer"}, True)),
    ("<start> ::= <a> <Fuzzer:Extern:m0>\n<a> ::= <b> | <b> <b>\n<b> ::= <Extern:Third:m1> | <Third:Extern:m3>\n" + MS + PARTIES, ["<start>", "<a>", "<b>"], ({"Fuzzer"}, True)),
    ("<start> ::= <a>\n<a> ::= <Extern:Fuzzer:m1> | <Third:Fuzzer:m3>\n" + MS + PARTIES, ["<start>", "<a>"], ({"Third"}, True)),
]


def option_names(pred):
    out = set()
    for party, fnt in pred.parties_to_packets.items():
        for nt, fp in fnt.nt_to_packet.items():
            s, r = fp.node.sender, fp.node.recipient
            out.add(f"{s}:{r}:{nt.name()}")
    return sorted(out)


def mount(grammar, fp, rng):
    """put the forecast message into the history tree, as PopulationManager._generate_population_entry does"""
    from fandango.language.tree import DerivationTree
    from fandango.language.symbols import NonTerminal
    paths = sorted(fp.paths, key=lambda p: repr(p))
    mo = rng.choice(paths)
    tree = grammar.collapse(mo.tree)
    dummy = DerivationTree(NonTerminal("<hookin>"))
    tree.append(mo.path[1:-1], dummy)
    fuzz_point = dummy.parent
    fuzz_point.set_children(fuzz_point.children[:-1])
    fp.node.fuzz(fuzz_point, grammar, 20)
    return tree, len(paths)


def walk(grammar, forecaster, rng, tree, hist, depth, records, budget):
    if budget[0] <= 0:
        return
    budget[0] -= 1
    pred = forecaster.predict(tree)
    opts = option_names(pred)
    records.append((list(hist), opts, len(pred.complete_trees) > 0))
    if depth == 0:
        return
    items = [(f"{fp.node.sender}:{fp.node.recipient}:{nt.name()}", fp) for party, fnt in sorted(pred.parties_to_packets.items())
             for nt, fp in sorted(fnt.nt_to_packet.items(), key=lambda kv: kv[0].name())]
    rng.shuffle(items)
    for name, fp in items[:3]:
        t2, npaths = mount(grammar, fp, rng)
        walk(grammar, forecaster, rng, t2, hist + [name], depth - 1, records, budget)


def gen_worker(args):
    seed, n = args
    import sys
    sys.stderr = open("/dev/null", "w")
    from fandango import Fandango
    from fandango.io.navigation.packetforecaster import PacketForecaster
    from fandango.language.tree import DerivationTree
    from fandango.language.symbols import NonTerminal
    from props import c07, c15
    c07.quiet()
    res = c07.MiniRes()
    rng = random.Random(seed * 353 + 29)
    terms, infos = [], []
    specs = [(s_, n_, None) for s_, n_ in FIXED] if seed % 1000 == 0 else (list(FIXED_SLICED) if seed % 1000 == 1 else (list(FIXED_SLICED_IO) if seed % 1000 == 2 else []))
    while len(specs) < n:
        specs.append(gen_protocol(rng) + (None,))
    for spec, names, forced in specs:
        forced_io = False
        if isinstance(forced, tuple):
            forced, forced_io = forced
        try:
            fan = Fandango(spec, use_stdlib=False, use_cache=False)
            g = fan.grammar
            sliced = None
            rx = c15.RuleExport(g, [], set(names))          # exported BEFORE slicing: the model slices by itself
            if forced or rng.random() < 0.3:
                # the spec sliced to a subset of parties (as `fandango ... --party` does)
                from fandango.language.parse.slice_parties import slice_parties
                sliced = forced or rng.choice([{"Fuzzer"}, {"Extern"}, {"Fuzzer", "Third"}, {"Extern", "Third"}, {"Third"}])
                # both modes: ignore_receivers=True (--party / parties=[...]) and False (truncate_invisible_packets before a protocol run)
                ignore_rcv = not (forced_io if forced else rng.random() < 0.4)
                slice_parties(g, set(sliced), ignore_receivers=ignore_rcv)
                res.bump("sliced_ignore_receivers_%s" % ignore_rcv)
                sliced = (ignore_rcv, sorted(sliced))
                from fandango.language.symbols import NonTerminal as _NT
                res.bump("sliced_grammar")
                if _NT("<start>") not in g.rules:
                    res.bump("sliced_away_start")
                    terms.append(("removed", rx.term(), sliced))
                    infos.append({"spec": spec.split("class Fuzzer")[0], "sliced_to": list(sliced[1]), "ignore_receivers": sliced[0], "history": None, "start_sliced_away": True})
                    continue
            fc = PacketForecaster(g)
            import earley
            nul = earley.nullable_map(g)[0]
            nullable_control = sorted(k.name() for k, v in nul.items() if v and k.name() in names)
            from fandango.language.grammar.nodes.repetition import Repetition as _Rep

            def _empty_reps(n):
                own = 1 if (isinstance(n, _Rep) and n.min == 0) else 0
                return own + sum(_empty_reps(c) for c in n.children())
            nullable_implicit = [None] * sum(_empty_reps(g.rules[k]) for k in g.rules if k.name() in names)
        except Exception as e:
            res.bump("spec_skipped_" + type(e).__name__)
            continue
        records = []
        try:
            common.guarded(lambda: walk(g, fc, rng, DerivationTree(NonTerminal("<start>")), [], 5, records, [40]), 40)
        except common.ImplTimeout:
            res.bump("walk_gave_up_40s")
        except Exception as e:
            res.bump("walk_raised_" + type(e).__name__)
            infos.append({"spec": spec.split("class Fuzzer")[0], "history": None, "crash": repr(e)[:300]})
            terms.append(None)
            continue
        for hist, opts, complete in records:
            judged_complete = complete if hist else None
            terms.append((rx.term(), sliced, hist, opts, complete))
            infos.append({"spec": spec.split("class Fuzzer")[0], "sliced_to": list(sliced[1]) if sliced else None, "ignore_receivers": sliced[0] if sliced else None, "history": hist, "offered": opts,
                          "reported_complete": complete, "nullable_control_nonterminals": nullable_control,
                          "empty_deriving_repetition_symbols": len(nullable_implicit)})
            res.count(("forecast", spec, (sliced[0], tuple(sliced[1])) if sliced else None, tuple(hist)), nontrivial=len(hist) >= 1)
            res.bump("history_len_%d" % len(hist))
    if infos:
        res.sample(infos[min(len(infos) - 1, 3)])
    return (terms, infos), res.hist, res.counts, res.samples


def correspondence(res):
    from props import c02
    W = 14
    n = 84 if res.tier == "quick" else 336
    terms, infos = c02.parallel(res, gen_worker, [(res.seed * 1000 + w, max(1, n // W)) for w in range(W)])
    crashes = [inf for t, inf in zip(terms, infos) if t is None]
    removed = [(t, inf) for t, inf in zip(terms, infos) if t is not None and t[0] == "removed"]
    pairs = [(t, inf) for t, inf in zip(terms, infos) if t is not None and t[0] != "removed"]

    def mode_term(keep):
        return f"({coq_bool(keep[0])}, {coq_list([coq_string(k) for k in keep[1]])})"

    def keep_term(keep):
        return coq_opt(None if keep is None else mode_term(keep))
    # <start> sliced away by the implementation: the slicing model must slice it away, too
    if removed:
        rcodes = common.run_case_codes("C19", "removed", HEADER, [f"({t[1]}, {mode_term(t[2])})" for t, _ in removed], "c19_removed", chunk=60, ctype=RT)
        for code, (t, inf) in zip(rcodes, removed):
            if code is None:
                raise Broken("evaluation failed (case file)", repr(inf)[:500])
            if code == 0 and len(res.violations) < 3:
                res.violation("slicing to a subset of parties removed the whole protocol although messages of the kept parties remain in it", inf)
            res.bump("start_sliced_away_in_model_too" if code == 1 else "start_sliced_away_code_%d" % code)
    # the empty history: completeness not judged (the model's verdict is substituted)
    cterms = []
    for (rules, keep, hist, opts, complete), inf in pairs:
        cterms.append(f"({rules}, {keep_term(keep)}, {coq_list([coq_string(h) for h in hist])}, {coq_list([coq_string(o) for o in opts])}, {coq_bool(complete)})")
    codes = common.run_case_codes("C19", "eval", HEADER, cterms, "c19_eval", chunk=60, ctype=CT)
    res.coverage["rule"] = ("7 fixed protocol grammars (incl. tests/resources/forecaster.fan with parties, 'after the last allowed repetition' shapes) + random "
                            "protocol grammars (1-3 control nonterminals, 2-6 message types over 3 parties, nested groups x ? * + {n} {n,m} {n,}); histories "
                            "explored depth-first through the REAL forecaster's options (up to 3 per node, depth 5, 40 histories per grammar), every message "
                            "mounted the way the search does; each answer of PacketForecaster.predict compared in Coq. non-trivial = non-empty history; "
                            "distinct by (spec, history)")
    ok = 0
    known, _ = common.load_known("C19")
    sigs = {k["signature"] for k in known}
    # the recorded finding: grammars in which one sender sends one message type to different recipients
    import re as _re
    proj_idx, proj_terms = [], []
    for i, (code, ((rules, keep, hist, opts, complete), inf)) in enumerate(zip(codes, pairs)):
        if code in (0, 2, 3) and not (code == 2 and not hist):
            refs = set(_re.findall(r"<(\w+):(?:(\w+):)?(\w+)>", inf["spec"]))
            by = {}
            for s_, r_, n_ in refs:
                by.setdefault((s_, n_), set()).add(r_ or "None")
            merged = {k for k, v in by.items() if len(v) > 1}
            if merged:
                tab = [(f"{s_}:{r_ or 'None'}:<{n_}>", f"{s_}:*:<{n_}>") for s_, r_, n_ in refs if (s_, n_) in merged]
                proj_idx.append(i)
                proj_terms.append(f"({rules}, {keep_term(keep)}, {coq_list([coq_string(h) for h in hist])}, {coq_list([coq_string(o) for o in opts])}, {coq_bool(complete)}, "
                                  f"{coq_list([f'({coq_string(a)}, {coq_string(b)})' for a, b in sorted(tab)])})")
    pcodes = common.run_case_codes("C19", "proj", HEADER, proj_terms, "c19_eval_proj", chunk=60, ctype=PT) if proj_terms else []
    merged_ok = {i for i, v in zip(proj_idx, pcodes) if v == 1 or v == 5 or (v == 2 and not pairs[i][0][2])}
    for c in crashes[:3]:
        res.violation("the forecaster raised on a history that it produced itself", c)
    for i_, (code, ((rules, keep, hist, opts, complete), inf)) in enumerate(zip(codes, pairs)):
        if code is None:
            raise Broken("evaluation failed (case file)", repr(inf)[:500])
        if code == 1 or (code == 2 and not hist):
            ok += 1
            continue
        if ((inf.get("nullable_control_nonterminals") or inf.get("empty_deriving_repetition_symbols")) and (code == 3 or (code == 2 and not complete))
                and "empty-deriving-nonterminal-not-completed" in sigs):
            res.known(KNOWN_NULL)
            res.bump("known_nullable_control_nonterminal")
            continue
        if code == 5:
            res.bump("model_gave_up_recursive_grammar")
            continue
        if code == 6:
            if len(res.violations) < 3:
                res.violation("slicing to a subset of parties: the model slices <start> away entirely, the implementation keeps a protocol", inf)
            continue
        if i_ in merged_ok and "options-merged-over-recipients" in sigs:
            res.known(KNOWN_MERGE)
            res.bump("known_merged_recipients")
            continue
        if len(res.violations) < 3:
            what = ("the options offered after a history differ from the messages that can follow it in the grammar" + (" sliced to %s (ignore_receivers=%s)" % (keep[1], keep[0]) if keep else "") if code in (0, 3) else
                    "the history is reported complete although it is not a full interaction (or vice versa)")
            res.violation(what, inf)
    res.coverage["traces_validated_against_impl"] = ok


def search(res):
    pass


def replay(res, rp):
    print("replay: re-run ./check C19 with the same VERIF_SEED; case:", str(rp.get("replay"))[:800])
    return 0
