"""C20 -- a protocol run is always a valid, correctly attributed interaction."""
import random

import common
from common import Broken, coq_N, coq_bool, coq_list, coq_nat, coq_string

FILES = ["Base/Re.v", "Base/Grammar.v", "Model/ForecastM.v", "Model/ProtocolM.v", "Model/C20Case.v", "Proofs/C19.v", "Proofs/C20.v", "Proofs/C20Choose.v", "Props/C20.v"]
HEADER = ("From Coq Require Import List String NArith Bool Arith.\n"
          "From FV Require Import Base.Re Base.Grammar Model.ForecastM Model.ProtocolM Model.C20Case.\n"
          "Import ListNotations.\nOpen Scope string_scope.\nOpen Scope list_scope.\n")
BT = "(list (bop * buffer))"
RT = "(list (string * rhs) * list msg * bool * list (string * list unit_) * list (string * list unit_))"
XT = "(table * table * nat * list string * option (string * nat))"


def obligations(res):
    rc, out = common.make([common.vo(f) for f in FILES])
    res.coverage["obligations"] = common.count_obligations(FILES)
    res.coverage["checker_cmd"] = "coqc (make -f Makefile.coq) + Print Assumptions in Props/C20.v"
    if rc != 0:
        raise Broken("C20 theorems (Proofs/C20.v) no longer compile", out)
    n, ax = common.check_props("C20")
    res.coverage["discharged"] = res.coverage["obligations"]
    res.coverage["trusted_base"] = ax or ["Closed under the global context (no axioms)"]
    res.assumptions += [
        "Coq kernel + vm_compute; no axioms",
        "the race between forecast message types (parse_next_remote_packet) is modelled: C20_choose_longest / C20_choose_none; its per-type parser "
        "answers are oracle tables filled by the real IterativeParser",
        "PARTIAL: proved are (1) the discipline of the receive buffer (FandangoIO.receive with add_receive / clear_by_party): exactly-once, in-order delivery "
        "per sender for every interleaving -- tied to the code by running the real FandangoIO object on random operation sequences; (2) the meaning of the "
        "monitor applied to recorded runs.  The protocol loop itself (_generate_io, parse_next_remote_packet, PacketSelector) is NOT modelled: real "
        "protocol runs against scripted peers (valid replies in all fragmentations, replies of the wrong type, constraint-violating and truncated replies, "
        "early data of a third party) are recorded -- party.send() calls, data injected by the peers, yielded trees, errors -- and judged by the monitor in Coq",
        "threads / real sockets / timing are outside: the scripted peer delivers its fragments synchronously from inside Fuzzer.send(); the 1 s and 15 s "
        "timeouts of the code are only met by the truncated-reply behaviour",
        "constraints on yielded trees are evaluated with the real constraint objects (their semantics is C07/C02's subject)",
    ]


# ------------------------------------------------------------------ (1) buffer correspondence

def buffer_worker(args):
    seed, n = args
    import sys
    sys.stderr = open("/dev/null", "w")
    from fandango.io import FandangoIO
    from props import c07
    c07.quiet()
    res = c07.MiniRes()
    rng = random.Random(seed * 521 + 3)
    terms, infos = [], []

    def bterm(buf):
        return coq_list([f"({coq_string(s)}, {coq_string(r)}, {coq_N(ord(u) if isinstance(u, str) else u[0])})" for s, r, u in buf])
    for _ in range(n):
        io = FandangoIO.__new__(FandangoIO)
        io.__init__()
        steps, descr = [], []
        for _s in range(rng.randint(2, 10)):
            if rng.random() < 0.65 or not io.receive:
                s, r = rng.choice(["Extern", "Third", "Peer"]), rng.choice(["Fuzzer", "Fuzzer2"])
                if rng.random() < 0.8:
                    data = "".join(rng.choice("abc\n;") for _ in range(rng.randint(0, 4)))
                    units = [ord(c) for c in data]
                else:
                    data = bytes(rng.randrange(256) for _ in range(rng.randint(0, 3)))
                    units = list(data)
                io.add_receive(s, r, data)
                op = f"(BAdd {coq_string(s)} {coq_string(r)} {coq_list([coq_N(u) for u in units])})"
                descr.append(f"add_receive({s},{r},{data!r})")
            else:
                p = rng.choice(["Extern", "Third", "Peer"])
                k = rng.randrange(len(io.receive) + 2)
                io.clear_by_party(p, k)
                op = f"(BClear {coq_string(p)} {coq_nat(k)})"
                descr.append(f"clear_by_party({p},{k})")
            steps.append(f"({op}, {bterm(io.receive)})")
        terms.append(coq_list(steps))
        infos.append({"operations": descr})
        res.count(("buffer", tuple(descr)), nontrivial=len(descr) >= 3)
    return (terms, infos), res.hist, res.counts, res.samples



# ------------------------------------------------------------------ (1b) the race between forecast message types

RACE_SPEC = ('<start> ::= <Fuzzer:Extern:ping> (<Extern:Fuzzer:a1> | <Extern:Fuzzer:a2> | <Extern:Fuzzer:a3> | <Extern:Fuzzer:a4> | <Extern:Fuzzer:a5>) <Extern:Fuzzer:tail>* <Fuzzer:Extern:bye>\n'
             '<ping> ::= "ping"\n<a1> ::= "ab"\n<a2> ::= "abcd"\n<a3> ::= "ab" <d>+\n<a4> ::= "x" <d>? "y"\n<a5> ::= r"ab?c*"\n<tail> ::= "c" <d>\n<bye> ::= "bye"\n'
             '<d> ::= "0" | "1" | "2"\n')
RACE_STREAMS = ["ab", "abcd", "abc1", "ab12c0", "abcdc1", "ab1", "xy", "x1y", "x1", "a", "abcc", "abq", "q", "abcdq", "ab1c", "acc", "abccd", ""]


def race_worker(args):
    seed, n = args
    import sys
    sys.stderr = open("/dev/null", "w")
    from fandango import Fandango
    from fandango.errors import FandangoError
    from fandango.io.navigation.packetforecaster import PacketForecaster
    from fandango.io.packetparser import parse_next_remote_packet
    from fandango.language.grammar import ParsingMode
    from fandango.language.grammar.parser.iterative_parser import IterativeParser
    from fandango.language.tree import DerivationTree
    from fandango.language.symbols import NonTerminal
    from props import c07, c19
    c07.quiet()
    res = c07.MiniRes()
    rng = random.Random(seed * 263 + 5)
    terms, infos = [], []
    fan = Fandango(RACE_SPEC + PARTIES, use_stdlib=False, use_cache=False)
    g = fan.grammar
    env, _ = g.get_spec_env()
    io = env["FandangoIO"].instance()
    fc = PacketForecaster(g)
    pred0 = fc.predict(DerivationTree(NonTerminal("<start>")))
    fp = pred0.parties_to_packets["Fuzzer"].nt_to_packet[NonTerminal("<ping>")]
    hist, _n = c19.mount(g, fp, rng)
    for _ in range(n):
        stream = rng.choice(RACE_STREAMS)
        if rng.random() < 0.3:
            stream = "".join(rng.choice("abcdxy012") for _ in range(rng.randint(1, 6)))
        if not stream:
            continue
        pred = fc.predict(hist)
        if "Extern" not in pred.parties_to_packets:
            res.bump("no_forecast_for_extern")
            continue
        cands = [nt.name() for nt in pred.parties_to_packets["Extern"].nt_to_packet]
        # oracle tables: one incremental parser per forecast type, fed unit by unit (exactly what the race does)
        complete, alive = {}, {}
        for nt in cands:
            p = IterativeParser(g.rules)
            p.new_parse(start=NonTerminal(nt), mode=ParsingMode.COMPLETE)
            cl, al, dead = [], [], False
            for u in stream:
                if dead:
                    cl.append(False)
                    al.append(False)
                    continue
                tree, is_c = next(p.consume(u), (None, None))
                cl.append(tree is not None and bool(is_c))
                ok = p.can_continue()
                al.append(bool(ok))
                dead = not ok
            complete[nt], alive[nt] = cl, al
        # the real function on the real buffer, with units of another sender in between
        io.clear_received_msgs()
        other = 0
        for u in stream:
            if rng.random() < 0.25:
                io.add_receive("Third", "Fuzzer", "z")
                other += 1
            io.add_receive("Extern", "Fuzzer", u)
        before = sum(1 for s_, r_, m_ in io.get_received_msgs() if s_ == "Extern")
        try:
            fpk, tree = common.guarded(lambda: parse_next_remote_packet(g, pred, io), 20)
            after = sum(1 for s_, r_, m_ in io.get_received_msgs() if s_ == "Extern")
            third_left = sum(1 for s_, r_, m_ in io.get_received_msgs() if s_ == "Third")
            real = (tree.symbol.name(), before - after)
            if third_left != other or str(tree) != stream[: before - after]:
                real = ("<<buffer or text mismatch>>", before - after)
        except common.ImplTimeout:
            res.bump("race_gave_up_20s")
            continue
        except FandangoError:
            real = None

        def tab(t):
            return coq_list([f"({coq_string(nt)}, {coq_list([coq_bool(b) for b in t[nt]])})" for nt in cands])
        rterm = "None" if real is None else f"(Some ({coq_string(real[0])}, {coq_nat(real[1])}))"
        terms.append(f"({tab(complete)}, {tab(alive)}, {coq_nat(len(stream))}, {coq_list([coq_string(c) for c in cands])}, {rterm})")
        infos.append({"spec": RACE_SPEC, "units_of_extern": stream, "forecast_types": cands, "complete_after_k_units": complete, "can_continue_after_k_units": alive,
                      "implementation_accepted": real})
        res.count(("race", stream), nontrivial=len(stream) >= 2)
        res.bump("race_accepts" if real else "race_rejects")
    return (terms, infos), res.hist, res.counts, res.samples


# ------------------------------------------------------------------ (2) protocol runs against scripted peers

PARTIES = '''
SENT = []
PEER = [None]

class Fuzzer(FandangoParty):
    def __init__(self):
        super().__init__(connection_mode=ConnectionMode.OPEN)

    def send(self, message, recipient):
        SENT.append((recipient, str(message)))
        if PEER[0] is not None:
            for sender, chunk in PEER[0].react(len(SENT), str(message)):
                self.receive(chunk, sender)

class Fuzzer2(FandangoParty):
    def __init__(self):
        super().__init__(connection_mode=ConnectionMode.OPEN)

    def send(self, message, recipient):
        SENT.append((recipient, str(message)))

class Extern(FandangoParty):
    def __init__(self):
        super().__init__(connection_mode=ConnectionMode.EXTERNAL)

class Third(FandangoParty):
    def __init__(self):
        super().__init__(connection_mode=ConnectionMode.EXTERNAL)
'''

# (grammar, control nonterminals, replies: request index (1-based count of Fuzzer.send calls) -> list of (sender, valid text, wrong-type text, violating text))
TEMPLATES = [
    {"spec": '<start> ::= <Fuzzer:Extern:req> <Extern:Fuzzer:resp>\n<req> ::= "GET " <n> "\\n"\n<resp> ::= "OK " <n> "\\n"\n<n> ::= <d> <d>?\n'
             '<d> ::= "0" | "1" | "2" | "3" | "4" | "5" | "6" | "7" | "8" | "9"\nwhere int(<req>.<n>) > 5\nwhere int(<resp>.<n>) < 50\n',
     "names": ["<start>"], "replies": {1: [("Extern", "OK 12\n", "NO 12\n", "OK 77\n")]}},
    {"spec": '<start> ::= (<Fuzzer:Extern:ping> <Extern:Fuzzer:pong>){2} <Fuzzer:Extern:bye>\n<ping> ::= "ping " <d> ";"\n<pong> ::= "pong " <d> ";"\n'
             '<bye> ::= "bye;"\n<d> ::= "0" | "1" | "2" | "3"\nwhere int(<pong>.<d>) < 3\n',
     "names": ["<start>"], "replies": {1: [("Extern", "pong 1;", "ping 1;", "pong 3;")], 2: [("Extern", "pong 2;", "bye;", "pong 3;")]}},
    {"spec": '<start> ::= <Fuzzer:Extern:hello> <Extern:Fuzzer:ack> <Fuzzer:Third:hello> <Third:Fuzzer:ack>\n<hello> ::= "hello\\n"\n<ack> ::= "ack " <w> "\\n"\n'
             '<w> ::= "a" | "b" | "ab"\nwhere str(<ack>.<w>) != "b"\n',
     "names": ["<start>"], "replies": {1: [("Extern", "ack a\n", "hello\n", "ack b\n")], 2: [("Third", "ack ab\n", "nack\n", "ack b\n")]}},
    {"spec": '<start> ::= <Fuzzer:Extern:q> (<Extern:Fuzzer:yes> <Fuzzer:Extern:more> | <Extern:Fuzzer:no>) <Fuzzer:Extern:end>\n<q> ::= "q?"\n<yes> ::= "yes " <d> "."\n'
             '<no> ::= "no."\n<more> ::= "more!"\n<end> ::= "end."\n<d> ::= "1" | "2" | "3"\nwhere int(<yes>.<d>) != 2\n',
     "names": ["<start>"], "replies": {1: [("Extern", "yes 1.", "maybe.", "yes 2."), ("Extern", "no.", "nope", "yes 2.")]}},
    {"spec": '<start> ::= <Fuzzer:Extern:hello> (<Extern:Fuzzer:ack> <Third:Fuzzer:ack> | <Third:Fuzzer:ack> <Extern:Fuzzer:ack>) <Fuzzer:Extern:bye>\n'
             '<hello> ::= "hello\\n"\n<ack> ::= "ack " <w> "\\n"\n<bye> ::= "bye\\n"\n<w> ::= "a" | "b" | "ab"\nwhere str(<ack>.<w>) != "b"\n',
     "names": ["<start>"], "both": True, "replies": {1: [("Extern", "ack a\n", "hello\n", "ack b\n"), ("Third", "ack ab\n", "nack\n", "ack b\n")]}},
    # one message type is a proper prefix of another, and the peer's next message is already buffered when the first is parsed
    {"spec": '<start> ::= <Fuzzer:Extern:ping> (<Extern:Fuzzer:short> | <Extern:Fuzzer:long>) <Extern:Fuzzer:next> <Fuzzer:Extern:bye>\n'
             '<ping> ::= "ping"\n<short> ::= "ab"\n<long> ::= "abcd"\n<next> ::= "c" <w>\n<bye> ::= "bye"\n<w> ::= "e" | "f" | "x"\nwhere str(<next>.<w>) != "x"\n',
     "names": ["<start>"], "replies": {1: [("Extern", "abce", "abzz", "abcx"), ("Extern", "abcdcf", "abcdzz", "abcdcx"), ("Extern", "abcf", "azzz", "abcx")]}},
    # one external party may answer with message types that are addressed to different fuzzer-side parties
    {"spec": '<start> ::= <Fuzzer:Extern:ping> (<Extern:Fuzzer:pong> | <Extern:Fuzzer2:pang> | <Extern:Fuzzer:peng>) <Fuzzer:Extern:done>\n'
             '<ping> ::= "ping\\n"\n<pong> ::= "pong " <d> "\\n"\n<pang> ::= "pang " <d> "\\n"\n<peng> ::= "peng " <d> "\\n"\n<done> ::= "done\\n"\n<d> ::= "1" | "2" | "3"\n'
             'where int(<pang>.<d>) != 3\nwhere int(<pong>.<d>) != 3\n',
     "names": ["<start>"], "replies": {1: [("Extern", "pong 1\n", "pung 1\n", "pong 3\n"), ("Extern", "pang 2\n", "pa\n", "pang 3\n"), ("Extern", "peng 3\n", "p\n", "pang 3\n")]}},
]


class Peer:
    """scripted external parties: reacts to the k-th message sent by the fuzzer"""

    def __init__(self, rng, tpl, behaviour, bad_at):
        self.rng, self.tpl, self.behaviour, self.bad_at = rng, tpl, behaviour, bad_at
        self.injected = []       # (sender, chunk) in arrival order
        self.bad_text = None
        self.choice = {}

    def chunks(self, text):
        k = self.rng.choice(["whole", "units", "random"])
        if k == "whole" or len(text) < 2:
            return [text]
        if k == "units":
            return list(text)
        cuts = sorted(self.rng.sample(range(1, len(text)), self.rng.randint(1, min(3, len(text) - 1))))
        return [text[a:b] for a, b in zip([0] + cuts, cuts + [len(text)])]

    def react(self, k, sent_text):
        opts = self.tpl["replies"].get(k)
        if not opts:
            return []
        sender, valid, wrong, violating = self.rng.choice(opts)
        out = []
        if k == self.bad_at and self.behaviour != "valid":
            text = {"wrong_type": wrong, "violating": violating, "truncated": valid[: max(1, len(valid) // 2)]}[self.behaviour]
            self.bad_text = text
        else:
            text = valid
        out = [(sender, c) for c in self.chunks(text)]
        if len(opts) > 1 and self.tpl.get("both"):
            # two peers answer at the same time: their fragments arrive interleaved
            other = [o for o in opts if o[0] != sender][0]
            o_text = other[1]
            a_, b_ = list(out), [(other[0], c) for c in self.chunks(o_text)]
            mixed = []
            while a_ or b_:
                src = a_ if (a_ and (not b_ or self.rng.random() < 0.5)) else b_
                mixed.append(src.pop(0))
            out = mixed
        self.injected.extend(out)
        return out


def units_term(s):
    return coq_list([coq_N(ord(c)) for c in s])


def run_worker(args):
    seed, n = args
    import sys, io as _io
    from fandango import Fandango
    from fandango.language.grammar import FuzzingMode
    from fandango.errors import FandangoError
    import fandango.evolution.algorithm as alg
    from props import c07, c15
    c07.quiet()
    res = c07.MiniRes()
    rng = random.Random(seed * 677 + 11)
    terms, infos = [], []
    for _ in range(n):
        ti = rng.randrange(len(TEMPLATES))
        tpl = TEMPLATES[ti]
        behaviour = rng.choice(["valid", "valid", "valid", "wrong_type", "violating", "truncated"])
        bad_at = rng.choice(sorted(tpl["replies"]))
        spec = tpl["spec"] + PARTIES
        errors = []
        saved_pe = alg.print_exception
        alg.print_exception = lambda e, *a, **k: errors.append(type(e).__name__ + ": " + str(e)[:160])
        sys.stderr = _io.StringIO()
        results, raised = [], None
        try:
            fan = Fandango(spec, use_stdlib=False, use_cache=False)
            env, _ = fan.grammar.get_spec_env()
            peer = Peer(rng, tpl, behaviour, bad_at)
            env["PEER"][0] = peer
            sent = env["SENT"]
            random.seed(rng.randrange(1 << 30))
            try:
                results = common.guarded(lambda: fan.fuzz(mode=FuzzingMode.IO, population_size=1, desired_solutions=1), 45)
            except common.ImplTimeout:
                res.bump("run_gave_up_45s")
                continue
            except FandangoError as e:
                raised = type(e).__name__ + ": " + str(e)[:160]
            rx = c15.RuleExport(fan.grammar, [], set(tpl["names"]))
        except Exception as e:
            res.bump("harness_or_setup_failed_" + type(e).__name__)
            continue
        finally:
            alg.print_exception = saved_pe
            sys.stderr = open("/dev/null", "w")
        misbehaved = peer.bad_text is not None
        error_seen = bool(errors) or raised is not None
        res.bump("behaviour_" + behaviour + ("_triggered" if misbehaved else ""))
        info = {"spec": tpl["spec"], "peer_behaviour": behaviour if misbehaved else "valid", "bad_reply": peer.bad_text,
                "injected": [(s, c) for s, c in peer.injected], "sent_calls": list(sent), "errors": errors, "raised": raised, "trees": []}
        verdicts = []
        for t in results or []:
            msgs = t.protocol_msgs()
            seq = [f"{m.sender}:{m.recipient}:{m.msg.symbol.name()}" for m in msgs]
            info["trees"].append([(m.sender, m.recipient, m.msg.symbol.name(), str(m.msg)) for m in msgs])
            claims_complete = not error_seen
            accepted = {}
            for m in msgs:
                if m.sender in ("Extern", "Third"):
                    accepted[m.sender] = accepted.get(m.sender, "") + str(m.msg)
            sent_by_peer = {}
            for s, c in peer.injected:
                sent_by_peer[s] = sent_by_peer.get(s, "") + c
            terms.append((f"({rx.term()}, {coq_list([coq_string(x) for x in seq])}, {coq_bool(claims_complete)}, "
                          f"{coq_list([f'({coq_string(s)}, {units_term(v)})' for s, v in sorted(sent_by_peer.items())])}, "
                          f"{coq_list([f'({coq_string(s)}, {units_term(v)})' for s, v in sorted(accepted.items())])})"))
            # python-side clauses: attribution of what the fuzzer sent, constraints, no acceptance of the bad reply
            fz = [(m.recipient, str(m.msg)) for m in msgs if m.sender in ("Fuzzer", "Fuzzer2")]
            problems = []
            if fz != [(r, txt) for r, txt in sent][: len(fz)] or (not error_seen and len(fz) != len(sent)):
                problems.append(f"messages of the fuzzer in the tree {fz} differ from the party.send() calls {list(sent)}")
            try:
                bad_c = [c.format_as_spec() for c in fan.constraints if not c.check(t)]
            except Exception as e:
                bad_c = ["constraint evaluation raised " + repr(e)[:100]]
            if bad_c:
                problems.append(f"the yielded tree violates {bad_c}")
            if misbehaved and not error_seen:
                problems.append("the peer misbehaved but the run reports no error")
            if not misbehaved and error_seen:
                problems.append(f"every peer behaved according to the spec, yet the run ended with an error: {raised or errors}")
            if not misbehaved and not error_seen:
                for s_, all_ in sorted(sent_by_peer.items()):
                    if accepted.get(s_, "") != all_:
                        problems.append(f"data sent by {s_} ({all_!r}) is not what the interaction records as received from it ({accepted.get(s_, '')!r})")
            if misbehaved and peer.bad_text and any(str(m.msg) == peer.bad_text and behaviour != "truncated" for m in msgs if m.sender != "Fuzzer"):
                problems.append("the bad reply was accepted into the interaction tree")
            verdicts.append(problems)
            infos.append(dict(info, problems=problems))
            res.count(("run", ti, behaviour, tuple(peer.injected), tuple(seq)), nontrivial=len(seq) >= 2)
        if not results:
            if misbehaved and error_seen:
                res.bump("run_ended_with_error_no_tree")
            elif not misbehaved:
                terms.append(None)
                infos.append(dict(info, problems=["a run with a well-behaved peer yielded no interaction (" + str(raised or errors) + ")"]))
    if infos:
        res.sample({k: v for k, v in infos[0].items() if k != "spec"})
    return (terms, infos), res.hist, res.counts, res.samples


def correspondence(res):
    from props import c02
    W = 14
    n = 420 if res.tier == "quick" else 3360
    terms, infos = c02.parallel(res, buffer_worker, [(res.seed * 1000 + w, max(1, n // W)) for w in range(W)])
    codes = common.run_case_codes("C20", "buf", HEADER, terms, "c20_buffer", chunk=70, ctype=BT)
    bad = [i for i, v in enumerate(codes) if v != 1]
    ok = len(codes) - len(bad)
    # the race: 1 s of waiting per case inside the implementation (wait_for_completion_time)
    n1 = 84 if res.tier == "quick" else 420
    terms1, infos1 = c02.parallel(res, race_worker, [(res.seed * 1000 + 100 + w, max(1, n1 // W)) for w in range(W)])
    codes1 = common.run_case_codes("C20", "race", HEADER, terms1, "c20_choose", chunk=60, ctype=XT)
    race_bad = [i for i, v in enumerate(codes1) if v != 1]
    ok += len(codes1) - len(race_bad)
    n2 = 56 if res.tier == "quick" else 336
    terms2, infos2 = c02.parallel(res, run_worker, [(res.seed * 1000 + 300 + w, max(1, n2 // W)) for w in range(W)])
    idx = [i for i, t in enumerate(terms2) if t is not None]
    codes2 = common.run_case_codes("C20", "run", HEADER, [terms2[i] for i in idx], "c20_run", chunk=40, ctype=RT)
    res.coverage["rule"] = ("(1b) the race of parse_next_remote_packet on a grammar with 5 forecast types (proper prefixes of each other, repetitions, a regex) x streams of the sender "
                            "interleaved with units of another sender: accepted type and number of units removed vs the model fed with per-type tables from the real "
                            "incremental parser. (1) random operation sequences (2-10 of add_receive with str/bytes data of 3 senders to 2 receivers, clear_by_party) on the real FandangoIO "
                            "object vs the buffer model after every operation. (2) real protocol runs (FuzzingMode.IO) of 4 protocol templates against scripted peers: "
                            "valid replies in random fragmentations (whole / unit-wise / random cuts), early interleaved data of a third party, replies of the wrong "
                            "type, constraint-violating and truncated replies; the yielded trees, send() calls, injected data and errors are judged by the monitor. "
                            "non-trivial = >= 3 buffer operations / >= 2 messages; distinct by operation list / (template, behaviour, injected data, messages)")
    by_code = dict(zip(idx, codes2))
    for i, inf in enumerate(infos2):
        v = by_code.get(i, 1)
        if v is None:
            raise Broken("evaluation failed (case file)", repr(inf)[:600])
        problems = list(inf.get("problems") or [])
        if v == 0:
            problems.append("the recorded message sequence is not a prefix of an interaction of the spec (or not a full interaction although no error was reported)")
        elif v == 2:
            problems.append("what was accepted from a peer is not an initial part of what that peer sent")
        elif v == 5:
            res.bump("model_gave_up")
        if problems:
            if len(res.violations) < 3:
                res.violation("a protocol run is not a valid, correctly attributed interaction: " + problems[0], dict(inf, problems=problems))
        else:
            ok += 1
    res.coverage["traces_validated_against_impl"] = ok
    for i in list(race_bad):
        acc = infos1[i]["implementation_accepted"]
        if acc and acc[0] == "<<buffer or text mismatch>>":
            # concrete failing input: what left the buffer is not the text of the accepted message (or another sender's data was touched)
            if len(res.violations) < 3:
                res.violation("the data removed from the receive buffer is not exactly the accepted message", infos1[i])
            race_bad.remove(i)
    if race_bad:
        i = race_bad[0]
        if codes1[i] is None:
            raise Broken("evaluation failed (case file)", repr(infos1[i])[:600])
        raise Broken(f"correspondence: parse_next_remote_packet accepts something else than the model of the race on {len(race_bad)}/{len(codes1)} inputs",
                     repr(infos1[i]))
    if bad:
        i = bad[0]
        raise Broken(f"correspondence: the receive buffer differs from the model on {len(bad)}/{len(codes)} operation sequences (first difference at operation {codes[i] - 10 if codes[i] else '?'})",
                     repr(infos[i]))


def search(res):
    pass


def replay(res, rp):
    print("replay: re-run ./check C20 with the same VERIF_SEED; case:", str(rp.get("replay"))[:800])
    return 0
