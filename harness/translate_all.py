"""Run every source->Gallina translator (setup and `obligations` stages)."""
import sys
import translate_eval

def main():
    ok = True
    try:
        translate_eval.run()
    except Exception as e:
        print("translate_eval:", e)
        ok = False
    return 0 if ok else 1

if __name__ == "__main__":
    sys.exit(main())
