"""Fail-closed Python-ast -> Gallina translator for the fitness arithmetic
(C02/C03): ConstraintFitness.fitness, Evaluator._evaluate_constraints and
Evaluator.evaluate_individual.  Emits coq/gen/EvalArith.v.

Anything touching the tracked quantities in a form that is not recognised raises
TranslateError (a broken tie, see DESIGN.md 1.5 step 4)."""
import ast
import os

from common import GEN, SRC, write_if_changed


class TranslateError(Exception):
    pass


def find_method(tree, cls, name):
    for n in tree.body:
        if isinstance(n, ast.ClassDef) and n.name == cls:
            for m in n.body:
                if isinstance(m, ast.FunctionDef) and m.name == name:
                    return m
    raise TranslateError(f"{cls}.{name} not found")


def strip_doc(body):
    if body and isinstance(body[0], ast.Expr) and isinstance(body[0].value, ast.Constant) \
            and isinstance(body[0].value.value, str):
        return body[1:]
    return body


# ------------------------------------------------------------------ expressions

class Ctx:
    def __init__(self, inputs):
        self.ty = dict(inputs)   # name -> 'F' | 'Z' | 'B'
        self.special = {}        # ast.dump(expr) -> (coq, ty)


def dump(e):
    return ast.dump(e)


def tr_expr(e, cx):
    """returns (coq text, type)"""
    d = dump(e)
    if d in cx.special:
        return cx.special[d]
    if isinstance(e, ast.Constant):
        if isinstance(e.value, bool):
            return ("true" if e.value else "false"), "B"
        if isinstance(e.value, int):
            return f"({e.value})%Z", "Z"
        if isinstance(e.value, float):
            if e.value != int(e.value) or abs(e.value) > 2 ** 52:
                raise TranslateError(f"float literal {e.value}")
            return f"(fz ({int(e.value)})%Z)", "F"
    if isinstance(e, ast.Name):
        if e.id in cx.ty:
            return e.id, cx.ty[e.id]
        raise TranslateError(f"unknown name {e.id}")
    if isinstance(e, ast.BinOp):
        a, ta = tr_expr(e.left, cx)
        b, tb = tr_expr(e.right, cx)
        op = type(e.op)
        if op is ast.Div:
            return f"(PrimFloat.div {tofl(a, ta)} {tofl(b, tb)})", "F"
        names = {ast.Add: ("PrimFloat.add", "Z.add"), ast.Sub: ("PrimFloat.sub", "Z.sub"),
                 ast.Mult: ("PrimFloat.mul", "Z.mul")}
        if op not in names:
            raise TranslateError(f"operator {op.__name__}")
        if ta == "Z" and tb == "Z":
            return f"({names[op][1]} {a} {b})", "Z"
        return f"({names[op][0]} {tofl(a, ta)} {tofl(b, tb)})", "F"
    if isinstance(e, ast.Compare) and len(e.ops) == 1:
        a, ta = tr_expr(e.left, cx)
        b, tb = tr_expr(e.comparators[0], cx)
        op = type(e.ops[0])
        if ta == "Z" and tb == "Z":
            f = {ast.Gt: "Z.gtb", ast.GtE: "Z.geb", ast.Lt: "Z.ltb", ast.LtE: "Z.leb", ast.Eq: "Z.eqb"}
            if op not in f:
                raise TranslateError("int comparison")
            return f"({f[op]} {a} {b})", "B"
        a, b = tofl(a, ta), tofl(b, tb)
        if op is ast.Eq:
            return f"(PrimFloat.eqb {a} {b})", "B"
        if op is ast.GtE:
            return f"(PrimFloat.leb {b} {a})", "B"
        if op is ast.Gt:
            return f"(PrimFloat.ltb {b} {a})", "B"
        if op is ast.LtE:
            return f"(PrimFloat.leb {a} {b})", "B"
        if op is ast.Lt:
            return f"(PrimFloat.ltb {a} {b})", "B"
        raise TranslateError("float comparison")
    if isinstance(e, ast.BoolOp):
        parts = [tr_expr(v, cx) for v in e.values]
        if any(t != "B" for _, t in parts):
            raise TranslateError("non-boolean operand of and/or")
        f = "andb" if isinstance(e.op, ast.And) else "orb"
        out = parts[0][0]
        for p, _ in parts[1:]:
            out = f"({f} {out} {p})"
        return out, "B"
    raise TranslateError(f"expression {ast.unparse(e)}")


def tofl(a, t):
    if t == "F":
        return a
    if t == "Z":
        return f"(fz {a})"
    raise TranslateError("boolean used as number")


# ------------------------------------------------------------------ statements

def assigned(stmts, tracked):
    out = []
    for s in stmts:
        for n in ast.walk(s):
            if isinstance(n, (ast.Assign, ast.AugAssign)):
                tg = n.targets if isinstance(n, ast.Assign) else [n.target]
                for t in tg:
                    for nm in ast.walk(t):
                        if isinstance(nm, ast.Name) and nm.id in tracked and nm.id not in out:
                            out.append(nm.id)
            if isinstance(n, ast.Yield) and "accepted" not in out:
                out.append("accepted")
    return out


def mentions(node, names):
    return any(isinstance(n, ast.Name) and n.id in names for n in ast.walk(node))


def tr_block(stmts, cx, tracked, sources):
    """returns list of 'let ... in' lines; updates cx.ty"""
    lines = []
    for s in stmts:
        if isinstance(s, ast.Expr) and isinstance(s.value, ast.Yield):
            lines.append("let accepted := true in")
            continue
        if isinstance(s, ast.Assign) and len(s.targets) == 1:
            tg = s.targets[0]
            dv = dump(s.value)
            if dv in sources:  # x, _, _ = self.evaluate_...(individual)
                name = tg.elts[0].id if isinstance(tg, ast.Tuple) else tg.id
                coq, ty = sources[dv]
                cx.ty[name] = ty
                tracked.add(name)
                lines.append(f"let {name} := {coq} in")
                continue
            if isinstance(tg, ast.Name) and (tg.id in tracked or mentions(s.value, tracked)
                                             or dump(s.value) in cx.special or any(dump(x) in cx.special for x in ast.walk(s.value))):
                if tg.id == "key":
                    continue
                coq, ty = tr_expr(s.value, cx)
                cx.ty[tg.id] = ty
                tracked.add(tg.id)
                lines.append(f"let {tg.id} := {coq} in")
                continue
            if mentions(tg, tracked):
                raise TranslateError(f"assignment {ast.unparse(s)}")
            continue  # untracked bookkeeping (cache, failing trees, suggestions)
        if isinstance(s, ast.AugAssign):
            if isinstance(s.target, ast.Name) and s.target.id in tracked:
                e = ast.BinOp(left=ast.Name(id=s.target.id, ctx=ast.Load()), op=s.op, right=s.value)
                coq, ty = tr_expr(e, cx)
                cx.ty[s.target.id] = ty
                lines.append(f"let {s.target.id} := {coq} in")
                continue
            if mentions(s.target, tracked):
                raise TranslateError(f"aug-assignment {ast.unparse(s)}")
            continue
        if isinstance(s, ast.If):
            # the evaluation-cache lookup (C11's subject) is not arithmetic
            if len(s.body) == 1 and isinstance(s.body[0], ast.Return) and not s.orelse \
                    and "_fitness_cache" in ast.unparse(s.test):
                continue
            vs_all = assigned(s.body + s.orelse, tracked | {"accepted"})
            if not vs_all:
                if any(isinstance(n, (ast.Return, ast.Yield)) for b in s.body + s.orelse for n in ast.walk(b)):
                    raise TranslateError(f"control flow in {ast.unparse(s.test)}")
                continue
            live = [v for v in vs_all if v in cx.ty]
            cond, ty = tr_expr(s.test, cx)
            if ty == "Z":   # truthiness of an int
                cond = f"(negb (Z.eqb {cond} 0))"
            saved = dict(cx.ty)
            then_lines = tr_block(s.body, cx, set(tracked), sources)
            then_ty = {v: cx.ty[v] for v in live}
            cx.ty = dict(saved)
            else_lines = tr_block(s.orelse, cx, set(tracked), sources)
            for v in live:
                if cx.ty[v] != then_ty[v]:
                    if {cx.ty[v], then_ty[v]} == {"F", "Z"}:
                        raise TranslateError(f"{v} has different numeric types in the two branches")
            cx.ty = dict(saved)
            for v in live:
                cx.ty[v] = then_ty[v]
            tup = live[0] if len(live) == 1 else "(" + ", ".join(live) + ")"
            pat = live[0] if len(live) == 1 else "'(" + ", ".join(live) + ")"
            lines.append(f"let {pat} := if {cond} then (")
            lines.extend("  " + l for l in then_lines)
            lines.append(f"  {tup}) else (")
            lines.extend("  " + l for l in else_lines)
            lines.append(f"  {tup}) in")
            continue
        if isinstance(s, ast.Return):
            continue  # the tuple returned is (fitness, failing_trees, suggestion); fitness is read below
        if isinstance(s, ast.Expr):
            continue  # calls for effect on untracked objects
        raise TranslateError(f"statement {type(s).__name__}: {ast.unparse(s)[:80]}")
    return lines


# ------------------------------------------------------------------ the three functions

def translate_constraint_fitness(tree):
    f = find_method(tree, "ConstraintFitness", "fitness")
    body = strip_doc(f.body)
    # if self.total: return self.solved / self.total else: return 0
    if len(body) != 1 or not isinstance(body[0], ast.If):
        raise TranslateError("ConstraintFitness.fitness: shape")
    s = body[0]
    cx = Ctx({})
    cx.special[dump(ast.parse("self.total", mode="eval").body)] = ("total", "Z")
    cx.special[dump(ast.parse("self.solved", mode="eval").body)] = ("solved", "Z")

    def ret(b):
        if len(b) != 1 or not isinstance(b[0], ast.Return):
            raise TranslateError("ConstraintFitness.fitness: branch")
        c, t = tr_expr(b[0].value, cx)
        return tofl(c, t)
    cond, ty = tr_expr(s.test, cx)
    if ty == "Z":
        cond = f"(negb (Z.eqb {cond} 0))"
    return (f"Definition constraint_fitness (solved total : Z) : float :=\n"
            f"  if {cond} then {ret(s.body)} else {ret(s.orelse)}.\n")


def translate_class_fitness(tree):
    f = find_method(tree, "Evaluator", "_evaluate_constraints")
    body = strip_doc(f.body)
    # if len(constraints) == 0: return 1.0, [], Nop
    if not (isinstance(body[0], ast.If) and ast.unparse(body[0].test) == "len(constraints) == 0"
            and isinstance(body[0].body[0], ast.Return)):
        raise TranslateError("_evaluate_constraints: empty case")
    cx = Ctx({})
    empty, t = tr_expr(body[0].body[0].value.elts[0], cx)
    empty = tofl(empty, t)
    init = None
    loop = None
    post = []
    for s in body[1:]:
        if isinstance(s, ast.Assign) and isinstance(s.targets[0], ast.Name) and s.targets[0].id == "fitness":
            init, t = tr_expr(s.value, cx)
            init = tofl(init, t)
        elif isinstance(s, ast.For):
            loop = s
        elif isinstance(s, ast.AugAssign) and isinstance(s.target, ast.Name) and s.target.id == "fitness":
            post.append(s)
        elif isinstance(s, ast.Return):
            if not (isinstance(s.value, ast.Tuple) and isinstance(s.value.elts[0], ast.Name)
                    and s.value.elts[0].id == "fitness"):
                raise TranslateError("_evaluate_constraints: return")
        elif mentions(s, {"fitness"}):
            raise TranslateError(f"_evaluate_constraints: {ast.unparse(s)[:60]}")
    if init is None or loop is None or ast.unparse(loop.iter) != "constraints":
        raise TranslateError("_evaluate_constraints: loop")
    if not (len(loop.body) == 1 and isinstance(loop.body[0], ast.Try)):
        raise TranslateError("_evaluate_constraints: try")
    tr = loop.body[0]
    # in the try body: result = constraint.fitness(individual); fitness += result.fitness()
    upd = [s for s in tr.body if mentions(s, {"fitness"}) and isinstance(s, (ast.Assign, ast.AugAssign))
           and not (isinstance(s, ast.Assign) and ast.unparse(s.targets[0]) == "result")]
    if len(upd) != 1 or not isinstance(upd[0], ast.AugAssign) or not isinstance(upd[0].op, ast.Add) \
            or ast.unparse(upd[0].value) != "result.fitness()":
        raise TranslateError("_evaluate_constraints: accumulation")
    first = tr.body[0]
    if ast.unparse(first) != "result = constraint.fitness(individual)":
        raise TranslateError("_evaluate_constraints: call")
    # statements before the accumulation that could raise are only the call itself
    if tr.body.index(upd[0]) != 1:
        raise TranslateError("_evaluate_constraints: order")
    for h in tr.handlers:
        for s in h.body:
            if mentions(s, {"fitness"}):
                raise TranslateError("_evaluate_constraints: handler changes fitness")
    if tr.orelse or tr.finalbody:
        raise TranslateError("_evaluate_constraints: else/finally")
    cx2 = Ctx({"fitness": "F"})
    cx2.special[dump(ast.parse("len(constraints)", mode="eval").body)] = ("(Z.of_nat (List.length results))", "Z")
    lines = tr_block(post, cx2, {"fitness"}, {})
    return ("Definition class_fitness (results : list (option float)) : float :=\n"
            "  if Nat.eqb (List.length results) 0 then " + empty + " else\n"
            "  let fitness := List.fold_left (fun acc r => match r with Some f => PrimFloat.add acc f | None => acc end) results " + init + " in\n"
            + "".join("  " + l + "\n" for l in lines) + "  fitness.\n")


def translate_evaluate_individual(tree):
    f = find_method(tree, "Evaluator", "evaluate_individual")
    body = strip_doc(f.body)
    cx = Ctx({"accepted": "B"})
    P = lambda src: dump(ast.parse(src, mode="eval").body)
    cx.special[P("len(self._hard_constraints)")] = ("n_hard", "Z")
    cx.special[P("len(self._repetition_bounds_constraints)")] = ("n_rep", "Z")
    cx.special[P("len(self._soft_constraints)")] = ("n_soft", "Z")
    cx.special[P("self._expected_fitness")] = ("expected", "F")
    cx.special[P("key not in self._solution_set")] = ("fresh", "B")
    sources = {
        P("self.evaluate_hard_constraints(individual)"): ("hard_f", "F"),
        P("self.evaluate_repetition_bounds_constraints(individual)"): ("rep_f", "F"),
        P("self.evaluate_soft_constraints(individual)"): ("soft_f", "F"),
    }
    tracked = set()
    lines = ["let accepted := false in"] + tr_block(body, cx, tracked, sources)
    if cx.ty.get("fitness") != "F":
        raise TranslateError("evaluate_individual: no float `fitness`")
    return ("Definition evaluate_individual_m (n_hard n_rep n_soft : Z) (hard_f rep_f soft_f expected : float) (fresh : bool) : float * bool :=\n"
            + "".join("  " + l + "\n" for l in lines) + "  (fitness, accepted).\n")


HEADER = """(* GENERATED by harness/translate_eval.py from /repo/src/fandango/evolution/evaluation.py
   and constraints/fitness.py -- do not edit. *)
From Coq Require Import ZArith List PrimFloat Uint63 Bool.
Import ListNotations.
Definition fz (n : Z) : float := of_uint63 (Uint63.of_Z n).
"""


def run():
    ev = ast.parse(open(os.path.join(SRC, "evolution/evaluation.py")).read())
    fi = ast.parse(open(os.path.join(SRC, "constraints/fitness.py")).read())
    text = HEADER + "\n" + translate_constraint_fitness(fi) + "\n" + translate_class_fitness(ev) + "\n" \
        + translate_evaluate_individual(ev)
    changed = write_if_changed(os.path.join(GEN, "EvalArith.v"), text)
    return changed, text


if __name__ == "__main__":
    ch, t = run()
    print(t)
