#!/bin/bash
# Build the framework offline: regenerate translated models from /repo, full .vo build.
set -e
cd "$(dirname "$0")"
export VERIF_REPO="${VERIF_REPO:-/repo}"
export PYTHONPATH="$VERIF_REPO/src:$PWD/harness" PYTHONHASHSEED=0 PYTHONDONTWRITEBYTECODE=1
mkdir -p coq/gen evidence replays build
/venv/bin/python harness/translate_all.py || echo "translator failed (reported by the checks)"
cd coq
coq_makefile -f _CoqProject -o Makefile.coq
timeout 3000 make -f Makefile.coq -j16 -k || echo "coq build incomplete (reported by the checks)"
