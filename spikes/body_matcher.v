From Coq Require Import List Arith Bool String Lia.
Import ListNotations.
Section M.
Variable A : Type.           (* child descriptor: root symbol of a child *)
Variable T : Type.           (* atom of a body: terminal or reference *)
Variable acc : T -> A -> bool.

Inductive rhs :=
| Atom (t : T)
| Alt (rs : list rhs)
| Cat (rs : list rhs)
| Rep (r : rhs) (mn : nat) (mx : option nat).

Definition union (a b : list nat) := nodup Nat.eq_dec (a ++ b).
Definition shift (p : nat) (l : list nat) := map (fun n => p + n) l.

Fixpoint iter_pos (step : list nat -> list nat) (k : nat) (s : list nat) (i mn : nat) (acc_ : list nat) : list nat :=
  (* s = S_i ; collect S_j for j >= mn, k more rounds *)
  let acc' := if Nat.leb mn i then union acc_ s else acc_ in
  match k with
  | O => acc'
  | S k' => iter_pos step k' (step s) (S i) mn acc'
  end.

Fixpoint ends (r : rhs) (xs : list A) {struct r} : list nat :=
  match r with
  | Atom t => match xs with x :: _ => if acc t x then [1] else [] | [] => [] end
  | Alt rs => (fix go (l : list rhs) := match l with [] => [] | r' :: l' => union (ends r' xs) (go l') end) rs
  | Cat rs => (fix go (l : list rhs) (ps : list nat) := match l with
                 | [] => ps
                 | r' :: l' => go l' (nodup Nat.eq_dec (flat_map (fun p => shift p (ends r' (skipn p xs))) ps))
               end) rs [0]
  | Rep r' mn mx =>
      let step := fun ps => nodup Nat.eq_dec (flat_map (fun p => shift p (ends r' (skipn p xs))) ps) in
      let rounds := match mx with Some M => M | None => mn + List.length xs end in
      iter_pos step rounds [0] 0 mn []
  end.
Definition matches (r : rhs) (xs : list A) : bool := existsb (Nat.eqb (List.length xs)) (ends r xs).
End M.
Arguments Atom {T}. Arguments Alt {T}. Arguments Cat {T}. Arguments Rep {T}.
Definition a := Atom 1. Definition b := Atom 2.
Definition accn (t x : nat) := Nat.eqb t x.
Eval vm_compute in (matches nat nat accn (Cat [Rep (Cat [a; Rep b 0 (Some 1)]) 1 None; Atom 3]) [1;2;1;1;2;3],
                    matches nat nat accn (Cat [Rep (Cat [a; Rep b 0 (Some 1)]) 1 None; Atom 3]) [1;2;2;3],
                    matches nat nat accn (Rep (Rep a 0 (Some 1)) 2 None) [1;1;1],
                    matches nat nat accn (Rep a 2 (Some 3)) [1;1;1;1]).
