From Coq Require Import List Arith Bool String Ascii NArith.
Import ListNotations.
Open Scope string_scope.

Inductive sy := T (s : string) | N (s : string).
Inductive pt := PL (s : string) | PN (n : string) (k : list pt).

Definition sy_eqb (a b : sy) : bool :=
  match a, b with T x, T y => String.eqb x y | N x, N y => String.eqb x y | _, _ => false end.
Fixpoint list_eqb {A} (f : A -> A -> bool) (l1 l2 : list A) : bool :=
  match l1, l2 with [], [] => true | x :: a, y :: b => f x y && list_eqb f a b | _, _ => false end.
Fixpoint pt_eqb (a b : pt) {struct a} : bool :=
  match a, b with
  | PL x, PL y => String.eqb x y
  | PN n k, PN m l => String.eqb n m &&
      (fix go (k l : list pt) : bool := match k, l with
         | [], [] => true | x :: k', y :: l' => pt_eqb x y && go k' l' | _, _ => false end) k l
  | _, _ => false
  end.

Record st := mk { snt : string; sorg : nat; srl : list sy; sdot : nat; skids : list pt }.
Definition st_eqb (a b : st) : bool :=
  String.eqb (snt a) (snt b) && Nat.eqb (sorg a) (sorg b) && list_eqb sy_eqb (srl a) (srl b)
  && Nat.eqb (sdot a) (sdot b) && list_eqb pt_eqb (skids a) (skids b).

Definition rules := list (string * (bool * list (list sy))).   (* name -> (named?, alternatives) *)
Fixpoint lookup (g : rules) (a : string) : option (bool * list (list sy)) :=
  match g with [] => None | (n, v) :: g' => if String.eqb n a then Some v else lookup g' a end.

Definition table := list (list st).
Fixpoint upd {A} (l : list A) (i : nat) (f : A -> A) : list A :=
  match l, i with [], _ => [] | x :: l', O => f x :: l' | x :: l', S i' => x :: upd l' i' f end.
Definition col (t : table) (k : nat) : list st := nth k t [].
Definition add (t : table) (k : nat) (s : st) : table :=
  if existsb (st_eqb s) (col t k) then t else upd t k (fun c => (c ++ [s])%list).

Definition next_sym (s : st) : option sy := nth_error (srl s) (sdot s).
Definition adv (s : st) (extra : list pt) : st :=
  mk (snt s) (sorg s) (srl s) (S (sdot s)) (skids s ++ extra)%list.

Fixpoint prefix (p w : string) : bool :=
  match p, w with EmptyString, _ => true | String a p', String b w' => Ascii.eqb a b && prefix p' w' | _, _ => false end.
Fixpoint drop (n : nat) (w : string) : string :=
  match n, w with O, _ => w | S n', String _ w' => drop n' w' | _, EmptyString => EmptyString end.

(* complete with live iteration over the origin column's states waiting for nt *)
Fixpoint complete_loop (fuel : nat) (g : rules) (t : table) (k : nat) (s : st) (j : nat) : table :=
  match fuel with O => t | S f =>
    let waiting := filter (fun x => match next_sym x with Some (N a) => String.eqb a (snt s) | _ => false end) (col t (sorg s)) in
    match nth_error waiting j with
    | None => t
    | Some x =>
        let named := match lookup g (snt s) with Some (b, _) => b | None => false end in
        let extra := if named then [PN (snt s) (skids s)] else skids s in
        complete_loop f g (add t k (adv x extra)) k s (S j)
    end
  end.

Definition step (cfuel : nat) (g : rules) (w : string) (t : table) (k : nat) (s : st) : table :=
  match next_sym s with
  | None => complete_loop cfuel g t k s 0
  | Some (N a) =>
      match lookup g a with
      | Some (_, alts) => fold_left (fun t' r => add t' k (mk a k r 0 [])) alts t
      | None => t
      end
  | Some (T lit) =>
      if prefix lit (drop k w) then add t (k + String.length lit) (adv s [PL lit]) else t
  end.

Fixpoint process_col (fuel : nat) (g : rules) (w : string) (t : table) (k i : nat) : table :=
  match fuel with O => t | S f =>
    match nth_error (col t k) i with
    | None => t
    | Some s => process_col f g w (step fuel g w t k s) k (S i)
    end
  end.

Fixpoint run_cols (fuel : nat) (g : rules) (w : string) (t : table) (k n : nat) : table :=
  match n with O => t | S n' => run_cols fuel g w (process_col fuel g w t k 0) (S k) n' end.

Definition startnt := "<*start*>".
Definition parse (g : rules) (start w : string) : list pt :=
  let n := String.length w in
  let t0 := add (repeat [] (S n)) 0 (mk startnt 0 [N start] 0 []) in
  let t := run_cols (N.to_nat 5000) g w t0 0 (S n) in
  flat_map (fun s => if String.eqb (snt s) startnt && Nat.eqb (sdot s) 1 then skids s else []) (col t n).

Definition is_helper (n : string) : bool := prefix "<__" n.
Fixpoint collapse (p : pt) : list pt :=
  match p with
  | PL s => [PL s]
  | PN n k => let k' := (fix go (l : list pt) : list pt := match l with [] => [] | x :: l' => (collapse x ++ go l')%list end) k in
              if is_helper n then k' else [PN n k']
  end.
Definition nstates (g : rules) (start w : string) : list nat :=
  let n := String.length w in
  let t0 := add (repeat [] (S n)) 0 (mk startnt 0 [N start] 0 []) in
  map (@List.length st) (run_cols (N.to_nat 5000) g w t0 0 (S n)).
