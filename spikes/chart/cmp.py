import subprocess, sys, signal
from fandango.language.parse.parse import parse
from fandango.language.symbols import NonTerminal, Terminal
def alarm(s,f): raise TimeoutError()
signal.signal(signal.SIGALRM, alarm)
def cq(s): return '"' + s.replace('"','""') + '"'
def sym(x):
    if isinstance(x, NonTerminal): return f'N {cq(x.name())}'
    return f'T {cq(str(x.value()))}'
def export_rules(ip):
    out=[]
    for named, d in ((True, ip._rules), (False, ip._implicit_rules)):
        for nt, alts in d.items():
            a = "; ".join("[" + "; ".join(sym(s) for s,_ in alt) + "]" for alt in alts)
            out.append(f'({cq(nt.name())}, ({"true" if named else "false"}, [{a}]))')
    return "[" + ";\n ".join(out) + "]"
def show(t):
    if t.symbol.is_terminal: return cq(str(t.symbol.value())).replace('""','\\"')
    return "(" + " ".join([t.symbol.name()] + [show(c) for c in t.children]) + ")"
CASES = [
 ('<start> ::= <a> <a>\n<a> ::= "x" | "xx" | "xxx"\n', ["xxxx","xx","x"]),
 ('<start> ::= <e> <e> "x"\n<e> ::= "a"?\n', ["x","ax","aax"]),
 ('<start> ::= <a> <b> "x"\n<a> ::= <e>\n<b> ::= <e>\n<e> ::= ""\n', ["x"]),
 ('<start> ::= <s>\n<s> ::= <s> "a" | "a"\n', ["aaa"]),
 ('<start> ::= <s>\n<s> ::= "a" <s> | ""\n', ["aaa",""]),
 ('<start> ::= ("a" | "ab")* "b"?\n', ["aab","abab","b",""]),
 ('<start> ::= "a"{2,4} "a"*\n', ["aaa","aaaaa","a"]),
 ('<start> ::= ("a" "b"?)+ <t>\n<t> ::= "c" | "bc"\n', ["abc","aabbc","abbc"]),
 ('<start> ::= <x>+ <x>*\n<x> ::= "p" | "pp"\n', ["ppp"]),
 ('<start> ::= (<x> | <y>){1,3}\n<x> ::= "p"\n<y> ::= "p" "p"?\n', ["ppp"]),
]
vs = ["Require Import Chart.", "From Coq Require Import List String.", "Import ListNotations.", "Open Scope string_scope.",
"""Fixpoint show (p : pt) : string := match p with PL s => "'" ++ s ++ "'" | PN n k => "(" ++ n ++ (fix go (l : list pt) : string := match l with [] => "" | x :: l' => " " ++ show x ++ go l' end) k ++ ")" end."""]
expected = []
i = 0
for spec, words in CASES:
    g,_ = parse(spec, use_stdlib=False, use_cache=False)
    ip = g._parser._iter_parser
    vs.append(f"Definition g{i} : rules := {export_rules(ip)}.")
    for w in words:
        g2,_ = parse(spec, use_stdlib=False, use_cache=False)
        signal.alarm(10)
        try:
            forest = sorted(show(t).replace('"',"'") for t in g2.parse_forest(w)); signal.alarm(0)
        except TimeoutError:
            forest = ["TIMEOUT"]
        ncols = [len(c) for c in g2._parser._iter_parser._table]
        expected.append((i, w, forest, ncols))
        vs.append(f'Eval vm_compute in (map show (flat_map collapse (parse g{i} "<start>" {cq(w)})), nstates g{i} "<start>" {cq(w)}).')
    i += 1
open("Cases.v","w").write("\n".join(vs)+"\n")
import json; json.dump(expected, open("expected.json","w"), indent=0)
print("cases", len(expected))
