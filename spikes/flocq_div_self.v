From Coq Require Import ZArith Reals Floats Lia Lra.
From Flocq Require Import Core BinarySingleNaN PrimFloat.
Open Scope float_scope.
Local Instance Hprec : FLX.Prec_gt_0 prec := eq_refl _.
Local Instance Hmax : Prec_lt_emax prec emax := eq_refl _.

Lemma div_self_one (x : PrimFloat.float) :
  is_finite (Prim2B x) = true -> B2R (Prim2B x) <> 0%R -> (PrimFloat.div x x = PrimFloat.one).
Proof.
  intros Hf Hz.
  apply Prim2B_inj. rewrite div_equiv.
  replace (Prim2B PrimFloat.one) with (Bone (prec:=prec) (emax:=emax)).
  2:{ rewrite one_equiv. now rewrite Prim2B_B2Prim. }
  generalize (Bdiv_correct prec emax Hprec Hmax mode_NE (Prim2B x) (Prim2B x) Hz).
  set (b := Prim2B x) in *.
  assert (Hq : (B2R b / B2R b = 1)%R) by (field; exact Hz).
  rewrite Hq.
  assert (Hr : round radix2 (SpecFloat.fexp prec emax) (round_mode mode_NE) 1 = 1%R).
  { apply round_generic; [apply valid_rnd_N|].
    replace 1%R with (bpow radix2 0) by reflexivity.
    apply generic_format_bpow. unfold SpecFloat.fexp, FLT.FLT_exp, SpecFloat.emin, prec, emax. simpl. lia. }
  rewrite Hr. rewrite Rabs_R1.
  rewrite Rlt_bool_true.
  2:{ replace 1%R with (bpow radix2 0) by reflexivity. apply bpow_lt. unfold emax; lia. }
  intros (HR & HF & HS).
  apply B2R_Bsign_inj.
  - exact (eq_trans HF Hf).
  - apply is_finite_Bone.
  - etransitivity; [exact HR|]. symmetry. apply Bone_correct.
  - etransitivity; [apply HS|].
    + generalize (eq_trans HF Hf). destruct (Bdiv mode_NE b b); simpl; congruence.
    + rewrite Bsign_Bone. destruct (Bsign b); reflexivity.
Qed.
Print Assumptions div_self_one.
