From Coq Require Import PrimFloat Uint63 ZArith List.
Import ListNotations.
Open Scope float_scope.
Definition share (h r : Z) : float :=
  let t := of_uint63 (Uint63.of_Z (h + r)) in
  let fh := of_uint63 (Uint63.of_Z h) in
  let fr := of_uint63 (Uint63.of_Z r) in
  (1 / t * fh) + (1 / t * fr).
Eval vm_compute in (share 1 5, PrimFloat.ltb (share 1 5) 1, PrimFloat.ltb (share 1 1) 1).
Definition fixed (h r : Z) : float :=
  let t := of_uint63 (Uint63.of_Z (h + r)) in
  let fh := of_uint63 (Uint63.of_Z h) in
  let fr := of_uint63 (Uint63.of_Z r) in
  (1 * fh + 1 * fr) / t.
Eval vm_compute in (fixed 1 5, PrimFloat.eqb (fixed 1 5) 1).
