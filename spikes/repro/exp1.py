import sys, signal
from fandango import Fandango
from fandango.language.parse.parse import parse
def alarm(sig, frm): raise TimeoutError()
signal.signal(signal.SIGALRM, alarm)

def tryparse(spec, word, t=5):
    g, c = parse(spec, use_stdlib=False, use_cache=False)
    signal.alarm(t)
    try:
        r = list(g.parse_forest(word))
        signal.alarm(0)
        return [x.to_tree() for x in r][:3], len(r)
    except TimeoutError:
        return "TIMEOUT"
    except Exception as e:
        signal.alarm(0)
        return "EXC", repr(e)[:200]

print("C06 a:", tryparse('<start> ::= <a>*\n<a> ::= "x"?\n', "xx"))
print("C06 b:", tryparse('<start> ::= ("a"?)*\n', "aa"))
print("C06 c:", tryparse('<start> ::= (<b>)+\n<b> ::= "" | "b"\n', "bb"))
print("C06 d:", tryparse('<start> ::= <b>* "c"\n<b> ::= r"b*"\n', "bbc"))
