import random
from fandango import Fandango
LOG=[]
spec = '''
import random
LOG = []
def gen():
    v = str(random.randint(100, 999))
    LOG.append(v)
    return v
<start> ::= <a> "-" <b>
<a> ::= <digit>+ := gen()
<b> ::= <digit>+
<digit> ::= "0"|"1"|"2"|"3"|"4"|"5"|"6"|"7"|"8"|"9"
where int(<a>) == 5
'''
f = Fandango(spec, use_stdlib=False, use_cache=False)
sols = f.fuzz(desired_solutions=3, max_generations=30, random_seed=2)
log = f.grammar._global_variables["LOG"]
for s in sols:
    a = str(s.children[0])
    print("solution", str(s), "| <a> =", a, "| in generator log:", a in log)
print("log size", len(log), log[:5])
spec2 = spec.replace('where int(<a>) == 5', 'where str(<a>) == str(<b>)')
f = Fandango(spec2, use_stdlib=False, use_cache=False)
sols = f.fuzz(desired_solutions=3, max_generations=30, random_seed=2)
log = f.grammar._global_variables["LOG"]
for s in sols:
    a = str(s.children[0])
    print("solution2", str(s), "| <a> =", a, "| in generator log:", a in log)
