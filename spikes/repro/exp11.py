import random, copy
from fandango import Fandango
from fandango.evolution.evaluation import Evaluator
from fandango.evolution import GeneratorWithReturn
from fandango.language.parse.parse import parse

SPECS = {
"quant": '<start> ::= <item>{1,4}\n<item> ::= <k> "=" <v> ";"\n<k> ::= "a"|"b"\n<v> ::= <d>{1,2}\n<d> ::= "0"|"1"|"2"\nwhere forall <i> in <item>: exists <x> in <i>.<v>.<d>: str(<x>) == "1"\nwhere int(<v>) < 20\n',
"comprep": '<start> ::= <n> <x>{int(<n>)}\n<n> ::= "1"|"2"|"3"\n<x> ::= "a"|"b"\nwhere str(<x>) == "a"\n',
"gen": 'import random\n<start> ::= <a> <b>\n<a> ::= <d>+ := str(random.randint(1,50))\n<b> ::= <d>+ := str(int(<a>)*2)\n<d> ::= "0"|"1"|"2"|"3"|"4"|"5"|"6"|"7"|"8"|"9"\nwhere int(<b>) > 40\n',
}
for name, spec in SPECS.items():
    mism = []; calls=[0]
    f = Fandango(spec, use_stdlib=False, use_cache=False)
    orig = Evaluator.evaluate_individual
    def wrapped(self, ind, _orig=orig):
        res = yield from _orig(self, ind)
        calls[0]+=1
        # fresh evaluation
        g2, c2 = parse(spec, use_stdlib=False, use_cache=False)
        ev = Evaluator(g2, c2, 1.0, 0, 0.0)
        t2 = ind.deepcopy(copy_parent=True) if ind.parent is not None else copy.deepcopy(ind)
        st = random.getstate()
        try:
            _, fres = GeneratorWithReturn(_orig(ev, t2)).collect()
        finally:
            random.setstate(st)
        a = (res[0], sorted(str(ft.tree) for ft in res[1])); b = (fres[0], sorted(str(ft.tree) for ft in fres[1]))
        if a != b: mism.append((str(ind), a, b))
        return res
    Evaluator.evaluate_individual = wrapped
    try:
        sols = f.fuzz(desired_solutions=30, max_generations=15, random_seed=4, population_size=20)
    except Exception as e:
        print(name, "EXC", type(e).__name__, str(e)[:100]); sols=[]
    finally:
        Evaluator.evaluate_individual = orig
    print(name, "evals", calls[0], "solutions", len(sols), "mismatches", len(mism), mism[:2])
