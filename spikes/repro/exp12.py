import signal
from fandango.language.parse.parse import parse
def alarm(s,f): raise TimeoutError()
signal.signal(signal.SIGALRM, alarm)
def P(spec, word):
    g,_ = parse(spec, use_stdlib=False, use_cache=False)
    signal.alarm(5)
    try:
        r=[t.to_tree() for t in g.parse_forest(word)]; signal.alarm(0); return len(r)
    except TimeoutError: return "TIMEOUT"
print("nullable twice:", P('<start> ::= <e> <e> "x"\n<e> ::= ""\n', "x"))
print("nullable twice opt:", P('<start> ::= <e> <e> "x"\n<e> ::= "a"?\n', "x"), P('<start> ::= <e> <e> "x"\n<e> ::= "a"?\n', "ax"), P('<start> ::= <e> <e> "x"\n<e> ::= "a"?\n', "aax"))
print("nullable in two rules:", P('<start> ::= <p> <q>\n<p> ::= <e> "x"\n<q> ::= <e> "y"\n<e> ::= "a"?\n', "xy"), P('<start> ::= <p> <q>\n<p> ::= <e> "x"\n<q> ::= <e> "y"\n<e> ::= "a"?\n', "axay"))
print("nullable after nullable:", P('<start> ::= <a> <b> "x"\n<a> ::= <e>\n<b> ::= <e>\n<e> ::= ""\n', "x"))
print("left rec:", P('<start> ::= <s>\n<s> ::= <s> "a" | "a"\n', "aaa"), " right nullable:", P('<start> ::= <s>\n<s> ::= "a" <s> | ""\n', "aaa"))
print("unit cycle:", P('<start> ::= <s>\n<s> ::= <s> | "a"\n', "a"))
