from fandango import Fandango
spec = '<start> ::= <d>{1,}\n<d> ::= "0"|"1"\nwhere len(str(<start>)) > 40\n'
f = Fandango(spec, use_stdlib=False, use_cache=False)
sols = f.fuzz(desired_solutions=3, max_generations=60, random_seed=5)
for s in sols:
    w = str(s)
    back = list(f.parse(w))
    print(len(w), "parses back:", len(back))
import fandango.language.grammar.nodes as nodes
print("cap now", nodes.MAX_REPETITIONS)
