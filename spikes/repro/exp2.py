import sys
from fandango import Fandango
from fandango.language.parse.parse import parse
from fandango.language.tree import DerivationTree
from fandango.language.symbols import Terminal, NonTerminal
import fandango.language.grammar.nodes as nodes

# C12: truncated cached forest
spec = '<start> ::= <a> <a>\n<a> ::= "x" | "xx" | "xxx"\n'
g,_ = parse(spec, use_stdlib=False, use_cache=False)
full = [t.to_tree() for t in g.parse_forest("xxxx")]
g2,_ = parse(spec, use_stdlib=False, use_cache=False)
first = g2.parse("xxxx")
after = [t.to_tree() for t in g2.parse_forest("xxxx")]
print("C12 fresh forest size", len(full), "after parse() first:", len(after))

# C10: slicing mutates parent links
t = DerivationTree(NonTerminal("<s>"), [DerivationTree(Terminal("a")), DerivationTree(Terminal("b")), DerivationTree(Terminal("c"))])
c0 = t.children[0]
print("C10 before slice parent is t:", c0.parent is t)
s = t[0:2]
print("C10 after slice parent is t:", c0.parent is t, type(c0.parent).__name__)

# C09: latin-1 tail
t = DerivationTree(NonTerminal("<s>"), [DerivationTree(Terminal("é"))]+[DerivationTree(Terminal(b)) for b in [0,1,0,0,0,0,0,1]])
print("C09 str:", repr(str(t)), "bytes->latin1:", repr(bytes(t).decode("latin-1")))
t = DerivationTree(NonTerminal("<s>"), [DerivationTree(Terminal("€"))]+[DerivationTree(Terminal(b)) for b in [0,1,0,0,0,0,0,1]])
try: print("C09 str:", repr(str(t)))
except Exception as e: print("C09 str exc", type(e).__name__)
print("C09 bytes", bytes(t))

# C15: printing
for spec in ['<start> ::= ("a" "b")*\n', '<start> ::= "a"{2,}\n', '<start> ::= ("a" | "b") "c"\n', '<start> ::= ("a" "b"){2,3}\n','<start> ::= ("a" "b")? "c"\n']:
    g,_ = parse(spec, use_stdlib=False, use_cache=False)
    print("C15", spec.strip(), "=>", repr(g).replace("\n"," ; "))
