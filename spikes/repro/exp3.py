import sys, os
os.environ.pop("FANDANGO_RAISE_ALL_EXCEPTIONS", None)
from fandango import Fandango
from fandango.language.parse.parse import parse
from fandango.language.tree import DerivationTree
import fandango.language.grammar.nodes as nodes

# C07: comparison raising
spec = '<start> ::= <d>+\n<d> ::= "0"|"1"|"a"\nwhere int(<d>) >= 0\n'
f = Fandango(spec, use_stdlib=False, use_cache=False)
for w in ["01", "0a", "a"]:
    r = list(f.parse(w))
    print("C07 comparison", w, "accepted:", len(r))
spec = '<start> ::= <d>+\n<d> ::= "0"|"1"|"a"\nwhere (int(<d>) >= 0) == True\n'
spec2 = '<start> ::= <d>+\n<d> ::= "0"|"1"|"a"\nwhere bool(int(<d>) >= 0)\n'
f = Fandango(spec2, use_stdlib=False, use_cache=False)
for w in ["01", "0a", "a"]:
    r = list(f.parse(w))
    print("C07 expression", w, "accepted:", len(r))

# C02: does fuzz emit a tree on which comparison raises?
spec = '<start> ::= <d><d><d>\n<d> ::= "0"|"1"|"a"\nwhere int(<d>) >= 0\n'
f = Fandango(spec, use_stdlib=False, use_cache=False)
sols = f.fuzz(desired_solutions=10, max_generations=20, random_seed=1)
print("C02 sols:", [str(s) for s in sols])
