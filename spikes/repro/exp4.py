import sys, os, random
from fandango import Fandango
import fandango.language.grammar.nodes as nodes
A = '<start> ::= <d>*\n<d> ::= "0"|"1"\nwhere len(str(<start>)) == 1000\n'
B = '<start> ::= <d>*\n<d> ::= "a"|"b"\n'
def runB():
    f = Fandango(B, use_stdlib=False, use_cache=False)
    return [str(s) for s in f.fuzz(desired_solutions=5, random_seed=7)]
if sys.argv[1] == "alone":
    print(nodes.MAX_REPETITIONS, runB())
else:
    fa = Fandango(A, use_stdlib=False, use_cache=False)
    fa.fuzz(desired_solutions=1, max_generations=8, random_seed=3)
    print(nodes.MAX_REPETITIONS, runB())
