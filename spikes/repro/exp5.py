import sys, os, random, itertools, signal
from fandango.language.parse.parse import parse
from fandango.language.grammar import ParsingMode
from fandango.language.symbols import NonTerminal
def alarm(sig, frm): raise TimeoutError()
signal.signal(signal.SIGALRM, alarm)
def P(spec, word):
    g,_ = parse(spec, use_stdlib=False, use_cache=False)
    signal.alarm(5)
    try:
        r = [t.to_tree() for t in g.parse_forest(word)]
        signal.alarm(0); return len(r)
    except TimeoutError: return "TIMEOUT"
# C05 empty-matching regex
print("C05 r'a*' b :", P('<start> ::= r"a*" "b"\n', "b"), P('<start> ::= r"a*" "b"\n', "aab"))
print("C05 r'a*' alone empty:", P('<start> ::= r"a*"\n', ""), P('<start> ::= "x" r"a*"\n', "x"))
print("C05 opt:", P('<start> ::= "a"? "b"\n', "b"), P('<start> ::= <e> "b"\n<e> ::= ""\n', "b"))
print("C05 bits:", P('<start> ::= <bit>{8}\n<bit> ::= 0 | 1\n', b"A"), P('<start> ::= <bit>{4} <bit>{4} b"x"\n<bit> ::= 0 | 1\n', b"Ax"))
print("C05 regex split:", P('<start> ::= r"[a-z]+" r"[0-9]+"\n', "abc123"),  P('<start> ::= r"[a-z]*" "a"\n', "aaa"))

# C13 fragmentation
def frag(spec, word, start="<start>"):
    g,_ = parse(spec, use_stdlib=False, use_cache=False)
    ip = g._parser._iter_parser
    whole = sorted(t.to_tree() for t in g.parse_forest(word))
    res = {}
    n=len(word)
    for cuts in itertools.product([0,1], repeat=n-1):
        pieces=[]; cur=word[0:1]
        for i,c in enumerate(cuts):
            if c: pieces.append(cur); cur=word[i+1:i+2]
            else: cur+=word[i+1:i+2]
        pieces.append(cur)
        ip.new_parse(NonTerminal(start), ParsingMode.COMPLETE)
        out=[]
        for p in pieces:
            out=[ (ip.collapse(t).to_tree()) for t,c in ip.consume(p) if c]
        res[tuple(pieces)] = sorted(out)
    bad = {k:v for k,v in res.items() if v!=whole}
    return len(whole), len(res), len(bad), list(bad.items())[:2]
print("C13 lit:", frag('<start> ::= "abc" "de"\n', "abcde"))
print("C13 regex:", frag('<start> ::= r"[a-c]+" "de"\n', "abcde"))
print("C13 bytes:", frag('<start> ::= b"ab" <bit>{8}\n<bit> ::= 0|1\n', b"abA"))
print("C13 alt:", frag('<start> ::= <a> <a>\n<a> ::= "x" | "xx"\n', "xxx"))
