from fandango.language.tree import DerivationTree as D
from fandango.language.symbols import Terminal as T, NonTerminal as N
bits=lambda s:[D(T(int(c))) for c in s]
flat = D(N("<s>"), bits("010")+bits("00001")+[D(T(b"x"))])
nest = D(N("<s>"), [D(N("<a>"), bits("010")), D(N("<b>"), bits("00001")+[D(T(b"x"))])])
print("flat", bytes(flat), flat.to_bits())
try: print("nest", bytes(nest))
except Exception as e: print("nest exc", type(e).__name__, e)
try: print("nest bits", nest.to_bits())
except Exception as e: print("nest bits exc", type(e).__name__, e)
from fandango import Fandango
spec='<start> ::= <a> <b>\n<a> ::= <bit>{3}\n<b> ::= <bit>{5} b"x"\n<bit> ::= 0 | 1\n'
f=Fandango(spec,use_stdlib=False,use_cache=False)
try:
    sols=f.fuzz(desired_solutions=2, random_seed=1)
    print([bytes(s) for s in sols])
except Exception as e: print("fuzz exc", type(e).__name__, e)
