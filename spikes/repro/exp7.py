import itertools, re
from fandango.api import Fandango
from fandango.io.navigation.packetforecaster import PacketForecaster
from fandango.language.grammar import ParsingMode
from fandango.language.symbols import NonTerminal
from fandango.language.tree import DerivationTree
def run(spec, regex, alphabet, maxlen=4):
    f = Fandango(spec, use_stdlib=False, use_cache=False)
    g = f.grammar
    fc = PacketForecaster(g)
    rx = re.compile(regex)
    # language words up to maxlen+2 by brute force
    words = [ "".join(w) for n in range(0,maxlen+3) for w in itertools.product(alphabet, repeat=n) if rx.fullmatch("".join(w))]
    prefixes = sorted({w[:i] for w in words for i in range(len(w)+1) if i<=maxlen})
    bad=[]
    for p in prefixes:
        exp_next = sorted({w[len(p)] for w in words if w.startswith(p) and len(w)>len(p)})
        exp_complete = p in words
        if p=="":
            tree = DerivationTree(NonTerminal("<start>"))
        else:
            tree = g.parse(p, mode=ParsingMode.INCOMPLETE)
            if tree is None: bad.append((p,"noparse")); continue
        try:
            pred = fc.predict(tree)
        except Exception as e:
            bad.append((p,"exc",repr(e)[:80])); continue
        got = sorted({nt.name()[1:-1] for party in pred.parties_to_packets.values() for nt in party.nt_to_packet})
        got_complete = len(pred.complete_trees)>0
        if got!=exp_next or got_complete!=exp_complete:
            bad.append((p,got,exp_next,got_complete,exp_complete))
    return len(prefixes), bad[:6]
hdr = '<a> ::= "a"\n<b> ::= "b"\n<c> ::= "c"\n'
print(run('<start> ::= <StdOut:a>{1,2} <StdOut:b>\n'+hdr, r"a{1,2}b", "abc"))
print(run('<start> ::= <StdOut:a>* <StdOut:b>\n'+hdr, r"a*b", "abc"))
print(run('<start> ::= <StdOut:a>? (<StdOut:b> | <StdOut:c>)+\n'+hdr, r"a?(b|c)+", "abc"))
print(run('<start> ::= (<StdOut:a> <StdOut:b>?)+ <StdOut:c>\n'+hdr, r"(ab?)+c", "abc"))
print(run('<start> ::= <x> <StdOut:c>\n<x> ::= <StdOut:a> <x> | <StdOut:b>\n'+hdr, r"a*bc", "abc"))
print(run('<start> ::= <StdOut:a>{2} <StdOut:b>{0,2}\n'+hdr, r"a{2}b{0,2}", "abc"))
