from fandango import Fandango
from fandango.language.parse.parse import parse
# (a) <A>..<A> includes self?
spec = '<start> ::= <e>\n<e> ::= "(" <e> ")" | "x"\nwhere len(str(<start>.<e>..<e>)) < 3\n'
f = Fandango(spec, use_stdlib=False, use_cache=False)
c = f.constraints[0]
t = next(iter(f.grammar.parse_forest("((x))")))
srch = list(c.searches.values())[0]
print("(a) matches of <start>.<e>..<e> on ((x)):", [str(k.evaluate()) for k in srch.find(t)])
# (b) regex literal with both quotes and \'
for src in [r'''<start> ::= r"a\'b\"c"''', r'''<start> ::= r'it\'s "q"' ''']:
    try:
        g,_ = parse(src+"\n", use_stdlib=False, use_cache=False)
        printed = repr(g)
        g2,_ = parse(printed+"\n", use_stdlib=False, use_cache=False)
        import re
        r1 = list(g.rules.values())[0].symbol.value().to_string(); r2 = list(g2.rules.values())[0].symbol.value().to_string()
        print("(b)", src, "=>", printed, "| regex1", repr(r1), "regex2", repr(r2))
    except Exception as e:
        print("(b) exc", src, type(e).__name__, str(e)[:100])
# (f) open-ended repetition vs cap
g,_ = parse('<start> ::= "a"{2,}\n', use_stdlib=False, use_cache=False)
print("(f) parse 25 a's:", g.parse("a"*25) is not None, " 20:", g.parse("a"*20) is not None)
g,_ = parse('<start> ::= "a"*\n', use_stdlib=False, use_cache=False)
print("(f) star 25 a's:", g.parse("a"*25) is not None)
