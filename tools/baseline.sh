#!/bin/bash
# Run the repository's pinned suite against a source tree (default /repo) and
# compare with /root/.vp/BASELINE.json stable_pass.  usage: baseline.sh [repo_dir] [extra env]
R=${1:-/repo}
OUT=$(mktemp -d /tmp/baseline.XXXX)
cd "$R" && env -u FANDANGO_VERIF PYTHONPATH="$R/src" /venv/bin/python -m pytest -ra -q -p no:cacheprovider --timeout=900 --continue-on-collection-errors --junitxml=$OUT/j.xml > $OUT/log 2>&1
/venv/bin/python - "$OUT/j.xml" <<'PY'
import sys, json, xml.etree.ElementTree as ET
base=set(json.load(open('/root/.vp/BASELINE.json'))['stable_pass'])
t=ET.parse(sys.argv[1]); ok=set(); bad=set()
for tc in t.iter('testcase'):
    name=f"{tc.get('classname')}::{tc.get('name')}"
    if any(c.tag in('failure','error') for c in tc): bad.add(name)
    elif any(c.tag=='skipped' for c in tc): pass
    else: ok.add(name)
miss=sorted(base-ok)
print(f"passed={len(ok)} failed={len(bad)} baseline={len(base)} baseline_not_passing={len(miss)}")
for m in miss[:40]: print("  MISSING", m)
PY
rm -rf "$OUT"
