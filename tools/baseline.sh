#!/bin/bash
# Run the repository's pinned suite against a source tree (default /repo) and
# compare with /root/.vp/BASELINE.json stable_pass.  usage: baseline.sh [repo_dir]
# Baseline tests that do not pass in the parallel run are re-run alone once (some
# socket tests time out when the machine is heavily loaded).
R=${1:-/repo}
OUT=$(mktemp -d /tmp/baseline.XXXX)
cd "$R" && env -u FANDANGO_VERIF PYTHONPATH="$R/src" /venv/bin/python -m pytest -ra -q -p no:cacheprovider --timeout=900 --continue-on-collection-errors --junitxml=$OUT/j.xml > $OUT/log 2>&1
/venv/bin/python - "$OUT/j.xml" "$R" <<'PY'
import sys, json, subprocess, os, xml.etree.ElementTree as ET
base=set(json.load(open('/root/.vp/BASELINE.json'))['stable_pass'])
def parse(path):
    t=ET.parse(path); ok=set(); bad=set()
    for tc in t.iter('testcase'):
        name=f"{tc.get('classname')}::{tc.get('name')}"
        if any(c.tag in('failure','error') for c in tc): bad.add(name)
        elif any(c.tag=='skipped' for c in tc): pass
        else: ok.add(name)
    return ok,bad
ok,bad=parse(sys.argv[1]); R=sys.argv[2]
miss=sorted(base-ok)
rerun=[]
if 0<len(miss)<=6:
    for m in miss:
        cls,name=m.split('::',1)
        parts=cls.split('.')
        # tests.test_x[.Class]
        f='/'.join(parts[:2])+'.py'
        node=f+('::'+parts[2] if len(parts)>2 else '')+'::'+name
        env=dict(os.environ,PYTHONPATH=R+'/src'); env.pop('FANDANGO_VERIF',None)
        for attempt in range(3):   # socket tests are flaky when the machine is loaded
            p=subprocess.run(['/venv/bin/python','-m','pytest','-q','-p','no:cacheprovider','-n','0','--timeout=900',node],cwd=R,env=env,capture_output=True,text=True)
            if p.returncode==0:
                rerun.append(m); break
miss=[m for m in miss if m not in rerun]
print(f"passed={len(ok)+len(rerun)} failed={len(bad)-len(rerun)} baseline={len(base)} baseline_not_passing={len(miss)}"+(f" (passed alone on re-run: {rerun})" if rerun else ""))
for m in miss[:40]: print("  MISSING", m)
PY
rm -rf "$OUT"
