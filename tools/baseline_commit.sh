#!/bin/bash
# baseline_commit.sh <commit>: run the pinned suite on a scratch worktree of that commit
C=$1; D=/tmp/bl_$C
git -C /repo worktree add -f --detach $D $C >/dev/null 2>&1
/verif/tools/baseline.sh $D > /tmp/bl_$C.out 2>&1
git -C /repo worktree remove --force $D
echo "$C: $(head -1 /tmp/bl_$C.out)"
