#!/bin/bash
# confirm_seed.sh <name>  (e.g. C03_a): confirm a seeded change from /tmp/seed_out/<name> in a scratch worktree,
# then store it under /verif/seeded/<name>/ .  Worktree is removed afterwards.
N=$1; OUT=/tmp/seed_out/$N; WT=/tmp/confirm_$N
[ -f $OUT/patch.diff ] || { echo "$N: no patch"; exit 1; }
git -C /repo worktree add -f --detach $WT HEAD >/dev/null 2>&1
( cd $WT && git apply $OUT/patch.diff ) || { echo "$N: patch does not apply"; git -C /repo worktree remove --force $WT; exit 1; }
cd /tmp
timeout 600 env PYTHONPATH=/repo/src PYTHONHASHSEED=0 /venv/bin/python $OUT/demo.py > /tmp/confirm_$N.clean 2>&1; RC_CLEAN=$?
timeout 600 env PYTHONPATH=$WT/src PYTHONHASHSEED=0 /venv/bin/python $OUT/demo.py > /tmp/confirm_$N.mut 2>&1; RC_MUT=$?
/verif/tools/baseline.sh $WT > /tmp/confirm_$N.baseline 2>&1; BL=$(head -1 /tmp/confirm_$N.baseline)
git -C /repo worktree remove --force $WT
echo "$N: demo_clean_rc=$RC_CLEAN demo_mutated_rc=$RC_MUT baseline: $BL"
if [ $RC_CLEAN = 0 ] && [ $RC_MUT != 0 ] && echo "$BL" | grep -q "baseline_not_passing=0"; then
  mkdir -p /verif/seeded/$N
  cp $OUT/patch.diff $OUT/demo.py /verif/seeded/$N/
  [ -f $OUT/notes.md ] && cp $OUT/notes.md /verif/seeded/$N/
  echo "{\"confirmed\": true, \"demo_clean_rc\": $RC_CLEAN, \"demo_mutated_rc\": $RC_MUT, \"baseline\": \"$BL\"}" > /verif/seeded/$N/confirm.json
  echo "$N: CONFIRMED"
else
  echo "$N: NOT CONFIRMED"
fi
