#!/bin/bash
# multiseed.sh <seed>...: the quick check of every claimed property under each given VERIF_SEED (unchanged tree: every line should say exit=0)
cd "$(dirname "$0")/.."
for SD in "$@"; do
  for P in $(python3 -c "import json; print(' '.join(c['property_id'] for c in json.load(open('MANIFEST.json'))['checks']))"); do
    S=$(date +%s); VERIF_SEED=$SD ./check $P --tier quick > /tmp/ms_${SD}_$P.out 2>&1; RC=$?; E=$(date +%s)
    echo "seed=$SD $P exit=$RC $((E-S))s violations=$(grep -c '^VIOLATION' /tmp/ms_${SD}_$P.out) known=$(grep -c '^KNOWN-FINDING' /tmp/ms_${SD}_$P.out)"
    if [ $RC != 0 ]; then mkdir -p /tmp/ms_replays; cp replays/${P}_quick_${SD}_*.json /tmp/ms_replays/ 2>/dev/null; fi
  done
done
