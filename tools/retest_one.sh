#!/bin/bash
# retest_one.sh <seed> <pytest node id>: run one baseline test alone on the seeded tree (for tests that are flaky under load)
N=$1; T=$2; OUT=/tmp/seed_out/$N; [ -f $OUT/patch.diff ] || OUT=/verif/seeded/$N; WT=/tmp/retest_$N
git -C /repo worktree add -f --detach $WT HEAD >/dev/null 2>&1
( cd $WT && git apply $OUT/patch.diff ) || { git -C /repo worktree remove --force $WT; exit 1; }
cd $WT && env -u FANDANGO_VERIF PYTHONPATH=$WT/src /venv/bin/python -m pytest -q -p no:cacheprovider -p no:xdist --timeout=900 "$T" 2>&1 | tail -3
git -C /repo worktree remove --force $WT
