#!/bin/bash
# run_all.sh [tier]: every claimed property's check in sequence; prints one line per property
T=${1:-quick}
cd "$(dirname "$0")/.."
for P in $(python3 -c "import json; print(' '.join(c['property_id'] for c in json.load(open('MANIFEST.json'))['checks']))"); do
  S=$(date +%s); ./check $P --tier $T > /tmp/runall_$P.out 2>&1; RC=$?; E=$(date +%s)
  echo "$P exit=$RC $((E-S))s violations=$(grep -c '^VIOLATION' /tmp/runall_$P.out) known=$(grep -c '^KNOWN-FINDING' /tmp/runall_$P.out)"
done
