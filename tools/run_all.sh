#!/bin/bash
# run_all.sh [tier]: every claimed property's check in sequence (or those in $PROPS); prints one line per property
T=${1:-quick}
cd "$(dirname "$0")/.."
O=$(mktemp -d /tmp/runall.XXXX)
ALL=$(python3 -c "import json; print(' '.join(c['property_id'] for c in json.load(open('MANIFEST.json'))['checks']))")
for P in ${PROPS:-$ALL}; do
  S=$(date +%s); ./check $P --tier $T > $O/$P.out 2>&1; RC=$?; E=$(date +%s)
  echo "$P exit=$RC $((E-S))s violations=$(grep -c '^VIOLATION' $O/$P.out) known=$(grep -c '^KNOWN-FINDING' $O/$P.out)"
done
rm -rf $O
