import json, sys
pid, wt, out = sys.argv[1:4]
p = next(json.loads(l) for l in open('/verif/properties.jsonl') if json.loads(l)['id'] == pid)
print(f"""You are helping evaluate a verification effort by playing the role of a developer who introduces a subtle regression.

Repository: fandango-fuzzer/fandango (a Python grammar-plus-constraints fuzzer). You have your OWN scratch git worktree of it at {wt} (do all your work there; never touch /repo or /verif, never commit). The python to use is /venv/bin/python; ALWAYS run with PYTHONPATH={wt}/src so that your edited sources are the ones imported (the copy of fandango in site-packages is stale and must not be used). Example: cd {wt} && PYTHONPATH={wt}/src /venv/bin/python yourdemo.py

The semantic property under study:
  id: {p['id']}
  title: {p['title']}
  statement: {p['statement']}
  quantifier: {p['quantifier']['text']}
  code it is anchored in: {', '.join(p['anchors']['files'])}

Your task: write ONE small change to the library source under {wt}/src/fandango (a realistic bug a developer could plausibly introduce: an off-by-one, a dropped check, a cache key that forgets a field, a wrong branch, a mutation of shared state, two sites that each look fine alone ...) that makes the property FALSE, while
  (a) the package still imports and the repository's existing test suite still passes exactly as before, and
  (b) the breakage needs something specific to manifest (an unusual input, a particular multi-step sequence of operations, a particular grammar shape, a specific count or boundary value, two cooperating code sites) -- NOT something ordinary use or the existing tests would expose at once.
Do not simply revert a recent commit of the repository (look at `git -C {wt} log --oneline | head`; the recent 'fix:' commits must stay).

Then write a demonstration: a small standalone Python program {out}/demo.py that exits 0 (printing PASS) on the unmodified source and exits 1 (printing FAIL and what went wrong) with your change applied. The demo must take the source directory from the environment, i.e. it is run as: PYTHONPATH=<some worktree>/src /venv/bin/python {out}/demo.py . It should be deterministic (seed random if needed) and run in under 2 minutes.

How to check (a): the baseline command is
  cd {wt} && PYTHONPATH={wt}/src /venv/bin/python -m pytest -q -p no:cacheprovider --timeout=900 --continue-on-collection-errors -n 6 -x -q 2>&1 | tail -15
In this sandbox about 139 tests fail even on the unmodified tree (mostly tests/test_cli.py and tests/test_fan_parsers.py, for environmental reasons) and 784 pass; so do NOT use -x; instead run the suite once on your modified tree with `--junitxml={out}/junit.xml` and compare the set of passing tests with the unmodified run. To save time you can obtain the unmodified result from the helper: `/tmp/seed/baseline.sh {wt}` prints `passed=… baseline_not_passing=N` for whatever is currently in {wt} -- N must be 0 with your change applied (it takes about 3-5 minutes; run it at most 2-3 times; first run the most relevant test files alone to iterate quickly, e.g. PYTHONPATH={wt}/src /venv/bin/python -m pytest -q -p no:cacheprovider -n 4 tests/test_<something>.py).

Deliverables, all in {out}/ :
  - patch.diff : `git -C {wt} diff` of your change (source files only, no new tests, no demo inside the repo)
  - demo.py : the demonstration described above
  - notes.md : which property clause it breaks, what exactly is needed for it to manifest, why the existing tests do not notice, the commands you ran and their outcome (demo on clean tree, demo on modified tree, baseline.sh result line).
Verify yourself by reversing/applying the patch (`git -C {wt} diff > {out}/patch.diff; git -C {wt} apply -R {out}/patch.diff; ...; git -C {wt} apply {out}/patch.diff`) to run the demo on both trees -- do NOT use `git stash` (the stash is shared by all worktrees of the repository and other agents use it concurrently). Leave the worktree with your change applied when you finish. Keep the change minimal (a few lines). Report back a 5-line summary.""")
