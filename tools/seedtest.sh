#!/bin/bash
# seedtest.sh <seed dir name> <property id>: run the property's quick check against a seeded change, then restore and re-run clean
S=$1; P=$2
cd /verif
git -C /repo apply seeded/$S/patch.diff 2>/dev/null || git -C /repo apply /tmp/seed_out/$S/patch.diff || { echo "cannot apply"; exit 1; }
./check $P --tier quick > /tmp/seedtest_${S}_$P.out 2>&1; RC=$?
git -C /repo checkout -- .
echo "$S vs $P: exit=$RC  $(grep -c '^VIOLATION' /tmp/seedtest_${S}_$P.out) violation line(s); $(grep '^VIOLATION' /tmp/seedtest_${S}_$P.out | head -1)"
./check $P --tier quick > /tmp/seedtest_${S}_${P}_clean.out 2>&1; echo "clean rerun exit=$?"
