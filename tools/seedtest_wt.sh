#!/bin/bash
# seedtest_wt.sh <seed dir name> <property id>: like seedtest.sh, but the seeded change is applied in a scratch worktree (VERIF_REPO), /repo is untouched
S=$1; P=$2; WT=/tmp/st_$S
cd /verif
PATCH=/verif/seeded/$S/patch.diff; [ -f $PATCH ] || PATCH=/tmp/seed_out/$S/patch.diff
git -C /repo worktree add -f --detach $WT HEAD >/dev/null 2>&1
( cd $WT && git apply $(realpath $PATCH) ) || { echo "cannot apply"; git -C /repo worktree remove --force $WT; exit 1; }
cp /repo/src/fandango/language/parser/sa_fandango_cpp_parser.so $WT/src/fandango/language/parser/ 2>/dev/null
VERIF_REPO=$WT ./check $P --tier quick > /tmp/seedtest_${S}_$P.out 2>&1; RC=$?
git -C /repo worktree remove --force $WT
echo "$S vs $P: exit=$RC  $(grep -c '^VIOLATION' /tmp/seedtest_${S}_$P.out) violation line(s); $(grep '^VIOLATION' /tmp/seedtest_${S}_$P.out | head -1)"
./check $P --tier quick > /tmp/seedtest_${S}_${P}_clean.out 2>&1; echo "clean rerun exit=$?"
